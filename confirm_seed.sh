#!/bin/bash
# usage: confirm_seed.sh <seeded-dir>
# Confirms in a scratch worktree (/tmp/wt-confirm) that the demonstration passes without the patch and fails with it,
# that the patched tree builds, and that the touched packages' own tests (when they are in the pinned stable baseline)
# still pass. Writes the outcome into <seeded-dir>/confirmed.json.
d=$(realpath $1)
export GOFLAGS=-mod=mod GOPROXY=off GOSUMDB=off
WT=${CONFIRMWT:-/tmp/wt-confirm}
[ -d $WT ] || git -C /repo worktree add -q --detach $WT HEAD
git -C $WT checkout -q --detach $(git -C /repo rev-parse HEAD) && git -C $WT checkout -q -- . && git -C $WT clean -fdq
pkg=$(python3 -c "import json;print(json.load(open('$d/meta.json'))['demo_pkg'])")
cmd=$(python3 - "$d" <<'PY'
import json,sys,re
m=json.load(open(sys.argv[1]+'/meta.json'))
c=m['demo_cmd']
parts=[p.strip() for p in c.split('&&')]
gt=[p for p in parts if 'go test' in p or 'go run' in p]
c=gt[-1] if gt else ''
c=re.sub(r'^(?:[A-Z_]+=\S+\s+)+','',c)
c=re.sub(r'^cd \S+\s*;?\s*','',c)
print(c)
PY
)
[ -z "$cmd" ] && { echo "no demo command"; exit 2; }
demo=$(ls $d/zz_demo_test.go $d/*.go 2>/dev/null | head -1)
cp $demo $WT/$pkg/zz_demo_test.go
cd $WT
eval "timeout 1500 $cmd" > ${CONFIRMLOG:-/tmp/confirm}.without.log 2>&1; rc_without=$?
git apply $d/patch.diff || { echo "patch does not apply"; exit 2; }
eval "timeout 1500 $cmd" > ${CONFIRMLOG:-/tmp/confirm}.with.log 2>&1; rc_with=$?
rm -f $WT/$pkg/zz_demo_test.go
touched=$(git diff --name-only | xargs -n1 dirname | sort -u)
build_ok=true; go build $(for t in $touched; do echo ./$t; done) > ${CONFIRMLOG:-/tmp/confirm}.build.log 2>&1 || build_ok=false
tests=""
for t in $touched; do
  if grep -q "\"github.com/snapcore/snapd/$t::" /root/.vp/BASELINE.json && python3 -c "
import json,sys
b=json.load(open('/root/.vp/BASELINE.json'))
sys.exit(0 if any(x.startswith('github.com/snapcore/snapd/$t::') for x in b['stable_pass']) else 1)"; then
    if timeout 1500 go test -vet=off -count=1 ./$t > ${CONFIRMLOG:-/tmp/confirm}.test.log 2>&1; then tests="$tests $t:pass"; else tests="$tests $t:FAIL"; fi
  else
    if timeout 900 go test -vet=off -count=1 -run XXX_NONE ./$t > ${CONFIRMLOG:-/tmp/confirm}.test.log 2>&1; then tests="$tests $t:compiles(not-in-stable-baseline)"; else tests="$tests $t:TESTS-DO-NOT-COMPILE"; fi
  fi
done
git checkout -q -- . && git clean -fdq
python3 - "$d" "$rc_without" "$rc_with" "$build_ok" "$tests" "$cmd" <<'PY'
import json,sys
d,rw,rp,b,tests,cmd=sys.argv[1:7]
out={"demo_cmd_run":cmd,"demo_without_patch_exit":int(rw),"demo_with_patch_exit":int(rp),"patched_tree_builds":b=="true","touched_package_tests":tests.split(),
     "ok": int(rw)==0 and int(rp)!=0 and b=="true" and "FAIL" not in tests and "DO-NOT-COMPILE" not in tests}
json.dump(out,open(d+'/confirmed.json','w'),indent=1)
print(d.split('/')[-1], out)
PY
