#!/bin/bash
# usage: intake_seed.sh <prop> <n> [agent-worktree]
# Takes a sub-agent's deliverables (<agent-worktree>/out/1) into /verif/seeded/<prop>-<n>, confirms them
# (confirm_seed.sh) and runs the property's quick check against the patched tree (seedtest.sh), each in
# its own scratch worktree, then removes the scratch worktrees.
p=$1; n=$2; wt=${3:-/tmp/wt-${p}v}
d=/verif/seeded/$p-$n
mkdir -p $d && cp $wt/out/1/patch.diff $wt/out/1/meta.json $d/ && cp $wt/out/1/*.go $d/ 2>/dev/null
git -C /repo worktree remove --force $wt
CONFIRMWT=/tmp/wt-confirm-$p CONFIRMLOG=/var/tmp/confirm-$p /verif/confirm_seed.sh $d
git -C /repo worktree remove --force /tmp/wt-confirm-$p
SEEDWT=/tmp/wt-seed-$p SEEDOUT=/var/tmp/seedout-$p WORKERS=${WORKERS:-6} /verif/seedtest.sh $d
git -C /repo worktree remove --force /tmp/wt-seed-$p
