#!/bin/bash
# usage: seedtest.sh <seeded-dir> [props...]
# Applies <seeded-dir>/patch.diff in the scratch worktree /tmp/wt-seed (reset to /repo's HEAD),
# runs the quick checks against it (VERIF_REPO), and resets the worktree. /repo is not touched.
d=$1; shift
props="$@"
[ -z "$props" ] && props=$(python3 -c "import json;print(json.load(open('$d/meta.json'))['property'])")
WT=${SEEDWT:-/tmp/wt-seed}
[ -d $WT ] || git -C /repo worktree add -q --detach $WT HEAD
git -C $WT checkout -q --detach $(git -C /repo rev-parse HEAD) && git -C $WT checkout -q -- . && git -C $WT clean -fdq
git -C $WT apply "$d/patch.diff" || { echo "patch does not apply"; exit 2; }
for p in $props; do
  (cd /verif && VERIF_REPO=$WT VERIF_OUTDIR=${SEEDOUT:-/var/tmp/seedout} VERIF_WORKERS=${WORKERS:-8} VERIF_BUDGET_S=${BUDGET:-30} ./bin/check $p quick 2>&1 | grep -E "^(VIOLATION|KNOWN|violation|C[0-9]+ quick|check:)" | cut -c1-300 | head -6; echo "exit=${PIPESTATUS[0]}")
done
git -C $WT checkout -q -- . && git -C $WT clean -fdq
