#!/bin/bash
# usage: seedtest.sh <seeded-dir> [props...]   applies patch.diff to /repo, runs quick checks, reverts
d=$1; shift
props="$@"
[ -z "$props" ] && props=$(python3 -c "import json;print(json.load(open('$d/meta.json'))['property'])")
cd /repo || exit 2
git diff --quiet || { echo "/repo dirty"; exit 2; }
git apply "$d/patch.diff" || { echo "patch does not apply"; exit 2; }
for p in $props; do
  (cd /verif && VERIF_BUDGET_S=${BUDGET:-30} ./bin/check $p quick 2>&1 | grep -E "^(VIOLATION|KNOWN|violation|C[0-9]+ quick|check:)" | cut -c1-400 | head -8; echo "exit=${PIPESTATUS[0]}")
done
git -C /repo checkout -- . 
git -C /repo status --short | grep -v muinstaller
