#!/bin/bash
# Runs the repository's pinned baseline with the verif guard OFF (default toolchain,
# no -tags verif) and compares with /root/.vp/BASELINE.json. Exit 0 iff every
# stable_pass test passes.
set -u
export GOFLAGS=-mod=mod GOPROXY=off GOSUMDB=off
OUT=${1:-/var/tmp/verif-baseline.$$}
mkdir -p "$OUT"
: > "$OUT/gotest.json"
for m in . ./tests/lib/muinstaller; do
  (cd /repo/$m && go test -mod=mod -json -vet=off -count=1 -timeout 25m ./... ) >> "$OUT/gotest.json" 2>"$OUT/stderr.$(echo $m | tr / _)"
done
python3 - "$OUT/gotest.json" <<'PY'
import json,sys
res={}
for l in open(sys.argv[1]):
    try: e=json.loads(l)
    except Exception: continue
    t=e.get('Test'); a=e.get('Action')
    if t and '/' not in t and a in ('pass','fail','skip'):
        res[e['Package']+'::'+t]=a
base=json.load(open('/root/.vp/BASELINE.json'))
bad=[k for k in base['stable_pass'] if res.get(k)!='pass']
print('stable_pass expected:',len(base['stable_pass']),'passing now:',len(base['stable_pass'])-len(bad))
for k in bad: print('NOT PASSING:',k,res.get(k))
sys.exit(1 if bad else 0)
PY
rc=$?
rm -rf "$OUT"
exit $rc
