#!/bin/bash
# dev helper: build an engine binary and run one run index verbosely
# usage: dev-run.sh <prop> <engine-dir> <pkg> <run> [seed]
set -e
REPO=${VERIF_REPO:-/repo}
export REPO
export GOFLAGS=-mod=mod GOPROXY=off GOSUMDB=off GOTOOLCHAIN=local GODEBUG=asynctimerchan=0
S=$(mktemp -d /var/tmp/verifdev-go-build.XXXXXX)
trap "rm -rf $S" EXIT
python3 - "$2" "$S" <<'PY'
import sys,os,json
eng,S=sys.argv[1],sys.argv[2]
REPO=os.environ.get('REPO','/repo')
repl={}
for f in os.listdir('/verif/sim/core'):
    if f.endswith('.go'): repl[REPO+'/internal/verifsim/'+f]='/verif/sim/core/'+f
for d in ('access',eng):
    root='/verif/sim/'+d
    for dp,_,fs in os.walk(root):
        for f in fs:
            if f.endswith('.go'):
                rel=os.path.relpath(dp,root)
                repl[os.path.normpath(os.path.join(REPO,rel,'zz_verif_'+f))]=os.path.join(dp,f)
json.dump({'Replace':repl},open(S+'/overlay.json','w'))
PY
(cd $REPO && go1.26.8 test -c -tags verif -vet=off -overlay $S/overlay.json -o $S/sim.test ./$3)
mkdir -p $S/tmp
cd $REPO/$3 && TMPDIR=$S/tmp VERIF_DIR=/verif VERIF_PROP=$1 VERIF_ONLY_RUN=$4 VERIF_ONLY_RUN_TWICE=$TWICE VERIF_SEED=${5:-1} VERIF_OUT=$S $S/sim.test -test.run '^TestVerifSim$' -test.cpu 1
