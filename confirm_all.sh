#!/bin/bash
cd /verif
for d in seeded/*/; do
  [ -f $d/confirmed.json ] && continue
  [ -f $d/meta.json ] || continue
  ./confirm_seed.sh $d 2>&1 | tail -1 | cut -c1-300
done
