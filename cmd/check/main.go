// check is the driver behind every quick/thorough command in MANIFEST.json.
//
//	check <property> quick|thorough       decide a property on /repo's working tree
//	check <property> --replay <file>      re-execute one recorded execution
//	check --list                          list properties and engines
//
// Exit 0: property held on everything explored; 1: VIOLATION line(s) printed;
// 2: build / watchdog / nondeterminism trouble (never a verdict).
package main

import (
	"bytes"
	"encoding/binary"
	"encoding/json"
	"fmt"
	"io"
	"os"
	"os/exec"
	"path/filepath"
	"sort"
	"strconv"
	"strings"
	"sync"
	"time"
)

const (
	verif = "/verif"
	goBin = "go1.26.8"
)

// repo is the tree under test; VERIF_REPO points checks at a scratch
// worktree (used for sensitivity experiments), default /repo.
var repo = envOr("VERIF_REPO", "/repo")

// outDir is where evidence/ and replays/ are written (default /verif).
var outDir = envOr("VERIF_OUTDIR", verif)

func envOr(k, d string) string {
	if v := os.Getenv(k); v != "" {
		return v
	}
	return d
}

type spec struct {
	Prop     string `json:"property"`
	Engine   string `json:"engine"`  // directory under /verif/sim
	Pkg      string `json:"package"` // package (relative to the repo) whose test binary hosts the engine
	Level    string `json:"level"`
	QuickS   int    `json:"quick_budget_s"` // wall budget of the worker loop, seconds
	ThoroS   int    `json:"thorough_budget_s"`
	Workers  int    `json:"workers,omitempty"` // 0 = 16
	Secondary bool  `json:"secondary,omitempty"` // an additional engine for a property that another engine serves first
	Custom   func(s *spec, tier string, seed uint64, scratch string) int `json:"-"`
	CustomName string `json:"custom,omitempty"`
	RuleText string `json:"rule"`
	// manifest texts
	Technique  string `json:"technique"`
	LevelText  string `json:"level_text"`
	LevelNote  string `json:"level_note"`
	DesignRef  string `json:"design_ref"`
	EngineText string `json:"engine_text"`
}

var specs []*spec

var customs = map[string]func(s *spec, tier string, seed uint64, scratch string) int{}

// loadSpecs reads /verif/sim/*/spec.json (a JSON array of spec objects per engine).
func loadSpecs() {
	files, _ := filepath.Glob(filepath.Join(verif, "sim", "*", "spec.json"))
	sort.Strings(files)
	for _, f := range files {
		b, err := os.ReadFile(f)
		if err != nil {
			die(2, "%v", err)
		}
		var ss []*spec
		if err := json.Unmarshal(b, &ss); err != nil {
			die(2, "%s: %v", f, err)
		}
		for _, s := range ss {
			if s.CustomName != "" {
				s.Custom = customs[s.CustomName]
				if s.Custom == nil {
					die(2, "%s: unknown custom driver %q", f, s.CustomName)
				}
			}
			specs = append(specs, s)
		}
	}
	sort.SliceStable(specs, func(i, j int) bool {
		if specs[i].Prop != specs[j].Prop {
			return specs[i].Prop < specs[j].Prop
		}
		return !specs[i].Secondary && specs[j].Secondary
	})
}

// enabledSpecs are the specs of the engines listed in /verif/sim/ENABLED (one
// engine directory name per line): the ones that are claimed in MANIFEST.json
// and warmed by setup. Any engine directory can still be run by property id.
func enabledSpecs() []*spec {
	b, err := os.ReadFile(filepath.Join(verif, "sim", "ENABLED"))
	if err != nil {
		return specs
	}
	on := map[string]bool{}
	for _, l := range splitLines(string(b)) {
		if !strings.HasPrefix(l, "#") {
			on[l] = true
		}
	}
	var out []*spec
	for _, s := range specs {
		if on[s.Engine] {
			out = append(out, s)
		}
	}
	return out
}

func runOut(name string, args ...string) (string, error) {
	out, err := exec.Command(name, args...).Output()
	return string(out), err
}

func splitLines(s string) []string {
	var out []string
	for _, l := range strings.Split(s, "\n") {
		if strings.TrimSpace(l) != "" {
			out = append(out, strings.TrimSpace(l))
		}
	}
	return out
}

func goEnv(extra ...string) []string {
	env := []string{}
	for _, kv := range os.Environ() {
		if strings.HasPrefix(kv, "GOFLAGS=") || strings.HasPrefix(kv, "GOPROXY=") || strings.HasPrefix(kv, "GOSUMDB=") ||
			strings.HasPrefix(kv, "GOTOOLCHAIN=") || strings.HasPrefix(kv, "GODEBUG=") || strings.HasPrefix(kv, "TMPDIR=") {
			continue
		}
		env = append(env, kv)
	}
	env = append(env, "GOFLAGS=-mod=mod", "GOPROXY=off", "GOSUMDB=off", "GOTOOLCHAIN=local", "GODEBUG=asynctimerchan=0")
	return append(env, extra...)
}

func die(code int, format string, args ...interface{}) {
	fmt.Fprintf(os.Stderr, "check: "+format+"\n", args...)
	os.Exit(code)
}

func repoFingerprint() string {
	var b bytes.Buffer
	for _, args := range [][]string{{"-C", repo, "status", "--porcelain"}, {"-C", repo, "rev-parse", "HEAD"}} {
		out, _ := exec.Command("git", args...).Output()
		b.Write(out)
	}
	for _, f := range []string{"go.mod", "go.sum"} {
		d, _ := os.ReadFile(filepath.Join(repo, f))
		b.WriteString(fmt.Sprintf("%s:%d:%x\n", f, len(d), fnv(d)))
	}
	return b.String()
}

func fnv(d []byte) uint64 {
	h := uint64(14695981039346656037)
	for _, c := range d {
		h ^= uint64(c)
		h *= 1099511628211
	}
	return h
}

// overlayFor maps every file under /verif/sim/core to the virtual package
// internal/verifsim, and every file under /verif/sim/<dir>/<repo-relative
// path>/name.go to /repo/<repo-relative path>/zz_verif_name.go, for the
// shared access files and the engine's own files.
func overlayFor(engine string, scratch string) string {
	repl := map[string]string{}
	core, _ := filepath.Glob(filepath.Join(verif, "sim/core/*.go"))
	for _, f := range core {
		repl[filepath.Join(repo, "internal/verifsim", filepath.Base(f))] = f
	}
	for _, dir := range []string{"access", engine} {
		root := filepath.Join(verif, "sim", dir)
		filepath.Walk(root, func(p string, info os.FileInfo, err error) error {
			if err != nil || info.IsDir() || !strings.HasSuffix(p, ".go") {
				return nil
			}
			rel, _ := filepath.Rel(root, p)
			repl[filepath.Join(repo, filepath.Dir(rel), "zz_verif_"+filepath.Base(rel))] = p
			return nil
		})
	}
	b, _ := json.MarshalIndent(map[string]interface{}{"Replace": repl}, "", " ")
	path := filepath.Join(scratch, "overlay.json")
	if err := os.WriteFile(path, b, 0644); err != nil {
		die(2, "%v", err)
	}
	return path
}

func build(s *spec, scratch string) string {
	ov := overlayFor(s.Engine, scratch)
	bin := filepath.Join(scratch, "sim.test")
	before := repoFingerprint()
	cmd := exec.Command(goBin, "test", "-c", "-tags", "verif", "-vet=off", "-overlay", ov, "-o", bin, "./"+s.Pkg)
	cmd.Dir = repo
	cmd.Env = goEnv()
	out, err := cmd.CombinedOutput()
	if err != nil {
		fmt.Fprintf(os.Stderr, "%s\n", out)
		die(2, "building the simulation binary for %s failed: %v", s.Prop, err)
	}
	if repoFingerprint() != before {
		die(2, "the build touched /repo (status/go.mod/go.sum changed)")
	}
	return bin
}

type workerOut struct {
	Engine       string                       `json:"engine"`
	Runs         int64                        `json:"runs"`
	Rechecked    int64                        `json:"determinism_rechecks"`
	Stats        map[string]int64             `json:"stats"`
	SimTimeNs    int64                        `json:"simtime_ns"`
	SimTimeS     int64                        `json:"simtime_s"`
	Nontrivial   int64                        `json:"nontrivial_runs"`
	Fingerprints string                       `json:"fingerprints_file"`
	Violations   []string                     `json:"violation_replays"`
	Known        map[string]*knownOut         `json:"known"`
	Samples      []interface{}                `json:"samples"`
	Real         []string                     `json:"real"`
	Stubs        []string                     `json:"stubs"`
	Error        string                       `json:"error"`
	WallS        float64                      `json:"wall_s"`
	TapeLenTotal int64                        `json:"tape_len_total"`
}

type knownOut struct {
	Count  int64  `json:"count"`
	Msg    string `json:"msg"`
	Replay string `json:"replay"`
}

type knownEntry struct {
	Property string `json:"property"`
	Class    string `json:"class"`
	Status   string `json:"status"`
	What     string `json:"what"`
	Commit   string `json:"commit,omitempty"`
}

func knownPath() string { return envOr("VERIF_KNOWN_FILE", filepath.Join(verif, "known_findings.json")) }

func loadKnown() []knownEntry {
	b, err := os.ReadFile(knownPath())
	if err != nil {
		return nil
	}
	var f struct {
		Findings []knownEntry `json:"findings"`
	}
	if err := json.Unmarshal(b, &f); err != nil {
		die(2, "known_findings.json: %v", err)
	}
	return f.Findings
}

func copyFile(src, dst string) error {
	in, err := os.Open(src)
	if err != nil {
		return err
	}
	defer in.Close()
	os.MkdirAll(filepath.Dir(dst), 0755)
	out, err := os.Create(dst)
	if err != nil {
		return err
	}
	defer out.Close()
	_, err = io.Copy(out, in)
	return err
}

func mkScratch() string {
	base := os.Getenv("VERIF_SCRATCH")
	if base == "" {
		base = "/var/tmp"
	}
	os.MkdirAll(base, 0755)
	d, err := os.MkdirTemp(base, "verif-go-build.") // "go-build" in the path: snapd's osutil.IsTestBinary() must hold for the test-only mock seams
	if err != nil {
		die(2, "%v", err)
	}
	return d
}

func runSim(s *spec, tier string, seed uint64, scratch string) int {
	t0 := time.Now()
	bin := build(s, scratch)
	buildS := time.Since(t0).Seconds()
	workers := s.Workers
	if workers == 0 {
		workers = 16
	}
	if v := os.Getenv("VERIF_WORKERS"); v != "" {
		workers, _ = strconv.Atoi(v)
	}
	budget := s.QuickS
	if tier == "thorough" {
		budget = s.ThoroS
	}
	if v := os.Getenv("VERIF_BUDGET_S"); v != "" {
		budget, _ = strconv.Atoi(v)
	}
	desc, _ := exec.Command("git", "-C", repo, "describe", "--always", "--dirty").Output()
	var wg sync.WaitGroup
	codes := make([]int, workers)
	outs := make([]string, workers)
	for w := 0; w < workers; w++ {
		wdir := filepath.Join(scratch, fmt.Sprintf("w%d", w))
		os.MkdirAll(filepath.Join(wdir, "tmp"), 0755)
		wg.Add(1)
		go func(w int, wdir string) {
			defer wg.Done()
			env := goEnv(
				"TMPDIR="+filepath.Join(wdir, "tmp"),
				"VERIF_PROP="+s.Prop, "VERIF_TIER="+tier, fmt.Sprintf("VERIF_SEED=%d", seed),
				fmt.Sprintf("VERIF_WORKER=%d", w), fmt.Sprintf("VERIF_WORKERS=%d", workers),
				fmt.Sprintf("VERIF_BUDGET_S=%d", budget), "VERIF_OUT="+wdir,
				"VERIF_KNOWN="+knownPath(),
				"VERIF_REPO_DESCRIBE="+strings.TrimSpace(string(desc)),
				"VERIF_DIR="+verif,
			)
			if os.Getenv("VERIF_MAXRUNS") == "" {
				// keep whatever the caller set
			}
			// a worker that cannot even be started (fork/exec failing on a very busy
			// machine: EAGAIN, ETXTBSY) is started again a few times
			for attempt := 0; ; attempt++ {
				cmd := exec.Command(bin, "-test.run", "^TestVerifSim$", "-test.cpu", "1", "-test.timeout", "0", "-test.count", "1")
				cmd.Dir = filepath.Join(repo, s.Pkg)
				cmd.Env = env
				var buf bytes.Buffer
				cmd.Stdout = &buf
				cmd.Stderr = &buf
				err := cmd.Run()
				outs[w] = buf.String()
				codes[w] = 0
				if err != nil {
					if ee, ok := err.(*exec.ExitError); ok {
						codes[w] = ee.ExitCode()
					} else {
						codes[w] = 2
						outs[w] += fmt.Sprintf("\ncheck: cannot run the worker: %v\n", err)
						if attempt < 5 {
							time.Sleep(time.Duration(attempt+1) * 2 * time.Second)
							continue
						}
					}
				}
				break
			}
		}(w, wdir)
	}
	wg.Wait()

	// merge
	agg := workerOut{Stats: map[string]int64{}, Known: map[string]*knownOut{}}
	fps := map[uint64]struct{}{}
	infra := false
	var maxWall float64
	for w := 0; w < workers; w++ {
		wdir := filepath.Join(scratch, fmt.Sprintf("w%d", w))
		b, err := os.ReadFile(filepath.Join(wdir, fmt.Sprintf("worker%d.json", w)))
		var wo workerOut
		if err != nil || json.Unmarshal(b, &wo) != nil {
			fmt.Fprintf(os.Stderr, "check: worker %d left no result (exit %d); output:\n%s\n", w, codes[w], tail(outs[w], 6000))
			infra = true
			continue
		}
		if codes[w] != 0 && codes[w] != 1 || wo.Error != "" {
			fmt.Fprintf(os.Stderr, "check: worker %d failed (exit %d): %s\n%s\n", w, codes[w], wo.Error, tail(outs[w], 6000))
			infra = true
		}
		agg.Engine = wo.Engine
		agg.Real, agg.Stubs = wo.Real, wo.Stubs
		agg.Runs += wo.Runs
		agg.Rechecked += wo.Rechecked
		agg.SimTimeNs += wo.SimTimeNs
		agg.SimTimeS += wo.SimTimeS
		agg.Nontrivial += wo.Nontrivial
		agg.TapeLenTotal += wo.TapeLenTotal
		if wo.WallS > maxWall {
			maxWall = wo.WallS
		}
		for k, v := range wo.Stats {
			agg.Stats[k] += v
		}
		for k, v := range wo.Known {
			if agg.Known[k] == nil {
				agg.Known[k] = v
			} else {
				agg.Known[k].Count += v.Count
			}
		}
		agg.Violations = append(agg.Violations, wo.Violations...)
		agg.Samples = append(agg.Samples, wo.Samples...)
		if wo.Fingerprints != "" {
			fb, _ := os.ReadFile(wo.Fingerprints)
			for i := 0; i+8 <= len(fb); i += 8 {
				fps[binary.LittleEndian.Uint64(fb[i:])] = struct{}{}
			}
		}
	}
	if infra && len(agg.Violations) == 0 {
		fmt.Fprintf(os.Stderr, "check: %s %s: infrastructure failure, no verdict\n", s.Prop, tier)
		return 2
	}
	if infra {
		fmt.Fprintf(os.Stderr, "check: %s %s: some workers ended abnormally (see above) but others found violations, which are reported\n", s.Prop, tier)
	}
	if agg.Runs == 0 {
		die(2, "no runs executed")
	}

	// replay files (those of earlier runs of this property are replaced)
	os.MkdirAll(filepath.Join(outDir, "replays"), 0755)
	if old, _ := filepath.Glob(filepath.Join(outDir, "replays", s.Prop+"-*.json")); len(old) > 0 {
		for _, f := range old {
			os.Remove(f)
		}
	}
	var vlines []string
	for _, p := range agg.Violations {
		dst := filepath.Join(outDir, "replays", s.Prop+"-"+filepath.Base(p))
		if err := copyFile(p, dst); err != nil {
			die(2, "%v", err)
		}
		var rf struct {
			Class   string `json:"class"`
			Message string `json:"message"`
			Tape    []uint32 `json:"tape"`
		}
		b, _ := os.ReadFile(dst)
		json.Unmarshal(b, &rf)
		fmt.Printf("violation class=%s tape_len=%d: %s\n", rf.Class, len(rf.Tape), firstLine(rf.Message))
		vlines = append(vlines, fmt.Sprintf("VIOLATION property=%s replay=%s", s.Prop, dst))
	}
	knownList := loadKnown()
	knownClasses := []string{}
	for k := range agg.Known {
		knownClasses = append(knownClasses, k)
	}
	sort.Strings(knownClasses)
	knownEv := []map[string]interface{}{}
	for _, k := range knownClasses {
		what := k
		for _, e := range knownList {
			if e.Class == k {
				what = e.What
			}
		}
		ko := agg.Known[k]
		dst := ""
		if ko.Replay != "" {
			dst = filepath.Join(outDir, "replays", "known-"+s.Prop+"-"+strings.ReplaceAll(strings.TrimPrefix(k, s.Prop+"/"), "/", "_")+".json")
			copyFile(ko.Replay, dst)
		}
		fmt.Printf("KNOWN-FINDING: property=%s class=%s seen=%d replay=%s %s\n", s.Prop, k, ko.Count, dst, what)
		knownEv = append(knownEv, map[string]interface{}{"class": k, "seen": ko.Count, "example": firstLine(ko.Msg)})
	}

	// evidence
	wall := time.Since(t0).Seconds()
	faults := map[string]int64{}
	probes := map[string]int64{}
	other := map[string]int64{}
	zeroProbes := []string{}
	for k, v := range agg.Stats {
		switch {
		case strings.HasPrefix(k, "fault:"):
			faults[strings.TrimPrefix(k, "fault:")] = v
		case strings.HasPrefix(k, "probe:"):
			probes[strings.TrimPrefix(k, "probe:")] = v
		default:
			other[k] = v
		}
	}
	for k, v := range probes {
		if v == 0 {
			zeroProbes = append(zeroProbes, k)
		}
	}
	sort.Strings(zeroProbes)
	if len(agg.Samples) > 3 {
		agg.Samples = agg.Samples[:3]
	}
	if len(agg.Samples) == 0 {
		agg.Samples = []interface{}{"no nontrivial run sampled"}
	}
	runWall := maxWall
	if runWall <= 0 {
		runWall = wall
	}
	ev := map[string]interface{}{
		"property_id": s.Prop,
		"tier":        tier,
		"seed":        seed,
		"level":       s.Level,
		"wall_s":      round2(wall),
		"violations":  len(agg.Violations),
		"coverage": map[string]interface{}{
			"evaluations":              agg.Runs,
			"distinct_nontrivial":      len(fps),
			"rule":                     s.RuleText + " distinct_nontrivial = number of distinct event-log fingerprints (FNV-1a over the canonical event log of the run) among runs the engine marked non-trivial (rule above), unioned over all workers with a hash set.",
			"samples":                  agg.Samples,
			"nontrivial_runs":          agg.Nontrivial,
			"runs_per_hour":            int64(float64(agg.Runs) / runWall * 3600),
			"simulated_time_s":         agg.SimTimeS + agg.SimTimeNs/1e9,
			"faults_fired":             faults,
			"probes_hit":               probes,
			"probes_never_hit":         zeroProbes,
			"counters":                 other,
			"determinism_rechecks":     agg.Rechecked,
			"mean_choices_per_run":     round2(float64(agg.TapeLenTotal) / float64(agg.Runs)),
			"workers":                  workers,
			"worker_budget_s":          budget,
			"build_s":                  round2(buildS),
			"real_components":          agg.Real,
			"stubbed_components":       agg.Stubs,
			"known_findings_seen":      knownEv,
			"engine":                   agg.Engine,
			"seeds":                    fmt.Sprintf("VERIF_SEED=%d, run indices 0..%d (run i uses PRNG state mix(seed,i))", seed, agg.Runs-1),
		},
		"assumptions": []string{
			"sampling, not proof: a clean batch is evidence over the seeds explored",
			"built from /repo's working tree with go1.26.8, -tags verif, testing/synctest fake clock where the engine says so",
		},
	}
	os.MkdirAll(filepath.Join(outDir, "evidence"), 0755)
	eb, _ := json.MarshalIndent(ev, "", " ")
	if err := os.WriteFile(filepath.Join(outDir, "evidence", s.Prop+".json"), eb, 0644); err != nil {
		die(2, "%v", err)
	}
	fmt.Printf("%s %s: engine=%s runs=%d distinct_nontrivial=%d sim_time=%ds faults=%v wall=%.1fs (build %.1fs)\n",
		s.Prop, tier, agg.Engine, agg.Runs, len(fps), agg.SimTimeS+agg.SimTimeNs/1e9, faults, wall, buildS)
	if len(zeroProbes) > 0 {
		fmt.Printf("warning: probes never hit: %v\n", zeroProbes)
	}
	for _, l := range vlines {
		fmt.Println(l)
	}
	if len(vlines) > 0 {
		return 1
	}
	return 0
}

// mergeEvidence folds the evidence and replays a secondary engine wrote under
// from/ into the property's evidence file under to/.
func mergeEvidence(to, from string, x *spec) {
	pa := filepath.Join(to, "evidence", x.Prop+".json")
	pb := filepath.Join(from, "evidence", x.Prop+".json")
	var a, b map[string]interface{}
	ba, err1 := os.ReadFile(pa)
	bb, err2 := os.ReadFile(pb)
	if err1 != nil || err2 != nil || json.Unmarshal(ba, &a) != nil || json.Unmarshal(bb, &b) != nil {
		return
	}
	ca, _ := a["coverage"].(map[string]interface{})
	cb, _ := b["coverage"].(map[string]interface{})
	if ca == nil || cb == nil {
		return
	}
	num := func(m map[string]interface{}, k string) float64 { f, _ := m[k].(float64); return f }
	ca["evaluations"] = int64(num(ca, "evaluations") + num(cb, "evaluations"))
	ca["distinct_nontrivial"] = int64(num(ca, "distinct_nontrivial") + num(cb, "distinct_nontrivial"))
	if sa, ok := ca["samples"].([]interface{}); ok {
		if sb, ok := cb["samples"].([]interface{}); ok && len(sb) > 0 {
			ca["samples"] = append(sa, sb[0])
		}
	}
	ca["rule"] = fmt.Sprint(ca["rule"]) + " SECOND ENGINE (" + x.Engine + "): " + fmt.Sprint(cb["rule"])
	ca["second_engine"] = map[string]interface{}{"engine": cb["engine"], "evaluations": cb["evaluations"], "distinct_nontrivial": cb["distinct_nontrivial"],
		"faults_fired": cb["faults_fired"], "probes_hit": cb["probes_hit"], "real_components": cb["real_components"], "stubbed_components": cb["stubbed_components"], "runs_per_hour": cb["runs_per_hour"]}
	a["violations"] = int64(num(a, "violations") + num(b, "violations"))
	a["wall_s"] = round2(num(a, "wall_s") + num(b, "wall_s"))
	out, _ := json.MarshalIndent(a, "", " ")
	os.WriteFile(pa, out, 0644)
	reps, _ := filepath.Glob(filepath.Join(from, "replays", "*.json"))
	for _, r := range reps {
		copyFile(r, filepath.Join(to, "replays", filepath.Base(r)))
	}
}

func round2(f float64) float64 { return float64(int64(f*100)) / 100 }

func firstLine(s string) string {
	if i := strings.Index(s, "\n"); i >= 0 {
		return s[:i]
	}
	return s
}

func tail(s string, n int) string {
	if len(s) > n {
		return "..." + s[len(s)-n:]
	}
	return s
}

func replay(s *spec, path string, scratch string) int {
	bin := build(s, scratch)
	abs, _ := filepath.Abs(path)
	wdir := filepath.Join(scratch, "w0")
	os.MkdirAll(filepath.Join(wdir, "tmp"), 0755)
	cmd := exec.Command(bin, "-test.run", "^TestVerifSim$", "-test.cpu", "1", "-test.timeout", "0")
	cmd.Dir = filepath.Join(repo, s.Pkg)
	cmd.Env = goEnv("TMPDIR="+filepath.Join(wdir, "tmp"), "VERIF_PROP="+s.Prop, "VERIF_REPLAY="+abs, "VERIF_OUT="+wdir, "VERIF_DIR="+verif)
	var buf bytes.Buffer
	cmd.Stdout = &buf
	cmd.Stderr = os.Stderr
	err := cmd.Run()
	for _, l := range strings.Split(buf.String(), "\n") {
		if strings.HasPrefix(l, "REPLAY") || strings.HasPrefix(l, "  | ") {
			fmt.Println(l)
		}
	}
	code := 0
	if err != nil {
		if ee, ok := err.(*exec.ExitError); ok {
			code = ee.ExitCode()
		} else {
			code = 2
		}
	}
	if code == 1 {
		fmt.Printf("VIOLATION property=%s replay=%s\n", s.Prop, abs)
	}
	return code
}

func main() {
	loadSpecs()
	if len(os.Args) >= 2 && os.Args[1] == "--list" {
		for _, s := range specs {
			fmt.Printf("%s engine=%s pkg=%s level=%s quick=%ds thorough=%ds\n", s.Prop, s.Engine, s.Pkg, s.Level, s.QuickS, s.ThoroS)
		}
		return
	}
	if len(os.Args) >= 2 && os.Args[1] == "--manifest" {
		writeManifest()
		return
	}
	if len(os.Args) >= 2 && os.Args[1] == "--warm" {
		// build every engine binary once so later checks hit the build cache
		seen := map[string]bool{}
		for _, s := range enabledSpecs() {
			if s.CustomName == "c06" && !seen[s.Engine] {
				seen[s.Engine] = true
				scratch := mkScratch()
				t0 := time.Now()
				c06BuildDriver(scratch)
				fmt.Printf("warmed %s (workload driver) in %.1fs\n", s.Engine, time.Since(t0).Seconds())
				os.RemoveAll(scratch)
				continue
			}
			if s.Custom != nil || seen[s.Engine+s.Pkg] {
				continue
			}
			seen[s.Engine+s.Pkg] = true
			scratch := mkScratch()
			t0 := time.Now()
			build(s, scratch)
			fmt.Printf("warmed %s (%s) in %.1fs\n", s.Engine, s.Pkg, time.Since(t0).Seconds())
			os.RemoveAll(scratch)
		}
		return
	}
	if len(os.Args) >= 3 && os.Args[1] == "--selftest" {
		os.Exit(selftest(os.Args[2]))
	}
	if len(os.Args) < 3 {
		die(2, "usage: check <property> quick|thorough | check <property> --replay <file> | check --list | check --warm")
	}
	var s *spec
	for _, x := range specs {
		if x.Prop == os.Args[1] {
			s = x
		}
	}
	if s == nil {
		die(2, "unknown property %q", os.Args[1])
	}
	scratch := mkScratch()
	code := 2
	func() {
		defer func() {
			if os.Getenv("VERIF_KEEP_SCRATCH") == "" {
				os.RemoveAll(scratch)
			} else {
				fmt.Fprintf(os.Stderr, "check: scratch kept at %s\n", scratch)
			}
		}()
		if os.Args[2] == "--replay" {
			if len(os.Args) < 4 {
				die(2, "--replay needs a file")
			}
			if s.Custom != nil {
				os.Setenv("VERIF_REPLAY", os.Args[3])
				code = s.Custom(s, "replay", 0, scratch)
				return
			}
			code = replay(s, os.Args[3], scratch)
			return
		}
		tier := os.Args[2]
		if tier != "quick" && tier != "thorough" {
			die(2, "tier must be quick or thorough")
		}
		seed := uint64(1)
		if v := os.Getenv("VERIF_SEED"); v != "" {
			x, err := strconv.ParseUint(v, 10, 64)
			if err != nil {
				die(2, "VERIF_SEED: %v", err)
			}
			seed = x
		}
		// every spec registered for the property is run (a property may be
		// served by more than one engine); the first writes the evidence file,
		// the others are merged into it
		var all []*spec
		for _, x := range specs {
			if x.Prop == s.Prop {
				all = append(all, x)
			}
		}
		finalOut := outDir
		code = 0
		for i, x := range all {
			sub := scratch
			if i > 0 {
				sub = filepath.Join(scratch, fmt.Sprintf("engine%d", i))
				os.MkdirAll(sub, 0755)
				outDir = filepath.Join(sub, "out")
			}
			var rc int
			if x.Custom != nil {
				rc = x.Custom(x, tier, seed, sub)
			} else {
				rc = runSim(x, tier, seed, sub)
			}
			if i > 0 {
				mergeEvidence(finalOut, outDir, x)
				outDir = finalOut
			}
			if rc > code {
				code = rc
			}
		}
	}()
	os.Exit(code)
}


// selftest: determinism across processes and GOMAXPROCS. The same run indices
// of the same seed are executed in separate processes at -test.cpu 1, 4 and 16
// (and once more at 1); the sets of event-log fingerprints and the counters
// must be identical.
func selftest(prop string) int {
	var s *spec
	for _, x := range specs {
		if x.Prop == prop && x.Custom == nil && !x.Secondary {
			s = x
		}
	}
	if s == nil {
		die(2, "no simulator engine for %q", prop)
	}
	scratch := mkScratch()
	defer os.RemoveAll(scratch)
	bin := build(s, scratch)
	nruns := "150"
	if v := os.Getenv("VERIF_SELFTEST_RUNS"); v != "" {
		nruns = v
	}
	type res struct {
		fp    string
		stats string
		runs  int64
	}
	var results []res
	cpus := []string{"1", "4", "16", "1"}
	for i, cpu := range cpus {
		wdir := filepath.Join(scratch, fmt.Sprintf("st%d", i))
		os.MkdirAll(filepath.Join(wdir, "tmp"), 0755)
		cmd := exec.Command(bin, "-test.run", "^TestVerifSim$", "-test.cpu", cpu, "-test.timeout", "0")
		cmd.Dir = filepath.Join(repo, s.Pkg)
		cmd.Env = goEnv("TMPDIR="+filepath.Join(wdir, "tmp"), "VERIF_PROP="+s.Prop, "VERIF_TIER=quick", "VERIF_SEED=7", "VERIF_WORKER=0", "VERIF_WORKERS=1",
			"VERIF_MAXRUNS="+nruns, "VERIF_BUDGET_S=600", "VERIF_OUT="+wdir, "VERIF_KNOWN="+knownPath(), "VERIF_DIR="+verif)
		out, err := cmd.CombinedOutput()
		b, rerr := os.ReadFile(filepath.Join(wdir, "worker0.json"))
		if rerr != nil {
			fmt.Printf("%s\n", tail(string(out), 2000))
			die(2, "selftest: no result at -test.cpu %s: %v", cpu, err)
		}
		var wo workerOut
		json.Unmarshal(b, &wo)
		fb, _ := os.ReadFile(wo.Fingerprints)
		keys := []string{}
		for k := range wo.Stats {
			keys = append(keys, k)
		}
		sort.Strings(keys)
		st := ""
		for _, k := range keys {
			st += fmt.Sprintf("%s=%d ", k, wo.Stats[k])
		}
		results = append(results, res{fp: fmt.Sprintf("%x", fnv(fb)), stats: st, runs: wo.Runs})
		fmt.Printf("selftest %s -test.cpu %-2s: runs=%d fingerprint-set=%s\n", prop, cpu, wo.Runs, results[i].fp)
	}
	for i := 1; i < len(results); i++ {
		if results[i] != results[0] {
			fmt.Printf("selftest %s: DIFFERS between process 0 and process %d\n  %s\n  %s\n", prop, i, results[0].stats, results[i].stats)
			return 2
		}
	}
	fmt.Printf("selftest %s: %d runs identical across 4 processes (GOMAXPROCS 1/4/16/1)\n", prop, results[0].runs)
	return 0
}
