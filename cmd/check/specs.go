package main

const ruleA = "Each evaluation is one seeded simulated execution: 1-3 generated changes (2-10 tasks each, random dependency DAG, 0-3 lanes, scripted handler results) run by the real TaskRunner under a seeded scheduler (order of ensure passes, handler completions, clock steps, aborts, crashes). A run is non-trivial if a fault fired (handler error, undo error, user abort, crash/restart, checkpoint failure) or at least two handlers were in flight at once."

var specs = []*spec{
	{Prop: "C01", Engine: "state", Pkg: "overlord/state", Level: "exploration", QuickS: 40, ThoroS: 600, RuleText: ruleA},
	{Prop: "C02", Engine: "state", Pkg: "overlord/state", Level: "exploration", QuickS: 40, ThoroS: 600, RuleText: ruleA},
	{Prop: "C03", Engine: "state", Pkg: "overlord/state", Level: "exploration", QuickS: 40, ThoroS: 600, RuleText: ruleA},
	{Prop: "C04", Engine: "state", Pkg: "overlord/state", Level: "exploration", QuickS: 40, ThoroS: 600, RuleText: ruleA},
}
