package main

const ruleA = "Each evaluation is one seeded simulated execution: 1-3 generated changes (2-10 tasks each, random dependency DAG, 0-3 lanes, tasks in 0-2 lanes, scripted handler results ok/fail/retry/wait/fail-undo/ignore-kill, scheduled tasks) run by the real TaskRunner under a seeded scheduler (order of ensure passes, handler completions, clock steps, aborts, crashes). A run is non-trivial if a fault fired (handler error, undo error, user abort, crash/restart, checkpoint failure) or at least two handlers were in flight at once."

const engAText = "real overlord/state (State, Change, Task, TaskRunner, checkpoint JSON) inside a testing/synctest bubble; simulated handlers, backend, ensure loop, clock; seeded scheduler and fault plan"

const noteSampling = "Sampling, not proof: evidence over the seeds explored. Trusted: the simulator core (/verif/sim/core), the Go runtime's synctest fake clock, and the stubs named in the evidence file; real code is whatever /repo's working tree contains at check time."

var specs = []*spec{
	{Prop: "C01", Engine: "state", Pkg: "overlord/state", Level: "exploration", QuickS: 40, ThoroS: 600, RuleText: ruleA, EngineText: engAText,
		Technique: "deterministic simulation: seeded schedules and handler failures over the real TaskRunner, undo-order/closure/isolation/completeness oracles on the recorded history",
		LevelText: "Seeded exploration of change graphs x failure points x completion orders (about 5k runs/s); each run checks undo ordering at every undo start and closure, isolation and completeness of the abort at the end against an effects ledger. Right level because the property quantifies over schedules and fault sequences that only a controlled scheduler reaches; exhaustive enumeration of graphs is out of reach.",
		LevelNote: noteSampling, DesignRef: "3 Engine A / C01"},
	{Prop: "C02", Engine: "state", Pkg: "overlord/state", Level: "exploration", QuickS: 40, ThoroS: 600, RuleText: ruleA, EngineText: engAText,
		Technique: "deterministic simulation: start-time monitors (prerequisites Done, dependents ready, scheduled time reached on the simulated clock, wait not resolved) at every handler start",
		LevelText: "Seeded exploration; a monitor evaluates the ordering rules at every handler start against the state right after the ensure pass that started it, including retries with delays, scheduled tasks, early ensure passes that stop short of the deadline and tasks in Wait.",
		LevelNote: noteSampling, DesignRef: "3 Engine A / C02"},
	{Prop: "C03", Engine: "state", Pkg: "overlord/state", Level: "exploration", QuickS: 40, ThoroS: 600, RuleText: ruleA, EngineText: engAText,
		Technique: "deterministic simulation: invariants after every event (ready <=> all tasks ready, aggregate status, monotone readiness, ready time, status notifications) plus stall detection after faults stop and Err() completeness",
		LevelText: "Seeded exploration with user aborts at arbitrary instants; invariants are evaluated after every simulator event and liveness is judged as stall detection (no progress over six periodic ensure passes with nothing running, scheduled or waiting).",
		LevelNote: noteSampling + " daemon.abortChange is represented by a replica of its guard (abort only if !IsReady).", DesignRef: "3 Engine A / C03"},
	{Prop: "C04", Engine: "state", Pkg: "overlord/state", Level: "exploration", QuickS: 40, ThoroS: 600, RuleText: ruleA, EngineText: engAText,
		Technique: "deterministic simulation with crash/restart injection: abandon the instance at any event, reload any durable checkpoint cut of the last action through ReadState, fresh runner; no-redo/rerun/nothing-lost/outcome oracles",
		LevelText: "Seeded exploration with up to three crash/restarts per run at arbitrary events; the surviving checkpoint is any cut inside the last action (never below what was already durable); in-flight handlers may have applied their effect. Oracles: finished tasks never run again, running ones do, ids/changes/tasks preserved, change settles, outcome equals the crash-free outcome where that is schedule independent.",
		LevelNote: noteSampling + " Task work is idempotent by construction of the simulated handlers (as the property assumes).", DesignRef: "3 Engine A / C04"},
	{Prop: "C05", Engine: "state", Pkg: "overlord/state", Level: "exploration", QuickS: 30, ThoroS: 420, EngineText: engAText,
		RuleText:  "Each evaluation is one generated history of state API operations (changes, tasks, edges, lanes, statuses incl. Wait, logs, data, schedules, progress, notices with options, warnings, prune, clock steps up to 5 h) with 1-3 save/reload cycles; after each reload every public accessor is compared with the pre-save observation and fresh change/task/lane/notice ids are drawn and compared with every id ever handed out. Every run reloads at least once, so every run is non-trivial; distinctness is by event-log fingerprint.",
		Technique: "deterministic simulation: generated state histories on a simulated clock, save -> ReadState round trip compared accessor by accessor, id-freshness ledger across reloads",
		LevelText: "Seeded exploration of API histories with repeated reloads; the comparison covers changes, tasks, statuses, waited status, edges, lanes, data, logs, progress, at-time, spawn/ready/doing/undoing times, clean flags, notices, warnings; ids are tracked across all reloads of a run including ids of pruned objects.",
		LevelNote: noteSampling + " Histories apply statuses directly (restricted to what the engine can produce: a ready change never goes back); runner-produced histories are reloaded by C04's restarts.", DesignRef: "3 Engine A / C05"},
	{Prop: "C08", Engine: "state", Pkg: "overlord/state", Level: "exploration", QuickS: 30, ThoroS: 420, EngineText: engAText,
		RuleText:  "Each evaluation is one generated history of notice additions (user/public, 3 types, 3 keys, repeat-after windows), polls and blocking waits by 2-4 clients (uids 0/1000/1001; root default, users=all or user-id=N; type/key filters), clock steps of 0..120 min incl. exact repeat-after boundaries, and restarts from the checkpoint. A run is non-trivial if a client blocked in WaitNotices or a restart happened.",
		Technique: "deterministic simulation: simulated clients/waiters over real AddNotice/Notices/WaitNotices on a fake clock, timestamp-free reference model numbering occurrence/repeat events, waiter wake-up checked at quiescence",
		LevelText: "Seeded exploration; every response is compared with a reference model (exactly the matching notices whose latest repeat event is after the client's cursor, in event order, once), user isolation is part of the model, waiters must have returned at the first quiescence after a matching event and must still wait after a non-matching one.",
		LevelNote: noteSampling + " The HTTP layer is represented by clients that build NoticeFilter as daemon.getNotices does; explicit AddNoticeOptions.Time is outside the quantifier; runs stay inside the 7 day expiry.", DesignRef: "3 Engine A / C08"},
	{Prop: "C09", Engine: "state", Pkg: "overlord/state", Level: "exploration", QuickS: 30, ThoroS: 420, EngineText: engAText,
		RuleText:  "Each evaluation builds 1-3 rounds of 1-8 changes (0-3 tasks, ready/partly done/untouched, optional pending attribute, unlinked tasks, notices, warnings) separated by clock steps up to 9 days and calls Prune with drawn start-of-operation, prune wait, abort wait and ready limit; before/after snapshots are judged by the statement's rules. Every run prunes at least once (non-trivial).",
		Technique: "deterministic simulation: generated histories and simulated clock steps, before/after snapshot oracle around the real State.Prune",
		LevelText: "Seeded exploration of state histories x prune parameters x clock; rules: removed only if ready longer than retention or over the limit oldest-first (ties accepted), all and only its tasks go, unready never removed unless empty and old, abort only after max(spawn,start)+abortWait and no pending predicate, expired notices/warnings gone.",
		LevelNote: noteSampling, DesignRef: "3 Engine A / C09"},
}
