package main

// C06: the state file (and any file written through osutil's atomic-write
// helper) is always a complete old or new version, whatever the crash point.
//
// A non-test workload driver (sim/c06/cmd/verifc06, built from the working
// tree through the overlay) performs a seeded sequence of real atomic writes
// and real state checkpoints under strace. The traced system calls drive a
// disk model with volatile and durable views (file data durable at
// fsync(fd); directory operations durable at fsync(dir), otherwise any
// journal-ordered prefix; unsynced data may persist wholly, not at all or
// torn at 4 KiB). Every prefix of the syscall sequence is a crash point; for
// each, persistence choices are enumerated (all-lost and all-persisted
// always) and the recovered content of every target is judged.

import (
	"bufio"
	"encoding/json"
	"fmt"
	"os"
	"os/exec"
	"path/filepath"
	"regexp"
	"sort"
	"strconv"
	"strings"
	"time"
)

func init() { customs["c06"] = runC06 }

type c06Event struct {
	idx   int
	name  string // syscall or "marker"
	path  string // path argument / marker text
	path2 string
	fd    int
	ret   int64
	flags string
	raw   string
	ord   int // for write: its ordinal among the write system calls of its thread (what strace's when= counts)
	pid   string
}

var c06LineRe = regexp.MustCompile(`^(\d+)\s+(\w+)\((.*)\)\s+=\s+(-?\d+)(.*)$`)
var c06UnfinishedRe = regexp.MustCompile(`^(\d+)\s+(\w+)\((.*)<unfinished \.\.\.>$`)
var c06ResumedRe = regexp.MustCompile(`^(\d+)\s+<\.\.\. (\w+) resumed>(.*)$`)
var c06StrRe = regexp.MustCompile(`"((?:[^"\\]|\\.)*)"`)
var c06FdRe = regexp.MustCompile(`^(\d+)<`)

func c06Parse(path string) ([]*c06Event, error) {
	f, err := os.Open(path)
	if err != nil {
		return nil, err
	}
	defer f.Close()
	var evs []*c06Event
	nWrites := map[string]int{}
	nFsyncs := map[string]int{}
	nOpenats := map[string]int{}
	pending := map[string]string{}
	sc := bufio.NewScanner(f)
	sc.Buffer(make([]byte, 1<<20), 1<<24)
	for sc.Scan() {
		line := sc.Text()
		if m := c06UnfinishedRe.FindStringSubmatch(line); m != nil {
			pending[m[1]] = m[1] + " " + m[2] + "(" + m[3]
			continue
		}
		if m := c06ResumedRe.FindStringSubmatch(line); m != nil {
			if p, ok := pending[m[1]]; ok {
				line = p + m[3]
				delete(pending, m[1])
			}
		}
		m := c06LineRe.FindStringSubmatch(line)
		if m == nil {
			continue
		}
		ev := &c06Event{name: m[2], raw: line, fd: -1, pid: m[1]}
		if ev.name == "write" {
			nWrites[ev.pid]++
			ev.ord = nWrites[ev.pid]
		}
		if ev.name == "fsync" {
			nFsyncs[ev.pid]++
			ev.ord = nFsyncs[ev.pid]
		}
		if ev.name == "openat" {
			nOpenats[ev.pid]++
			ev.ord = nOpenats[ev.pid]
		}
		ev.ret, _ = strconv.ParseInt(m[4], 10, 64)
		args := m[3]
		strs := c06StrRe.FindAllStringSubmatch(args, -1)
		switch ev.name {
		case "faccessat", "faccessat2", "access":
			if len(strs) > 0 && strings.HasPrefix(strs[0][1], "/verif-marker/") {
				ev.name = "marker"
				ev.path = strings.TrimPrefix(strs[0][1], "/verif-marker/")
			} else {
				continue
			}
		case "openat", "open", "creat":
			if len(strs) == 0 || ev.ret < 0 {
				continue
			}
			ev.path = strs[0][1]
			ev.flags = args
			ev.fd = int(ev.ret)
		case "write", "pwrite64", "fsync", "fdatasync", "close", "ftruncate":
			fm := c06FdRe.FindStringSubmatch(args)
			if fm == nil {
				continue
			}
			ev.fd, _ = strconv.Atoi(fm[1])
			if ev.ret < 0 && (ev.name == "fsync" || ev.name == "fdatasync") {
				// a failed fsync: the kernel may have dropped the dirty pages
				ev.name = "fsync-failed"
			} else if ev.ret < 0 {
				continue
			}
		case "rename", "renameat", "renameat2", "link", "linkat":
			if len(strs) < 2 || ev.ret != 0 {
				continue
			}
			ev.path, ev.path2 = strs[0][1], strs[1][1]
		case "unlink", "unlinkat":
			if len(strs) < 1 || ev.ret != 0 {
				continue
			}
			ev.path = strs[0][1]
		case "sync", "syncfs":
		default:
			continue
		}
		ev.idx = len(evs)
		evs = append(evs, ev)
	}
	return evs, sc.Err()
}

// ---- disk model

type c06Inode struct {
	id      int
	isDir   bool
	path    string // for directories
	writer  int    // op index that created/truncated it (-1: before the workload)
	len     int64
	durable int64 // bytes known durable (prefix)
	// an fsync of it failed: Linux reports the error once and marks the pages
	// clean, so a later successful fsync proves nothing about data written before
	poisoned bool
}

type c06DirOp struct {
	kind     string // create, rename, unlink
	name     string
	name2    string
	inode    int
	eventIdx int
}

type c06Dir struct {
	durable map[string]int // name -> inode id, as of the last fsync of the directory
	pending []c06DirOp
}

type c06Model struct {
	inodes  map[int]*c06Inode
	dirs    map[string]*c06Dir
	vol     map[string]int // volatile view: full path -> inode id
	fds     map[int]int    // fd -> inode id
	nextIno int
	curOp   int
	finalLen map[int]int64 // op -> declared payload length
	// complete versions a target name has ever pointed to (volatile view), by path
	versions map[string]map[int]bool
}

func newC06Model() *c06Model {
	return &c06Model{inodes: map[int]*c06Inode{}, dirs: map[string]*c06Dir{}, vol: map[string]int{}, fds: map[int]int{}, nextIno: 1, curOp: -1,
		finalLen: map[int]int64{}, versions: map[string]map[int]bool{}}
}

func (m *c06Model) dir(path string) *c06Dir {
	d := m.dirs[path]
	if d == nil {
		d = &c06Dir{durable: map[string]int{}}
		m.dirs[path] = d
	}
	return d
}

func (m *c06Model) newInode() *c06Inode {
	in := &c06Inode{id: m.nextIno, writer: m.curOp}
	m.nextIno++
	m.inodes[in.id] = in
	return in
}

func (m *c06Model) makeAllDurable() {
	for _, in := range m.inodes {
		in.durable = in.len
	}
	for p, d := range m.dirs {
		d.pending = nil
		d.durable = map[string]int{}
		for full, ino := range m.vol {
			if filepath.Dir(full) == p {
				d.durable[filepath.Base(full)] = ino
			}
		}
	}
}

func (m *c06Model) apply(ev *c06Event, root string) {
	inRoot := func(p string) bool { return strings.HasPrefix(p, root+"/") }
	switch ev.name {
	case "openat", "open", "creat":
		if !inRoot(ev.path) {
			return
		}
		if strings.Contains(ev.flags, "O_DIRECTORY") || m.isDirPath(ev.path) {
			in := m.newInode()
			in.isDir = true
			in.path = ev.path
			m.fds[ev.fd] = in.id
			return
		}
		creat := strings.Contains(ev.flags, "O_CREAT") || ev.name == "creat"
		ino, exists := m.vol[ev.path]
		if !exists {
			if !creat {
				// opening something we have not seen created (a directory opened without O_DIRECTORY)
				in := m.newInode()
				in.isDir = true
				in.path = ev.path
				m.fds[ev.fd] = in.id
				return
			}
			in := m.newInode()
			m.vol[ev.path] = in.id
			d := m.dir(filepath.Dir(ev.path))
			d.pending = append(d.pending, c06DirOp{kind: "create", name: filepath.Base(ev.path), inode: in.id, eventIdx: ev.idx})
			m.fds[ev.fd] = in.id
			return
		}
		in := m.inodes[ino]
		if strings.Contains(ev.flags, "O_TRUNC") && (strings.Contains(ev.flags, "O_WRONLY") || strings.Contains(ev.flags, "O_RDWR")) {
			// overwrite in place: the old content is gone as soon as the truncation persists
			in.len = 0
			in.durable = 0
			in.writer = m.curOp
		}
		m.fds[ev.fd] = ino
	case "write", "pwrite64":
		if ino, ok := m.fds[ev.fd]; ok {
			m.inodes[ino].len += ev.ret
		}
	case "ftruncate":
		if ino, ok := m.fds[ev.fd]; ok {
			m.inodes[ino].len = 0
			m.inodes[ino].durable = 0
		}
	case "fsync", "fdatasync":
		ino, ok := m.fds[ev.fd]
		if !ok {
			return
		}
		in := m.inodes[ino]
		if in.isDir {
			d := m.dir(in.path)
			for _, op := range d.pending {
				c06ApplyDirOp(d.durable, op)
			}
			d.pending = nil
		} else if !in.poisoned {
			in.durable = in.len
		}
	case "fsync-failed":
		if ino, ok := m.fds[ev.fd]; ok && !m.inodes[ino].isDir {
			m.inodes[ino].poisoned = true
		}
	case "sync", "syncfs":
		m.makeAllDurable()
	case "close":
		delete(m.fds, ev.fd)
	case "rename", "renameat", "renameat2":
		if !inRoot(ev.path) || !inRoot(ev.path2) {
			return
		}
		ino, ok := m.vol[ev.path]
		if !ok {
			return
		}
		delete(m.vol, ev.path)
		m.vol[ev.path2] = ino
		d := m.dir(filepath.Dir(ev.path2))
		d.pending = append(d.pending, c06DirOp{kind: "rename", name: filepath.Base(ev.path), name2: filepath.Base(ev.path2), inode: ino, eventIdx: ev.idx})
	case "link", "linkat":
		if !inRoot(ev.path) || !inRoot(ev.path2) {
			return
		}
		if ino, ok := m.vol[ev.path]; ok {
			m.vol[ev.path2] = ino
			d := m.dir(filepath.Dir(ev.path2))
			d.pending = append(d.pending, c06DirOp{kind: "create", name: filepath.Base(ev.path2), inode: ino, eventIdx: ev.idx})
		}
	case "unlink", "unlinkat":
		if !inRoot(ev.path) {
			return
		}
		if _, ok := m.vol[ev.path]; ok {
			delete(m.vol, ev.path)
			d := m.dir(filepath.Dir(ev.path))
			d.pending = append(d.pending, c06DirOp{kind: "unlink", name: filepath.Base(ev.path), eventIdx: ev.idx})
		}
	}
}

func (m *c06Model) isDirPath(p string) bool {
	_, ok := m.dirs[p]
	return ok
}

func c06ApplyDirOp(view map[string]int, op c06DirOp) {
	switch op.kind {
	case "create":
		view[op.name] = op.inode
	case "rename":
		delete(view, op.name)
		view[op.name2] = op.inode
	case "unlink":
		delete(view, op.name)
	}
}

type c06Target struct {
	key  string
	path string
}

type c06Verdict struct {
	class string
	msg   string
}

// judge evaluates one crash state: dirChoice[dir] = number of pending ops persisted, dataChoice[inode] = persisted length.
func (m *c06Model) judge(targets []c06Target, dirChoice map[string]int, dataChoice map[int]int64) (string, []c06Verdict) {
	var fp []string
	var out []c06Verdict
	for _, t := range targets {
		dpath := filepath.Dir(t.path)
		d := m.dirs[dpath]
		view := map[string]int{}
		durablePresent := false
		if d != nil {
			for k, v := range d.durable {
				view[k] = v
			}
			_, durablePresent = d.durable[filepath.Base(t.path)]
			n := dirChoice[dpath]
			for i := 0; i < n && i < len(d.pending); i++ {
				c06ApplyDirOp(view, d.pending[i])
			}
		}
		ino, present := view[filepath.Base(t.path)]
		if !present {
			fp = append(fp, t.key+":absent")
			if durablePresent {
				out = append(out, c06Verdict{"C06/target-vanished", fmt.Sprintf("%s existed durably before the crash and is gone afterwards (a temporary name stands in for it or it was removed first)", t.key)})
			}
			continue
		}
		in := m.inodes[ino]
		plen := in.durable
		if v, ok := dataChoice[ino]; ok {
			plen = v
		}
		want, known := m.finalLen[in.writer]
		if in.writer < 0 {
			want, known = in.len, true // written before the workload started, fully durable at start
		}
		if in.writer >= 1000 {
			// start-up of a restarted process: several checkpoints, each in its own
			// temporary file; a version is complete when everything that was ever
			// written to its file is there
			want, known = in.len, true
		}
		state := "complete"
		switch {
		case !known:
			state = "unknown-length"
		case plen != want:
			state = "partial"
		}
		fp = append(fp, fmt.Sprintf("%s:op%d:%s", t.key, in.writer, state))
		if state == "partial" {
			cls := "C06/truncated-content"
			if plen == 0 {
				cls = "C06/empty-file"
			}
			out = append(out, c06Verdict{cls, fmt.Sprintf("%s holds %d of the %d bytes of the version written by operation %d: neither the complete previous nor the complete new content", t.key, plen, want, in.writer)})
		}
	}
	return strings.Join(fp, " "), out
}

type c06Replay struct {
	Property string         `json:"property"`
	Engine   string         `json:"engine"`
	Seed     uint64         `json:"seed"`
	Trace    int            `json:"trace_index"`
	Inject   int            `json:"enospc_at_write,omitempty"`
	InjectFsync int         `json:"eio_at_fsync,omitempty"`
	UnsafeEnv   bool        `json:"snapd_unsafe_io_in_environment,omitempty"`
	InjectOpenat int        `json:"emfile_at_openat,omitempty"`
	Restart      bool       `json:"restart_with_existing_state_file,omitempty"`
	NOps     int            `json:"nops"`
	CrashAt  int            `json:"crash_after_event"`
	DirCh    map[string]int `json:"dir_ops_persisted"`
	DataCh   map[string]int64 `json:"data_bytes_persisted"`
	Class    string         `json:"class"`
	Message  string         `json:"message"`
	Events   []string       `json:"syscalls_of_the_operation"`
	Repo     string         `json:"repo"`
}

func c06BuildDriver(scratch string) string {
	ov := overlayFor("c06", scratch)
	bin := filepath.Join(scratch, "verifc06")
	before := repoFingerprint()
	cmd := exec.Command(goBin, "build", "-tags", "verif", "-overlay", ov, "-o", bin, "./cmd/verifc06")
	cmd.Dir = repo
	cmd.Env = goEnv()
	out, err := cmd.CombinedOutput()
	if err != nil {
		fmt.Fprintf(os.Stderr, "%s\n", out)
		die(2, "building the C06 workload driver failed: %v", err)
	}
	if repoFingerprint() != before {
		die(2, "the build touched the repository")
	}
	return bin
}

// c06Trace runs the workload under strace. inject > 0 makes the inject-th
// write system call of the process fail with ENOSPC (strace's syscall fault
// injection): a full disk in the middle of an operation.
// c06Fault is what goes wrong in one traced execution: the inject-th write of
// the main thread fails with ENOSPC, or its injectFsync-th fsync fails with
// EIO; unsafeEnv puts SNAPD_UNSAFE_IO=1 into the environment (it must be
// ignored by a binary that is not a test binary).
type c06Fault struct {
	write     int
	fsync     int
	openat    int // the openat-th openat of the main thread fails with EMFILE
	unsafeEnv bool
	restart   bool // the traced process is a restart: a previous process left its state file
}

func c06Trace(bin, scratch string, seed uint64, idx, nops int, inject int) ([]*c06Event, string) {
	return c06TraceFault(bin, scratch, seed, idx, nops, c06Fault{write: inject})
}

func c06TraceFault(bin, scratch string, seed uint64, idx, nops int, fault c06Fault) ([]*c06Event, string) {
	inject := fault.write
	root := filepath.Join(scratch, fmt.Sprintf("root%d", idx))
	os.RemoveAll(root)
	os.MkdirAll(root, 0755)
	if fault.restart {
		// the previous process (not traced)
		prev := exec.Command(bin, root, strconv.FormatUint(seed*1000+uint64(idx)+500, 10), "2")
		prev.Env = append(os.Environ(), "GOMAXPROCS=1", "SNAPD_DEBUG=0")
		if out, err := prev.CombinedOutput(); err != nil {
			fmt.Fprintf(os.Stderr, "%s\n", out)
			die(2, "the workload driver (previous process) failed: %v", err)
		}
	}
	tr := filepath.Join(scratch, fmt.Sprintf("trace%d.txt", idx))
	args := []string{"-f", "-y", "-s", "96", "-e", "signal=none",
		"-e", "trace=openat,open,creat,write,pwrite64,fsync,fdatasync,rename,renameat,renameat2,unlink,unlinkat,close,ftruncate,faccessat,faccessat2,access,link,linkat,sync,syncfs"}
	if inject > 0 {
		args = append(args, "-e", fmt.Sprintf("inject=write:error=ENOSPC:when=%d", inject))
	}
	if fault.fsync > 0 {
		args = append(args, "-e", fmt.Sprintf("inject=fsync:error=EIO:when=%d", fault.fsync))
	}
	if fault.openat > 0 {
		args = append(args, "-e", fmt.Sprintf("inject=openat:error=EMFILE:when=%d", fault.openat))
	}
	args = append(args, "-o", tr, bin, root, strconv.FormatUint(seed*1000+uint64(idx), 10), strconv.Itoa(nops))
	cmd := exec.Command("strace", args...)
	env := []string{}
	for _, kv := range os.Environ() {
		if strings.HasPrefix(kv, "SNAPD_") || strings.HasPrefix(kv, "GOMAXPROCS=") {
			continue
		}
		env = append(env, kv)
	}
	cmd.Env = append(env, "GOMAXPROCS=1", "SNAPD_DEBUG=0")
	if fault.unsafeEnv {
		cmd.Env = append(cmd.Env, "SNAPD_UNSAFE_IO=1")
	}
	if fault.restart {
		cmd.Env = append(cmd.Env, "VERIF_C06_RESTART=1")
	}
	out, err := cmd.CombinedOutput()
	if err != nil {
		fmt.Fprintf(os.Stderr, "%s\n", out)
		die(2, "the traced workload driver failed: %v", err)
	}
	evs, err := c06Parse(tr)
	if err != nil {
		die(2, "%v", err)
	}
	return evs, root
}

type c06Stats struct {
	crashStates, crashPoints, insideOp int64
	fps                                map[string]struct{}
	faults                             map[string]int64
	opKinds                            map[string]int64
	dirFsyncAfterRename                int64
	renames                            int64
	samples                            []interface{}
	traces                             int
	events                             int64
}

// c06Explore walks one trace; returns violations found (as replay records).
func c06Explore(evs []*c06Event, root string, seed uint64, traceIdx, nops int, st *c06Stats, only *c06Replay, exhaustiveLimit int) []*c06Replay {
	m := newC06Model()
	targets := []c06Target{
		{"state.json", filepath.Join(root, "var/lib/snapd/state.json")},
		{"a/f1", filepath.Join(root, "a/f1")}, {"a/f2", filepath.Join(root, "a/f2")},
		{"b/g1", filepath.Join(root, "b/g1")}, {"b/linked", filepath.Join(root, "b/linked")},
	}
	// pre-pass: declared payload lengths
	for _, ev := range evs {
		if ev.name == "marker" {
			p := strings.Split(ev.path, "/")
			if len(p) == 4 && p[0] == "op" && p[2] == "end" {
				i, _ := strconv.Atoi(p[1])
				n, _ := strconv.ParseInt(p[3], 10, 64)
				m.finalLen[i] = n
			}
			if len(p) >= 3 && p[0] == "op" && p[2] == "failed" {
				// the operation reported an error: what it wrote is a complete version
				// only if all of the intended content got there (an error after the
				// rename, e.g. from the directory fsync, leaves the new version in place)
				i, _ := strconv.Atoi(p[1])
				m.finalLen[i] = -1
				if len(p) == 4 {
					m.finalLen[i], _ = strconv.ParseInt(p[3], 10, 64)
				}
				st.faults["operation-reported-an-error"]++
			}
		}
	}
	started := false
	var found []*c06Replay
	seenClass := map[string]bool{}
	opStartEvent := 0
	rng := seed*7919 + uint64(traceIdx)
	next := func(n int) int {
		rng += 0x9e3779b97f4a7c15
		z := rng
		z = (z ^ (z >> 30)) * 0xbf58476d1ce4e5b9
		z = (z ^ (z >> 27)) * 0x94d049bb133111eb
		z ^= z >> 31
		return int(z % uint64(n))
	}
	lastRenameDir := ""
	for _, ev := range evs {
		if ev.name == "marker" {
			p := strings.Split(ev.path, "/")
			switch {
			case ev.path == "start":
				m.makeAllDurable()
				started = true
			case len(p) >= 4 && p[0] == "op" && p[2] == "begin":
				m.curOp, _ = strconv.Atoi(p[1])
				opStartEvent = ev.idx
				st.opKinds[p[3]]++
			case len(p) == 4 && p[0] == "op" && p[2] == "end", len(p) >= 3 && p[0] == "op" && p[2] == "failed":
				m.curOp = -2
			}
			continue
		}
		m.apply(ev, root)
		if ev.name == "rename" || ev.name == "renameat" || ev.name == "renameat2" {
			st.renames++
			lastRenameDir = filepath.Dir(ev.path2)
		}
		if (ev.name == "fsync" || ev.name == "fdatasync") && lastRenameDir != "" {
			if ino, ok := m.fds[ev.fd]; ok && m.inodes[ino].isDir && m.inodes[ino].path == lastRenameDir {
				st.dirFsyncAfterRename++
				lastRenameDir = ""
			}
		}
		if !started || ev.name == "close" {
			continue
		}
		if only != nil && ev.idx != only.CrashAt {
			continue
		}
		// ---- crash right after this system call
		st.crashPoints++
		inside := m.curOp >= 0
		// choice space
		var dirNames []string
		for p, d := range m.dirs {
			if len(d.pending) > 0 {
				dirNames = append(dirNames, p)
			}
		}
		sort.Strings(dirNames)
		var inoIDs []int
		for id, in := range m.inodes {
			if !in.isDir && in.len > in.durable {
				inoIDs = append(inoIDs, id)
			}
		}
		sort.Ints(inoIDs)
		dataOpts := map[int][]int64{}
		for _, id := range inoIDs {
			in := m.inodes[id]
			opts := []int64{in.durable, in.len}
			first := (in.durable/4096 + 1) * 4096
			if first < in.len {
				opts = append(opts, first)
			}
			mid := ((in.durable + in.len) / 2 / 4096) * 4096
			if mid > in.durable && mid < in.len && mid != first {
				opts = append(opts, mid)
			}
			last := ((in.len - 1) / 4096) * 4096
			if last > in.durable && last < in.len && last != first && last != mid {
				opts = append(opts, last)
			}
			dataOpts[id] = opts
		}
		total := 1
		for _, p := range dirNames {
			total *= len(m.dirs[p].pending) + 1
			if total > 1<<20 {
				break
			}
		}
		for _, id := range inoIDs {
			total *= len(dataOpts[id])
			if total > 1<<20 {
				break
			}
		}
		type combo struct {
			dir  map[string]int
			data map[int]int64
		}
		var combos []combo
		mk := func(pick func(n int) int) combo {
			c := combo{dir: map[string]int{}, data: map[int]int64{}}
			for _, p := range dirNames {
				c.dir[p] = pick(len(m.dirs[p].pending) + 1)
			}
			for _, id := range inoIDs {
				c.data[id] = dataOpts[id][pick(len(dataOpts[id]))]
			}
			return c
		}
		if only != nil {
			c := combo{dir: only.DirCh, data: map[int]int64{}}
			for k, v := range only.DataCh {
				id, _ := strconv.Atoi(k)
				c.data[id] = v
			}
			combos = []combo{c}
		} else if total <= exhaustiveLimit {
			idx := make([]int, len(dirNames)+len(inoIDs))
			for {
				k := 0
				combos = append(combos, mk(func(n int) int { v := idx[k]; k++; return v }))
				// increment mixed-radix counter
				j := 0
				for ; j < len(idx); j++ {
					var radix int
					if j < len(dirNames) {
						radix = len(m.dirs[dirNames[j]].pending) + 1
					} else {
						radix = len(dataOpts[inoIDs[j-len(dirNames)]])
					}
					idx[j]++
					if idx[j] < radix {
						break
					}
					idx[j] = 0
				}
				if j == len(idx) {
					break
				}
			}
		} else {
			combos = append(combos, mk(func(n int) int { return 0 }))     // nothing unsynced persisted
			combos = append(combos, mk(func(n int) int { return n - 1 })) // (dirs: everything; data: option list order: [durable, len, ...] so pick index 1)
			all := combo{dir: map[string]int{}, data: map[int]int64{}}
			for _, p := range dirNames {
				all.dir[p] = len(m.dirs[p].pending)
			}
			for _, id := range inoIDs {
				all.data[id] = m.inodes[id].len
			}
			combos = append(combos, all)
			// directory operations persisted, data not: the classic rename-before-data hazard
			hz := combo{dir: map[string]int{}, data: map[int]int64{}}
			for _, p := range dirNames {
				hz.dir[p] = len(m.dirs[p].pending)
			}
			for _, id := range inoIDs {
				hz.data[id] = m.inodes[id].durable
			}
			combos = append(combos, hz)
			for k := 0; k < exhaustiveLimit-4; k++ {
				combos = append(combos, mk(next))
			}
		}
		for _, cb := range combos {
			st.crashStates++
			if inside {
				st.insideOp++
			}
			for _, p := range dirNames {
				if cb.dir[p] > 0 && cb.dir[p] < len(m.dirs[p].pending) {
					st.faults["directory-journal-prefix-persisted"]++
				}
				if cb.dir[p] == 0 {
					st.faults["unsynced-directory-ops-lost"]++
				}
			}
			for _, id := range inoIDs {
				switch {
				case cb.data[id] == m.inodes[id].durable:
					st.faults["unsynced-data-lost"]++
				case cb.data[id] < m.inodes[id].len:
					st.faults["torn-write-at-4k"]++
				}
			}
			fp, vs := m.judge(targets, cb.dir, cb.data)
			if inside {
				st.fps[fmt.Sprintf("rel%d|%s", ev.idx-opStartEvent, fp)] = struct{}{}
			}
			if len(st.samples) < 3 && inside && (len(dirNames) > 0 || len(inoIDs) > 0) && st.crashStates%37 == 5 {
				st.samples = append(st.samples, map[string]interface{}{"trace": traceIdx, "crash_after": c06Short(ev.raw, root), "dir_ops_persisted": c06RelKeys(cb.dir, root), "recovered": fp})
			}
			for _, v := range vs {
				if seenClass[v.class] {
					continue
				}
				seenClass[v.class] = true
				rp := &c06Replay{Property: "C06", Engine: "c06", Seed: seed, Trace: traceIdx, NOps: nops, CrashAt: ev.idx, DirCh: cb.dir, DataCh: map[string]int64{}, Class: v.class,
					Message: fmt.Sprintf("crash right after `%s` (operation %d): %s", c06Short(ev.raw, root), m.curOp, v.msg)}
				for id, n := range cb.data {
					rp.DataCh[strconv.Itoa(id)] = n
				}
				for _, e := range evs {
					if e.idx >= opStartEvent && e.idx <= ev.idx {
						rp.Events = append(rp.Events, c06Short(e.raw, root))
					}
				}
				found = append(found, rp)
			}
		}
	}
	st.events += int64(len(evs))
	return found
}

func c06RelKeys(m map[string]int, root string) map[string]int {
	out := map[string]int{}
	for k, v := range m {
		out[strings.TrimPrefix(k, root)] = v
	}
	return out
}

var c06TmpRe = regexp.MustCompile(`\.[A-Za-z0-9]{12}~`)

func c06Short(raw, root string) string {
	s := strings.ReplaceAll(raw, root, "")
	s = c06TmpRe.ReplaceAllString(s, ".TMP~")
	if i := strings.Index(s, " "); i > 0 {
		s = s[i+1:]
	}
	if len(s) > 160 {
		s = s[:160] + "..."
	}
	return s
}

func runC06(s *spec, tier string, seed uint64, scratch string) int {
	t0 := time.Now()
	bin := c06BuildDriver(scratch)
	buildS := time.Since(t0).Seconds()
	desc, _ := exec.Command("git", "-C", repo, "describe", "--always", "--dirty").Output()
	if tier == "replay" {
		b, err := os.ReadFile(os.Getenv("VERIF_REPLAY"))
		if err != nil {
			die(2, "%v", err)
		}
		var rp c06Replay
		if err := json.Unmarshal(b, &rp); err != nil {
			die(2, "%v", err)
		}
		evs, root := c06TraceFault(bin, scratch, rp.Seed, rp.Trace, rp.NOps, c06Fault{write: rp.Inject, fsync: rp.InjectFsync, unsafeEnv: rp.UnsafeEnv, openat: rp.InjectOpenat, restart: rp.Restart})
		st := &c06Stats{fps: map[string]struct{}{}, faults: map[string]int64{}, opKinds: map[string]int64{}}
		found := c06Explore(evs, root, rp.Seed, rp.Trace, rp.NOps, st, &rp, 1)
		for _, f := range found {
			if f.Class == rp.Class {
				fmt.Printf("REPLAY reproduced class=%s: %s\n", f.Class, f.Message)
				fmt.Printf("VIOLATION property=C06 replay=%s\n", os.Getenv("VERIF_REPLAY"))
				return 1
			}
		}
		fmt.Printf("REPLAY class=%s not reproduced on this tree\n", rp.Class)
		return 0
	}
	ntraces, nops, limit := 8, 8, 48
	if tier == "thorough" {
		ntraces, nops, limit = 40, 12, 4096
	}
	if v := os.Getenv("VERIF_C06_TRACES"); v != "" {
		ntraces, _ = strconv.Atoi(v)
	}
	st := &c06Stats{fps: map[string]struct{}{}, faults: map[string]int64{}, opKinds: map[string]int64{}}
	var all []*c06Replay
	for i := 0; i < ntraces; i++ {
		evs, root := c06Trace(bin, scratch, seed, i, nops, 0)
		found := c06Explore(evs, root, seed, i, nops, st, nil, limit)
		all = append(all, found...)
		st.traces++
		os.RemoveAll(root)
		// every third workload is run again with the disk filling up at a seeded write
		if i%3 == 0 {
			var after, stateWrites []int // ordinals of the writes after the start marker / of those saving the state file
			started := false
			mainThread := ""
			for _, ev := range evs {
				if ev.name == "marker" && ev.path == "start" {
					started = true
					mainThread = ev.pid
				}
				if ev.name == "write" && started && ev.pid == mainThread {
					after = append(after, ev.ord)
					if strings.Contains(ev.raw, "state.json") {
						stateWrites = append(stateWrites, ev.ord)
					}
				}
			}
			writesAfter := len(after)
			if writesAfter > 0 {
				k := after[int((seed*31+uint64(i)*17)%uint64(writesAfter))]
				if len(stateWrites) > 0 && st.faults["enospc-during-state-checkpoint"]*2 <= st.faults["enospc-injected-traces"] {
					// every other time the disk fills up while the state file is being saved
					k = stateWrites[int((seed*13+uint64(i))%uint64(len(stateWrites)))]
					st.faults["enospc-during-state-checkpoint"]++
				}
				evs2, root2 := c06Trace(bin, scratch, seed, i, nops, k)
				found2 := c06Explore(evs2, root2, seed, i, nops, st, nil, limit)
				for _, f := range found2 {
					f.Inject = k
				}
				all = append(all, found2...)
				st.traces++
				st.faults["enospc-injected-traces"]++
				os.RemoveAll(root2)
			}
		}
		// another third is run again with an fsync of the operation failing (EIO)
		if i%3 == 1 {
			var fs []int
			started := false
			mainThread := ""
			for _, ev := range evs {
				if ev.name == "marker" && ev.path == "start" {
					started = true
					mainThread = ev.pid
				}
				if ev.name == "fsync" && started && ev.pid == mainThread {
					fs = append(fs, ev.ord)
				}
			}
			if len(fs) > 0 {
				k := fs[int((seed*37+uint64(i)*11)%uint64(len(fs)))]
				evs2, root2 := c06TraceFault(bin, scratch, seed, i, nops, c06Fault{fsync: k})
				found2 := c06Explore(evs2, root2, seed, i, nops, st, nil, limit)
				for _, f := range found2 {
					f.InjectFsync = k
				}
				all = append(all, found2...)
				st.traces++
				st.faults["fsync-eio-injected-traces"]++
				for _, ev := range evs2 {
					if ev.name == "fsync-failed" {
						st.faults["fsync-eio-seen-by-the-workload"]++
					}
				}
				os.RemoveAll(root2)
			}
		}
		// and the last third with SNAPD_UNSAFE_IO=1 in the environment, which only
		// test binaries may honour
		if i%3 == 2 {
			evs2, root2 := c06TraceFault(bin, scratch, seed, i, nops, c06Fault{unsafeEnv: true})
			found2 := c06Explore(evs2, root2, seed, i, nops, st, nil, limit)
			for _, f := range found2 {
				f.UnsafeEnv = true
			}
			all = append(all, found2...)
			st.traces++
			st.faults["unsafe-io-variable-in-environment-traces"]++
			os.RemoveAll(root2)
		}
		// every workload is also run as a restart: the state file of a previous
		// process exists when this one starts
		{
			evs2, root2 := c06TraceFault(bin, scratch, seed, i, nops, c06Fault{restart: true})
			found2 := c06Explore(evs2, root2, seed, i, nops, st, nil, limit)
			for _, f := range found2 {
				f.Restart = true
			}
			all = append(all, found2...)
			st.traces++
			st.faults["restart-with-existing-state-file-traces"]++
			os.RemoveAll(root2)
		}
		// and with one open of an existing file or directory failing (EMFILE)
		{
			var opens []int
			started := false
			mainThread := ""
			for _, ev := range evs {
				if ev.name == "marker" && ev.path == "start" {
					started = true
					mainThread = ev.pid
				}
				if ev.name == "openat" && started && ev.pid == mainThread && !strings.Contains(ev.flags, "O_CREAT") {
					opens = append(opens, ev.ord)
				}
			}
			if len(opens) > 0 {
				k := opens[int((seed*41+uint64(i)*7)%uint64(len(opens)))]
				evs2, root2 := c06TraceFault(bin, scratch, seed, i, nops, c06Fault{openat: k})
				found2 := c06Explore(evs2, root2, seed, i, nops, st, nil, limit)
				for _, f := range found2 {
					f.InjectOpenat = k
				}
				all = append(all, found2...)
				st.traces++
				st.faults["open-emfile-injected-traces"]++
				os.RemoveAll(root2)
			}
		}
		if len(all) > 0 && i >= 1 {
			break
		}
	}
	os.MkdirAll(filepath.Join(outDir, "replays"), 0755)
	if old, _ := filepath.Glob(filepath.Join(outDir, "replays", "C06-*.json")); len(old) > 0 {
		for _, f := range old {
			os.Remove(f)
		}
	}
	known := map[string]string{}
	for _, k := range loadKnown() {
		if k.Status == "known" {
			known[k.Class] = k.What
		}
	}
	var vlines []string
	seen := map[string]bool{}
	for _, rp := range all {
		if seen[rp.Class] {
			continue
		}
		seen[rp.Class] = true
		rp.Repo = strings.TrimSpace(string(desc))
		p := filepath.Join(outDir, "replays", fmt.Sprintf("C06-%s-%d-%d.json", strings.ReplaceAll(strings.TrimPrefix(rp.Class, "C06/"), "/", "_"), rp.Seed, rp.Trace))
		b, _ := json.MarshalIndent(rp, "", " ")
		os.WriteFile(p, b, 0644)
		if what, ok := known[rp.Class]; ok {
			fmt.Printf("KNOWN-FINDING: property=C06 class=%s replay=%s %s\n", rp.Class, p, what)
			continue
		}
		fmt.Printf("violation class=%s: %s\n", rp.Class, rp.Message)
		vlines = append(vlines, fmt.Sprintf("VIOLATION property=C06 replay=%s", p))
	}
	wall := time.Since(t0).Seconds()
	if len(st.samples) == 0 {
		st.samples = []interface{}{"no crash state inside an operation sampled"}
	}
	ev := map[string]interface{}{
		"property_id": "C06", "tier": tier, "seed": seed, "level": s.Level, "wall_s": round2(wall), "violations": len(vlines),
		"coverage": map[string]interface{}{
			"evaluations":         st.crashStates,
			"distinct_nontrivial": len(st.fps),
			"rule":                s.RuleText,
			"samples":             st.samples,
			"exhaustive":          false,
			"traces":              st.traces,
			"traced_syscalls":     st.events,
			"crash_points":        st.crashPoints,
			"crash_states_inside_an_operation": st.insideOp,
			"operations_by_kind":  st.opKinds,
			"faults_fired":        st.faults,
			"renames_seen":        st.renames,
			"renames_followed_by_directory_fsync": st.dirFsyncAfterRename,
			"runs_per_hour":       int64(float64(st.crashStates) / (wall - buildS + 0.001) * 3600),
			"build_s":             round2(buildS),
			"real_components":     []string{"osutil.AtomicFile/AtomicWrite/AtomicWriteFile (commit: fsync, close, rename, directory fsync) in a NON-test binary (fsync bypass off as in the shipped daemon)", "overlord.New + State.Unlock -> overlordStateBackend.Checkpoint writing var/lib/snapd/state.json", "the kernel's system call interface (traced with strace -f -y)"},
			"stubbed_components":  []string{"the disk: a model with volatile/durable views fed by the traced system calls (file data durable at fsync(fd); directory operations durable at fsync(dir), otherwise any journal-ordered prefix; unsynced data persists wholly, not at all, or torn at 4 KiB)"},
			"seeds":               fmt.Sprintf("workload seeds %d*1000+i for traces i=0..%d", seed, st.traces-1),
		},
		"assumptions": []string{
			"the disk model is an ordered-journal file system: directory operations of one directory persist as a prefix of their order, file data only as far as fsync said, unsynced data possibly torn at 4 KiB; real devices that reorder more than that are outside the model",
			"writes to the temporary file are sequential appends of the payload (checked: no seeks are traced)",
			"durability after return is not demanded (the statement is about atomicity); whether the directory is synced after the rename is reported only",
		},
	}
	os.MkdirAll(filepath.Join(outDir, "evidence"), 0755)
	eb, _ := json.MarshalIndent(ev, "", " ")
	if err := os.WriteFile(filepath.Join(outDir, "evidence", "C06.json"), eb, 0644); err != nil {
		die(2, "%v", err)
	}
	fmt.Printf("C06 %s: traces=%d syscalls=%d crash_points=%d crash_states=%d distinct_nontrivial=%d faults=%v dir-fsync-after-rename=%d/%d wall=%.1fs (build %.1fs)\n",
		tier, st.traces, st.events, st.crashPoints, st.crashStates, len(st.fps), st.faults, st.dirFsyncAfterRename, st.renames, wall, buildS)
	for _, l := range vlines {
		fmt.Println(l)
	}
	if len(vlines) > 0 {
		return 1
	}
	return 0
}
