package main

import (
	"encoding/json"
	"fmt"
	"os"
	"path/filepath"
)

var naReasons = map[string]string{
	"C21": "policy evaluation is a pure function of (declarations, plug, slot, model/store context): no schedule, clock, I/O or fault for a simulator to control; input generation alone would be another technique under a simulator's name",
	"C24": "name/tag validators are pure string predicates compared across a Go and a C implementation: nothing to schedule or fail, and the C side is outside any Go simulator",
	"C25": "the snapctl permission gate is a pure function of (uid, argument vector): no concurrency, time or I/O in the statement",
	"C26": "REST access levels are a decision table over (endpoint, method, socket, uid, auth, polkit answer, connections) plus a string codec; the only fault-like input (unparsable peer credentials) is a value of that table, not a schedule or fault sequence",
	"C27": "the desktop file sanitizer is a pure text-to-text function",
	"C28": "mount namespace change planning and the mount-entry codec are pure functions of their inputs; in addition cmd/snap-update-ns does not build in this sandbox (sys/capability.h missing)",
	"C33": "version comparison is a pure ordering function",
	"C34": "channel normalisation consists of pure string functions",
	"C35": "revision/epoch codecs and CanRead are pure functions",
	"C36": "quota group fitting is a sequential in-memory data structure with no clock, I/O, concurrency or fault; model-based input generation would decide it, which is not this technique family",
	"C37": "path pattern expansion/matching/precedence are pure functions",
	"C38": "gadget volume layout is a pure function of a validated volume description",
}

var allProps = []string{"C01", "C02", "C03", "C04", "C05", "C06", "C07", "C08", "C09", "C10", "C11", "C12", "C13", "C14", "C15", "C16", "C17", "C18", "C19", "C20",
	"C21", "C22", "C23", "C24", "C25", "C26", "C27", "C28", "C29", "C30", "C31", "C32", "C33", "C34", "C35", "C36", "C37", "C38"}

func writeManifest() {
	checks := []map[string]interface{}{}
	engines := map[string]map[string]interface{}{}
	claimed := map[string]bool{}
	for _, s := range enabledSpecs() {
		if s.Secondary {
			e := engines[s.Engine]
			if e == nil {
				e = map[string]interface{}{"name": s.Engine, "path": "/verif/sim/" + s.Engine, "serves_properties": []string{}, "kind_free_text": s.EngineText + " (additional engine, run by the same check command)"}
				engines[s.Engine] = e
			}
			e["serves_properties"] = append(e["serves_properties"].([]string), s.Prop)
			continue
		}
		claimed[s.Prop] = true
		checks = append(checks, map[string]interface{}{
			"property_id":         s.Prop,
			"quick_cmd":           "./bin/check " + s.Prop + " quick",
			"thorough_cmd":        "./bin/check " + s.Prop + " thorough",
			"evidence_file":       "/verif/evidence/" + s.Prop + ".json",
			"replay_cmd_template": "./bin/check " + s.Prop + " --replay {path}",
			"engine":              s.Engine,
			"technique":           s.Technique,
			"level_claimed": map[string]interface{}{
				"category":   s.Level,
				"text":       s.LevelText,
				"design_ref": s.DesignRef,
			},
			"level_note": s.LevelNote,
		})
		e := engines[s.Engine]
		if e == nil {
			e = map[string]interface{}{"name": s.Engine, "path": "/verif/sim/" + s.Engine, "serves_properties": []string{}, "kind_free_text": s.EngineText}
			engines[s.Engine] = e
		}
		e["serves_properties"] = append(e["serves_properties"].([]string), s.Prop)
	}
	na := []map[string]string{}
	for _, p := range allProps {
		if claimed[p] {
			continue
		}
		r := naReasons[p]
		if r == "" {
			r = "deterministic simulation applies (see DESIGN.md section 3) but the check for this property is not built yet; not claimed"
		}
		na = append(na, map[string]string{"property_id": p, "reason": r})
	}
	engList := []map[string]interface{}{}
	seen := map[string]bool{}
	for _, s := range enabledSpecs() {
		if !seen[s.Engine] && engines[s.Engine] != nil {
			seen[s.Engine] = true
			engList = append(engList, engines[s.Engine])
		}
	}
	hookCommits := []string{}
	if out, err := runOut("git", "-C", repo, "log", "--format=%H", "--grep", "^verif hook:"); err == nil {
		for _, l := range splitLines(out) {
			hookCommits = append(hookCommits, l)
		}
	}
	m := map[string]interface{}{
		"version":   1,
		"setup_cmd": "./setup.sh",
		"hooks": map[string]interface{}{
			"guard":            "verif (Go build tag)",
			"enable":           "go1.26.8 test -c -tags verif -overlay <generated json> ... (the driver /verif/bin/check does this from /repo's working tree; harness files are added through the overlay, nothing in /repo is rewritten)",
			"baseline_off_cmd": "/verif/baseline_off.sh",
			"source_commits":   hookCommits,
			"add_only":         true,
		},
		"engines":        engList,
		"checks":         checks,
		"not_applicable": na,
		"notes":          "Technique: deterministic simulation with seeded fault injection (DESIGN.md). Exit 2 from a check means build/watchdog/nondeterminism trouble, never a verdict. Known findings: /verif/known_findings.json. Replay files: /verif/replays/.",
	}
	b, _ := json.MarshalIndent(m, "", " ")
	if err := os.WriteFile(filepath.Join(verif, "MANIFEST.json"), append(b, '\n'), 0644); err != nil {
		die(2, "%v", err)
	}
	fmt.Printf("MANIFEST.json: %d checks, %d not applicable/not claimed\n", len(checks), len(na))
}
