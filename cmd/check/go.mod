module verifcheck

go 1.22
