#!/bin/bash
# usage: run_all_thorough.sh <seed> [budget_s] [props...]
# runs every claimed thorough check with the given seed against /repo; results go to
# /var/tmp/thor-<seed>/<prop> (NOT to /verif/evidence); prints one summary line per property
cd /verif
seed=$1; shift
budget=${1:-300}; shift
props="$@"
[ -z "$props" ] && props=$(./bin/check --list | awk '{print $1}' | sort -u)
for p in $props; do
  grep -q "\"property_id\": \"$p\"" MANIFEST.json || continue
  t0=$(date +%s)
  out=$(VERIF_SEED=$seed VERIF_BUDGET_S=$budget VERIF_OUTDIR=/var/tmp/thor-$seed/$p ./bin/check $p thorough 2>&1); rc=$?
  echo "$p seed=$seed exit=$rc $(( $(date +%s)-t0 ))s $(echo "$out" | grep -E "^(VIOLATION|check:)" | sed 's/-[0-9]*-[0-9]*.json//' | sort | uniq -c | cut -c1-200 | tr '\n' ' ')"
done
