#!/bin/bash
# runs every claimed quick check once against /repo, writing /verif/evidence; prints a summary
cd /verif
for p in $(./bin/check --list | awk '{print $1}'); do
  grep -q "\"property_id\": \"$p\"" MANIFEST.json || continue
  t0=$(date +%s)
  out=$(./bin/check $p quick 2>&1); rc=$?
  echo "$p exit=$rc $(( $(date +%s)-t0 ))s $(echo "$out" | grep -E "^(VIOLATION|KNOWN-FINDING)" | cut -c1-120 | tr '\n' ' ')"
done
