package state_test

// Engine A: the real overlord/state State + TaskRunner driven by simulated
// handlers, backend, overlord loop and clock. Decides C01, C02, C03, C04.

import (
	"bytes"
	"encoding/json"
	"errors"
	"fmt"
	"runtime"
	"sort"
	"strconv"
	"strings"
	"sync"
	"testing/synctest"
	"time"

	"gopkg.in/tomb.v2"

	"github.com/snapcore/snapd/internal/verifsim"
	"github.com/snapcore/snapd/overlord/state"
)

const (
	verifScriptOK = iota
	verifScriptFail
	verifScriptRetry
	verifScriptWait
)

type verifTask struct {
	label      string
	id         string
	chg        int
	undoable   bool
	script     int
	retries    int
	retryAfter time.Duration
	failUndo   bool
	sameErr    bool // fails with a message other tasks fail with too
	ignoreKill bool
	waitBySet  bool // enter Wait through Task.SetToWait + nil (as restart.FinishTaskWithRestart) instead of returning *state.Wait
	undoWait   bool // the undo also waits for a reboot (waited status Undone)
	undoWaited bool
	inWait     bool // its handler asked to wait for a reboot and the simulator has not resolved that yet
	lanes      []int
	waits      []string
	halts      []string
	undoRetries    int // its undo handler asks to be retried this many times first
	undoRetryAfter time.Duration
	undoNotBefore  time.Time // earliest legal restart of the undo after a delayed retry
	returnedErrs   []string  // plain errors its handlers returned in the running process
	spawn      int  // tasks its do handler adds to the change when it succeeds (as snapstate.InjectTasks)
	dynamic    bool // was added by a handler at run time
	careless   bool // adds its tasks even when an abort has overtaken it (as snapstate's link-snap does with auto-connect)

	notBefore   time.Time // earliest legal start (scheduled tasks)
	doApplied   int
	undoApplied int
	lastOp      string
	doStarts    int
	undoStarts  int
	// C04: statuses seen in the payload a restart resumed from
	noRedo   bool
	noReundo bool
	mustRun  bool
}

type verifParked struct {
	t    *verifTask
	undo bool
	ch   chan error
	tb   *tomb.Tomb
	gen  int
	seen bool
}

type verifBackendA struct {
	mu       sync.Mutex
	w        *verifWorldA
	st       *state.State
	gen      int
	dead     bool
	failNext int
	failed   int
}

// verifParkedWrite is a checkpoint write issued WITHOUT the state lock held
// (never the case on the unchanged tree): such a write can be slow, so the
// simulator parks it and decides when it lands.
type verifParkedWrite struct {
	data []byte
	ch   chan struct{}
	seq  int
}

func (b *verifBackendA) Checkpoint(data []byte) error {
	b.mu.Lock()
	defer b.mu.Unlock()
	if b.dead {
		return nil
	}
	if b.failNext > 0 {
		b.failNext--
		b.failed++
		return errors.New("verif: injected checkpoint failure")
	}
	if b.st != nil && !b.st.VerifLockHeld() && b.w.isClient(verifGoID()) {
		pw := &verifParkedWrite{data: append([]byte(nil), data...), ch: make(chan struct{}), seq: b.w.writeSeq}
		b.w.writeSeq++
		b.w.parkedWrites = append(b.w.parkedWrites, pw)
		b.mu.Unlock()
		<-pw.ch
		b.mu.Lock()
		if b.dead {
			return nil
		}
		b.w.payloads = append(b.w.payloads, pw.data)
		return nil
	}
	b.w.payloads = append(b.w.payloads, append([]byte(nil), data...))
	return nil
}

// verifGoID returns the current goroutine's id (only used to tell the
// simulator's own goroutine, which must never park, from the others).
func verifGoID() int64 {
	var buf [64]byte
	n := runtime.Stack(buf[:], false)
	f := strings.Fields(string(buf[:n]))
	if len(f) < 2 {
		return -1
	}
	id, _ := strconv.ParseInt(f[1], 10, 64)
	return id
}

func (b *verifBackendA) EnsureBefore(d time.Duration) {
	b.mu.Lock()
	defer b.mu.Unlock()
	if b.dead {
		return
	}
	at := time.Now().Add(d)
	if b.w.nextEnsure.IsZero() || at.Before(b.w.nextEnsure) {
		b.w.nextEnsure = at
	}
}

type verifChange struct {
	idx         int
	id          string
	tasks       []*verifTask
	userAborted bool
	everReady   bool
	readyTime   time.Time
	notifiedRdy bool
	failedSeen  bool // some task failed (C01 e)
}

type verifWorldA struct {
	c   *verifsim.Ctx
	mu  sync.Mutex
	gen int

	parked       []*verifParked
	parkedWrites []*verifParkedWrite
	writeSeq     int
	ackDone      map[string]bool // finished tasks seen at a quiescent point with no write in flight
	payloads     [][]byte
	nextEnsure time.Time

	st  *state.State
	r   *state.TaskRunner
	be  *verifBackendA
	cfg *verifCfgA

	tasks   map[string]*verifTask // by id
	changes []*verifChange
	permute bool

	mainGoID  int64
	clientIDs map[int64]bool // goroutines of simulated API clients (the only ones that may park inside a checkpoint write)
	nclient   int
	crashes   int
	abandoned bool
	// checkpoints below floor were durable when the instance started;
	// actionStart is the number of checkpoints when the last action began
	floor       int
	actionStart int
	durableChecked int
	touch          int
}

func (w *verifWorldA) handler(undo bool, gen int) state.HandlerFunc {
	return func(t *state.Task, tb *tomb.Tomb) error {
		p := &verifParked{t: w.tasks[t.ID()], undo: undo, ch: make(chan error), tb: tb, gen: gen}
		w.mu.Lock()
		w.parked = append(w.parked, p)
		w.mu.Unlock()
		return <-p.ch
	}
}

func verifNumLess(a, b string) bool {
	x, _ := strconv.Atoi(a)
	y, _ := strconv.Atoi(b)
	return x < y
}

func (w *verifWorldA) installOrderHooks() {
	state.VerifOrderTasks = func(ts []*state.Task) {
		sort.Slice(ts, func(i, j int) bool { return verifNumLess(ts[i].ID(), ts[j].ID()) })
		if w.permute && len(ts) > 1 {
			switch w.c.Draw("tasks-order", 4) {
			case 1:
				for i, j := 0, len(ts)-1; i < j; i, j = i+1, j-1 {
					ts[i], ts[j] = ts[j], ts[i]
				}
			case 2:
				k := w.c.Draw("tasks-rot", len(ts))
				rot := append(append([]*state.Task{}, ts[k:]...), ts[:k]...)
				copy(ts, rot)
			case 3:
				p := w.c.Perm("tasks-perm", len(ts))
				cp := append([]*state.Task{}, ts...)
				for i, j := range p {
					ts[i] = cp[j]
				}
			}
		}
	}
	state.VerifOrderChanges = func(cs []*state.Change) {
		sort.Slice(cs, func(i, j int) bool { return verifNumLess(cs[i].ID(), cs[j].ID()) })
	}
}

func (w *verifWorldA) newInstance(st *state.State) {
	w.st = st
	w.be.st = st
	w.r = state.NewTaskRunner(st)
	w.r.AddHandler("u", w.handler(false, w.gen), w.handler(true, w.gen))
	w.r.AddHandler("n", w.handler(false, w.gen), nil)
}

type verifCfgA struct {
	faults      bool
	pFail       int // out of 20
	retry, wait bool
	at          bool
	aborts      bool
	crash       bool
	ckptFail    bool
	spontaneous bool
	clients     bool
	spawn       bool
}

func verifRunA(c *verifsim.Ctx) {
	w := &verifWorldA{c: c, tasks: map[string]*verifTask{}, ackDone: map[string]bool{}, mainGoID: verifGoID()}
	w.installOrderHooks()
	defer func() { state.VerifOrderTasks = nil; state.VerifOrderChanges = nil }()
	t0 := time.Now()

	// ---- swarm configuration
	cfg := verifCfgA{}
	cfg.faults = c.Draw("cfg.faults", 4) != 1 // 1 in 4 fault-free; tape 0 => faults on but all rates may be 0
	if cfg.faults {
		cfg.pFail = []int{0, 2, 5}[c.Draw("cfg.pfail", 3)]
		cfg.ckptFail = c.Chance("cfg.ckptfail", 1, 6)
	}
	cfg.retry = c.Chance("cfg.retry", 1, 3)
	cfg.wait = c.Chance("cfg.wait", 1, 3)
	cfg.at = c.Chance("cfg.at", 1, 4)
	cfg.spontaneous = c.Chance("cfg.spont", 1, 2)
	cfg.clients = c.Prop == "C04" && c.Chance("cfg.clients", 1, 2)
	cfg.spawn = c.Chance("cfg.spawn", 1, 3)
	w.cfg = &cfg
	switch c.Prop {
	case "C02":
		// restarts: pending delayed retries and schedules survive them
		cfg.crash = c.Chance("cfg.restarts", 1, 3)
	case "C03":
		cfg.aborts = cfg.faults && c.Chance("cfg.aborts", 2, 3)
	case "C04":
		cfg.crash = true
		cfg.aborts = cfg.faults && c.Chance("cfg.aborts", 1, 4)
	case "C01":
		cfg.aborts = cfg.faults && c.Chance("cfg.aborts", 1, 6)
	}

	// ---- build the scenario
	w.be = &verifBackendA{w: w}
	st := state.New(w.be)
	w.newInstance(st)

	st.Lock()
	st.AddChangeStatusChangedHandler(w.changeStatusChanged)
	maxChg, maxTasks := 3, 9
	if c.Tier == "thorough" {
		maxChg, maxTasks = 4, 14
	}
	nchg := 1 + c.Draw("nchanges", maxChg)
	for ci := 0; ci < nchg; ci++ {
		chg := st.NewChange("kind"+strconv.Itoa(ci), "change "+strconv.Itoa(ci))
		vc := &verifChange{idx: ci, id: chg.ID()}
		w.changes = append(w.changes, vc)
		n := 2 + c.Draw("ntasks", maxTasks)
		nl := c.Draw("nlanes", 5)
		lanes := []int{}
		for i := 0; i < nl; i++ {
			lanes = append(lanes, st.NewLane())
		}
		dens := []int{3, 6, 12}[c.Draw("density", 3)] // out of 20
		var sts []*state.Task
		for i := 0; i < n; i++ {
			kind := "u"
			if c.Chance("noundo", 1, 5) {
				kind = "n"
			}
			tk := st.NewTask(kind, fmt.Sprintf("c%d.t%d", ci, i))
			vt := &verifTask{label: fmt.Sprintf("c%d.t%d", ci, i), id: tk.ID(), chg: ci, undoable: kind == "u"}
			if cfg.pFail > 0 && c.Chance("faildo", cfg.pFail, 20) {
				vt.script = verifScriptFail
			} else if cfg.retry && c.Chance("retry", 1, 5) {
				vt.script = verifScriptRetry
				vt.retries = 1 + c.Draw("nretry", 2)
				vt.retryAfter = []time.Duration{0, time.Second, 3 * time.Minute, 2 * time.Hour}[c.Draw("retryafter", 4)]
			} else if cfg.wait && c.Chance("wait", 1, 6) {
				vt.script = verifScriptWait
			}
			if cfg.retry && kind == "u" && c.Chance("undo-retry", 1, 6) {
				vt.undoRetries = 1 + c.Draw("n-undo-retry", 2)
				vt.undoRetryAfter = []time.Duration{0, time.Second, 3 * time.Minute, 2 * time.Hour}[c.Draw("undo-retryafter", 4)]
			}
			if cfg.spawn && (vt.script == verifScriptOK || vt.script == verifScriptWait) && c.Chance("spawns", 1, 5) {
				vt.spawn = 1 + c.Draw("nspawn", 2)
				vt.careless = c.Chance("spawns-even-when-aborted", 1, 2)
			}
			if cfg.wait {
				vt.waitBySet = c.Chance("wait-by-set", 1, 2)
				vt.undoWait = kind == "u" && c.Chance("undo-wait", 1, 6)
			}
			if cfg.pFail > 0 && c.Chance("failundo", cfg.pFail, 40) {
				vt.failUndo = true
			}
			vt.ignoreKill = c.Chance("ignorekill", 1, 2)
			vt.sameErr = c.Chance("same-error-text", 1, 3)
			if nl > 0 {
				k := c.Draw("nlanes-of-task", 4)
				for j := 0; j < k; j++ {
					l := lanes[c.Draw("lane", nl)]
					dup := false
					for _, x := range vt.lanes {
						if x == l {
							dup = true
						}
					}
					if !dup {
						tk.JoinLane(l)
						vt.lanes = append(vt.lanes, l)
					}
				}
			}
			if len(vt.lanes) == 0 {
				vt.lanes = []int{0}
			}
			for j := 0; j < i; j++ {
				if c.Chance("edge", dens, 20) {
					tk.WaitFor(sts[j])
					vt.waits = append(vt.waits, sts[j].ID())
					vc.tasks[j].halts = append(vc.tasks[j].halts, tk.ID())
				}
			}
			if cfg.at && c.Chance("at", 1, 6) {
				d := []time.Duration{time.Minute, 20 * time.Minute, 26 * time.Hour}[c.Draw("atdelay", 3)]
				vt.notBefore = time.Now().Add(d)
				tk.At(vt.notBefore)
			}
			chg.AddTask(tk)
			sts = append(sts, tk)
			vc.tasks = append(vc.tasks, vt)
			w.tasks[vt.id] = vt
			c.Logf("task %s id=%s undoable=%v script=%d failUndo=%v ignoreKill=%v lanes=%v waits=%v at=%v", vt.label, vt.id, vt.undoable, vt.script, vt.failUndo, vt.ignoreKill, vt.lanes, vt.waits, !vt.notBefore.IsZero())
		}
	}
	st.Unlock()
	w.nextEnsure = time.Now()

	defer w.teardown()

	// ---- event loop
	stallTicks := 0
	var lastSnap string
	aborts := 0
	maxSteps := 4000
	for step := 0; ; step++ {
		if step > maxSteps {
			if c.Active("C03") {
				c.Violate("C03/livelock", "changes did not settle within %d simulator events although every handler returns when released", maxSteps)
			} else {
				c.Fatalf("engine A: step bound exceeded")
			}
			return
		}
		if w.abandoned {
			c.Count("runs-abandoned")
			return
		}
		w.observe()
		if len(c.Violations) > 0 {
			break
		}
		allReady := true
		for _, vc := range w.changes {
			if !vc.everReady {
				allReady = false
			}
		}
		w.mu.Lock()
		sort.Slice(w.parked, func(i, j int) bool {
			a, b := w.parked[i], w.parked[j]
			if a.t.label != b.t.label {
				return a.t.label < b.t.label
			}
			return !a.undo && b.undo
		})
		np := len(w.parked)
		w.mu.Unlock()
		if allReady && np == 0 && len(w.parkedWrites) == 0 {
			break
		}

		now := time.Now()
		// rare fault actions first (each its own draw; 0 = no fault)
		if cfg.crash && w.crashes < 3 && c.Chance("crash?", 1, 12) {
			w.crash()
			continue
		}
		if cfg.aborts && aborts < 2 && c.Chance("abort?", 1, 15) {
			vc := w.changes[c.Draw("abort-which", len(w.changes))]
			w.userAbort(vc)
			aborts++
			continue
		}
		if cfg.clients && c.Chance("client-write?", 1, 8) {
			w.actionStart = len(w.payloads)
			w.clientWrite()
			continue
		}
		if cfg.ckptFail && c.Chance("ckptfail?", 1, 25) {
			w.be.mu.Lock()
			w.be.failNext = 1 + c.Draw("ckptfail-n", 2)
			w.be.mu.Unlock()
			c.Count("fault:checkpoint-failure-armed")
		}

		// regular actions
		type action struct {
			kind string
			p    *verifParked
			id   string
			pw   *verifParkedWrite
		}
		var acts []action
		due := !w.nextEnsure.IsZero() && !w.nextEnsure.After(now)
		if due {
			acts = append(acts, action{kind: "ensure"})
		}
		for _, p := range w.parked {
			acts = append(acts, action{kind: "release", p: p})
		}
		for _, id := range w.waitingTasks() {
			acts = append(acts, action{kind: "resolve", id: id})
		}
		for _, pw := range w.parkedWrites {
			acts = append(acts, action{kind: "land-write", pw: pw})
		}
		if !due && cfg.spontaneous && c.Chance("spont?", 1, 6) {
			acts = append([]action{{kind: "ensure"}}, acts...)
			c.Count("probe:spontaneous-ensure")
		}
		if len(acts) == 0 {
			// nothing can happen before the next ensure: advance the clock
			if w.nextEnsure.IsZero() {
				w.nextEnsure = now.Add(5 * time.Minute)
			}
			d := w.nextEnsure.Sub(now)
			periodic := false
			if d > 5*time.Minute {
				d = 5 * time.Minute // the overlord's periodic ensure
				periodic = true
			}
			if d > time.Second && c.Chance("short-step?", 1, 4) {
				// stop short of the deadline and run an early ensure pass
				d = d / time.Duration(2+c.Draw("short-div", 3))
				time.Sleep(d)
				synctest.Wait()
				c.Logf("clock +%v (short), early ensure", d)
				w.ensure()
				continue
			}
			time.Sleep(d)
			synctest.Wait()
			c.Logf("clock +%v", d)
			if periodic {
				w.nextEnsure = time.Now()
			}
			// stall detection
			snap := w.snapshotString()
			if snap == lastSnap && w.noFutureWork() {
				stallTicks++
			} else {
				stallTicks = 0
				lastSnap = snap
			}
			if stallTicks >= 6 {
				if c.Active("C03") || c.Active("C04") {
					c.Violate(c.Prop+"/stall", "no progress over %d ensure passes with nothing running, nothing scheduled and nothing in Wait: %s", stallTicks, snap)
				} else {
					c.Fatalf("engine A: stall (%s)", snap)
				}
				return
			}
			continue
		}
		a := acts[c.Draw("act", len(acts))]
		w.actionStart = len(w.payloads)
		switch a.kind {
		case "ensure":
			w.ensure()
		case "release":
			w.release(a.p)
		case "resolve":
			w.resolveWait(a.id)
		case "land-write":
			w.landWrite(a.pw)
		}
	}
	if len(c.Violations) == 0 {
		w.finalOracles()
	}
	c.SimTime = time.Since(t0)
}

func (w *verifWorldA) afterAction() {
	synctest.Wait()
	for {
		w.be.mu.Lock()
		k := w.be.failed
		w.be.failed = 0
		w.be.mu.Unlock()
		if k == 0 {
			break
		}
		w.c.Add("fault:checkpoint-failure", int64(k))
		w.c.Nontrivial()
		if !w.st.VerifLockHeld() && w.c.Active("C04") {
			// nobody holds the state lock although a write just failed (on the
			// unchanged tree only when the simulator's own unlock hit the failure
			// and already sat the retries out): another user of the state may
			// modify it right now
			if w.c.Draw("touch-state-after-checkpoint-trouble", 2) == 1 {
				w.touch++
				w.st.Lock()
				w.st.Set("verif-touch", w.touch)
				w.st.Unlock()
				w.c.Count("probe:state-modified-right-after-checkpoint-trouble")
			}
		}
		// State.Unlock sleeps 3s between attempts while holding the lock
		time.Sleep(time.Duration(k)*3*time.Second + time.Millisecond)
		synctest.Wait()
	}
}

func (w *verifWorldA) ensure() {
	w.c.Logf("ensure")
	w.nextEnsure = time.Time{}
	w.permute = true
	w.r.Ensure()
	w.permute = false
	if w.nextEnsure.IsZero() || w.nextEnsure.After(time.Now().Add(5*time.Minute)) {
		w.nextEnsure = time.Now().Add(5 * time.Minute)
	}
	w.afterAction()
}

func (w *verifWorldA) isClient(id int64) bool {
	w.mu.Lock()
	defer w.mu.Unlock()
	return w.clientIDs[id]
}

// clientWrite is an API request that modifies the state (as any daemon
// request does): Lock, change something, Unlock (which checkpoints).
func (w *verifWorldA) clientWrite() {
	w.nclient++
	n := w.nclient
	st := w.st
	w.c.Logf("client write #%d", n)
	w.c.Count("client-writes")
	go func() {
		id := verifGoID()
		w.mu.Lock()
		if w.clientIDs == nil {
			w.clientIDs = map[int64]bool{}
		}
		w.clientIDs[id] = true
		w.mu.Unlock()
		st.Lock()
		st.Set("verif-client", n)
		st.Unlock()
		w.mu.Lock()
		delete(w.clientIDs, id)
		w.mu.Unlock()
	}()
	w.afterAction()
}

func (w *verifWorldA) landWrite(pw *verifParkedWrite) {
	for i, q := range w.parkedWrites {
		if q == pw {
			w.parkedWrites = append(w.parkedWrites[:i], w.parkedWrites[i+1:]...)
			break
		}
	}
	w.c.Logf("unlocked checkpoint write #%d lands", pw.seq)
	w.c.Count("probe:checkpoint-written-without-lock")
	pw.ch <- struct{}{}
	w.afterAction()
}

func (w *verifWorldA) releaseWrites() {
	pws := w.parkedWrites
	w.parkedWrites = nil
	for _, pw := range pws {
		pw.ch <- struct{}{}
	}
}

func (w *verifWorldA) waitingTasks() []string {
	w.st.Lock()
	defer w.st.Unlock()
	var ids []string
	for _, vc := range w.changes {
		chg := w.st.Change(vc.id)
		if chg == nil {
			continue
		}
		for _, t := range chg.Tasks() {
			if t.Status() == state.WaitStatus {
				ids = append(ids, t.ID())
			}
		}
	}
	return ids
}

func (w *verifWorldA) noFutureWork() bool {
	w.st.Lock()
	defer w.st.Unlock()
	for _, t := range w.st.Tasks() {
		if t.Status() == state.WaitStatus {
			return false
		}
		if !t.AtTime().IsZero() && t.AtTime().After(time.Now()) {
			return false
		}
	}
	w.mu.Lock()
	defer w.mu.Unlock()
	return len(w.parked) == 0
}

func (w *verifWorldA) snapshotString() string {
	w.st.Lock()
	defer w.st.Unlock()
	var b strings.Builder
	for _, vc := range w.changes {
		chg := w.st.Change(vc.id)
		if chg == nil {
			continue
		}
		fmt.Fprintf(&b, "%s[%v]:", vc.id, chg.Status())
		for _, t := range chg.Tasks() {
			fmt.Fprintf(&b, " %s=%v", w.tasks[t.ID()].label, t.Status())
		}
		b.WriteString("; ")
	}
	return b.String()
}

func (w *verifWorldA) resolveWait(id string) {
	func() {
		w.st.Lock()
		defer w.st.Unlock()
		t := w.st.Task(id)
		if t != nil && t.Status() == state.WaitStatus {
			// what overlord/restart does once the reboot happened
			w.tasks[id].inWait = false
			t.SetStatus(t.WaitedStatus())
			w.c.Logf("resolve-wait %s -> %v", w.tasks[id].label, t.Status())
			w.c.Count("probe:wait-resolved")
		}
	}()
	w.st.EnsureBefore(0)
	w.afterAction()
}

func (w *verifWorldA) userAbort(vc *verifChange) {
	panicked := false
	func() {
		w.st.Lock()
		defer w.st.Unlock()
		defer func() {
			if r := recover(); r != nil {
				panicked = true
				w.c.Count("probe:abort-panicked")
				if w.c.Active("C03") {
					w.c.Violate("C03/abort-panic", "aborting unready change %d panics: %v", vc.idx, r)
				} else {
					// not this property's subject: give the run up
					w.c.Logf("abort panicked (%v): run abandoned", r)
					w.abandoned = true
				}
			}
		}()
		chg := w.st.Change(vc.id)
		// the guard of daemon.abortChange
		if chg != nil && !chg.IsReady() {
			w.c.Logf("user-abort change %d", vc.idx)
			chg.Abort()
			vc.userAborted = true
			w.c.Count("fault:user-abort")
			w.c.Nontrivial()
		}
	}()
	if panicked {
		return
	}
	w.st.EnsureBefore(0)
	w.afterAction()
}

func (w *verifWorldA) release(p *verifParked) {
	c := w.c
	w.mu.Lock()
	for i, q := range w.parked {
		if q == p {
			w.parked = append(w.parked[:i], w.parked[i+1:]...)
			break
		}
	}
	multi := len(w.parked) > 0
	w.mu.Unlock()
	if multi {
		c.Nontrivial()
		c.Count("probe:handlers-overlapped")
	}
	vt := p.t
	killed := false
	select {
	case <-p.tb.Dying():
		killed = true
	default:
	}
	var res error
	what := "end-do"
	if p.undo {
		what = "end-undo"
		if vt.failUndo {
			res = errors.New("undo-boom-" + vt.label)
			c.Count("fault:undo-error")
			c.Nontrivial()
		} else if vt.undoRetries > 0 {
			vt.undoRetries--
			res = &state.Retry{After: vt.undoRetryAfter, Reason: "verif"}
			if vt.undoRetryAfter > 0 {
				vt.undoNotBefore = time.Now().Add(vt.undoRetryAfter)
			}
			c.Count("probe:undo-retry")
		} else if vt.undoWait && !vt.undoWaited && !killed {
			vt.undoWaited = true
			vt.undoApplied++
			vt.lastOp = "undo"
			c.Count("probe:undo-wait-returned")
			vt.inWait = true
			if vt.waitBySet {
				w.setToWait(vt, state.UndoneStatus)
			} else {
				res = &state.Wait{Reason: "verif", WaitedStatus: state.UndoneStatus}
			}
		} else {
			vt.undoApplied++
			vt.lastOp = "undo"
		}
	} else {
		switch {
		case killed && !vt.ignoreKill:
			res = errors.New("killed-" + vt.label)
			c.Count("probe:killed-in-flight")
		case vt.script == verifScriptFail:
			res = errors.New(vt.doErrText())
			c.Count("fault:do-error")
			c.Nontrivial()
		case vt.script == verifScriptRetry && vt.retries > 0:
			vt.retries--
			res = &state.Retry{After: vt.retryAfter, Reason: "verif"}
			if vt.retryAfter > 0 {
				vt.notBefore = time.Now().Add(vt.retryAfter)
			}
			c.Count("probe:retry")
		case vt.script == verifScriptWait && vt.doApplied == 0:
			vt.doApplied++
			vt.lastOp = "do"
			vt.inWait = true
			if vt.spawn > 0 {
				// (link-snap of a kernel: injects auto-connect, then asks for a reboot)
				w.spawnTasks(vt)
			}
			if vt.waitBySet && !killed {
				w.setToWait(vt, state.DoneStatus)
			} else {
				res = &state.Wait{Reason: "verif", WaitedStatus: state.DoneStatus}
			}
			c.Count("probe:wait-returned")
		default:
			if killed {
				c.Count("probe:ignore-kill-completed")
			}
			vt.doApplied++
			vt.lastOp = "do"
			if vt.spawn > 0 {
				w.spawnTasks(vt)
			}
		}
	}
	rs := "ok"
	if res != nil {
		rs = res.Error()
		switch res.(type) {
		case *state.Retry, *state.Wait:
		default:
			vt.returnedErrs = append(vt.returnedErrs, rs)
		}
	}
	c.Logf("%s %s killed=%v -> %s", what, vt.label, killed, rs)
	p.ch <- res
	w.afterAction()
}

// spawnTasks is what a handler does that extends its change while it runs
// (snapstate.InjectTasks): the new tasks join the lanes of the running task
// and wait for it, and everything that waited for it also waits for them. The
// handler does this once (it records that it did); a careful one only while
// its task is still Doing, a careless one also when an abort overtook it.
func (w *verifWorldA) spawnTasks(vt *verifTask) {
	c := w.c
	w.st.Lock()
	defer w.st.Unlock()
	t := w.st.Task(vt.id)
	if t == nil || (t.Status() != state.DoingStatus && !(vt.careless && t.Status() == state.AbortStatus)) {
		c.Count("probe:spawn-skipped-task-not-doing")
		return
	}
	if t.Status() == state.AbortStatus {
		c.Count("probe:tasks-added-by-a-handler-an-abort-had-overtaken")
	}
	var done bool
	if err := t.Get("verif-spawned", &done); err == nil && done {
		c.Count("probe:spawn-skipped-already-done")
		return
	}
	t.Set("verif-spawned", true)
	chg := t.Change()
	vc := w.changes[vt.chg]
	lanes := t.Lanes()
	if len(lanes) == 1 && lanes[0] == 0 {
		lanes = nil
	}
	oldHalts := append([]string(nil), vt.halts...)
	var prev *state.Task
	var prevVT *verifTask
	for i := 0; i < vt.spawn; i++ {
		kind := "u"
		if c.Chance("spawn-noundo", 1, 5) {
			kind = "n"
		}
		label := fmt.Sprintf("%s.s%d", vt.label, i)
		nt := w.st.NewTask(kind, label)
		nvt := &verifTask{label: label, id: nt.ID(), chg: vt.chg, undoable: kind == "u", dynamic: true, lanes: append([]int(nil), vt.lanes...)}
		if w.cfg.pFail > 0 && c.Chance("spawn-faildo", w.cfg.pFail, 20) {
			nvt.script = verifScriptFail
		}
		nvt.ignoreKill = c.Chance("spawn-ignorekill", 1, 2)
		for _, l := range lanes {
			nt.JoinLane(l)
		}
		chg.AddTask(nt)
		for _, h := range oldHalts {
			if ht := w.st.Task(h); ht != nil {
				ht.WaitFor(nt)
				w.tasks[h].waits = append(w.tasks[h].waits, nt.ID())
				nvt.halts = append(nvt.halts, h)
			}
		}
		nt.WaitFor(t)
		nvt.waits = append(nvt.waits, vt.id)
		vt.halts = append(vt.halts, nt.ID())
		if c.Chance("spawn-waits-on-finished-task", 1, 2) {
			// a new task may also wait for a task of the change that finished long ago
			var done []*verifTask
			for _, x := range vc.tasks {
				if xt := w.st.Task(x.id); xt != nil && x != nvt && x != vt && xt.Status() == state.DoneStatus {
					done = append(done, x)
				}
			}
			if len(done) > 0 {
				x := done[c.Draw("spawn-finished-task", len(done))]
				nt.WaitFor(w.st.Task(x.id))
				nvt.waits = append(nvt.waits, x.id)
				x.halts = append(x.halts, nt.ID())
				c.Count("probe:new-task-waits-on-a-task-finished-earlier")
			}
		}
		if prev != nil && c.Chance("spawn-chain", 1, 2) {
			nt.WaitFor(prev)
			nvt.waits = append(nvt.waits, prevVT.id)
			prevVT.halts = append(prevVT.halts, nt.ID())
		}
		prev, prevVT = nt, nvt
		vc.tasks = append(vc.tasks, nvt)
		w.tasks[nvt.id] = nvt
		c.Logf("spawned %s id=%s undoable=%v script=%d lanes=%v waits=%v halts=%v", nvt.label, nvt.id, nvt.undoable, nvt.script, nvt.lanes, w.labels(nvt.waits), w.labels(nvt.halts))
	}
	c.Count("probe:tasks-added-by-running-handler")
	c.Nontrivial()
}

// setToWait is what a handler does before returning nil when it needs a
// reboot (restart.FinishTaskWithRestart): the task parks itself.
func (w *verifWorldA) setToWait(vt *verifTask, waited state.Status) {
	w.st.Lock()
	defer w.st.Unlock()
	if t := w.st.Task(vt.id); t != nil && (t.Status() == state.DoingStatus || t.Status() == state.UndoingStatus) {
		t.SetToWait(waited)
		w.c.Count("probe:wait-by-settowait")
	}
}

func (vt *verifTask) doErrText() string {
	if vt.sameErr {
		return "do-boom-shared"
	}
	return "do-boom-" + vt.label
}

func (w *verifWorldA) changeStatusChanged(chg *state.Change, old, new state.Status) {
	// called with the state lock held, from whichever goroutine changed a status
	for _, vc := range w.changes {
		if vc.id != chg.ID() {
			continue
		}
		if vc.notifiedRdy && !new.Ready() && w.c.Active("C03") {
			w.c.Violate("C03/unready-after-ready", "change %d notified status %v -> %v after it had been notified ready", vc.idx, old, new)
		}
		if new.Ready() {
			vc.notifiedRdy = true
		}
	}
}

// observe runs after every event, at quiescence.
func (w *verifWorldA) observe() {
	c := w.c
	w.st.Lock()
	defer w.st.Unlock()
	now := time.Now()

	// what a client could have been told by now: with no write in flight every
	// finished task seen here is covered by the last checkpoint
	if len(w.parkedWrites) == 0 && !w.st.Modified() {
		for _, t := range w.st.Tasks() {
			if t.Status() == state.DoneStatus || t.Status() == state.UndoneStatus {
				w.ackDone[t.ID()+"/"+t.Status().String()] = true
			}
		}
	}

	// with no write in flight and nothing left to write, what a restart would
	// read is what is in memory (every modifying unlock checkpoints, in order)
	if c.Active("C04") && len(w.parkedWrites) == 0 && !w.st.Modified() && len(w.payloads) > 0 && len(w.payloads) != w.durableChecked {
		w.durableChecked = len(w.payloads)
		var raw struct {
			Data struct {
				Touch int `json:"verif-touch"`
			} `json:"data"`
			Tasks map[string]struct {
				Status int `json:"status"`
			} `json:"tasks"`
		}
		if err := json.Unmarshal(w.payloads[len(w.payloads)-1], &raw); err == nil {
			var touch int
			w.st.Get("verif-touch", &touch)
			if raw.Data.Touch != touch {
				c.Violate("C04/durable-state-behind-memory", "nothing is left to write, yet the last checkpoint written holds client write #%d while memory holds #%d: a restart now would resume from an older state", raw.Data.Touch, touch)
			}
			for _, t := range w.st.Tasks() {
				rt, ok := raw.Tasks[t.ID()]
				ps := state.Status(rt.Status)
				if ps == state.DefaultStatus {
					ps = state.DoStatus
				}
				if vt := w.tasks[t.ID()]; vt != nil && (!ok || ps != t.Status()) {
					c.Violate("C04/durable-state-behind-memory", "nothing is left to write, yet the last checkpoint written records %s as %v (present=%v) while it is %v in memory: a restart now would resume from an older state", vt.label, ps, ok, t.Status())
					break
				}
			}
			c.Count("probe:durable-equals-memory-checked")
		}
	}

	// a task that asked to wait for a reboot stops waiting when an abort moves it on
	for _, t := range w.st.Tasks() {
		if vt := w.tasks[t.ID()]; vt != nil && vt.inWait {
			switch t.Status() {
			case state.UndoStatus, state.UndoingStatus, state.UndoneStatus, state.HoldStatus, state.ErrorStatus, state.AbortStatus:
				if !(vt.undoWaited && t.Status() == state.UndoingStatus) {
					vt.inWait = false
					c.Count("probe:wait-ended-by-an-abort")
				}
			}
		}
	}

	// newly started handlers, canonical order
	w.mu.Lock()
	var fresh []*verifParked
	for _, p := range w.parked {
		if !p.seen {
			p.seen = true
			fresh = append(fresh, p)
		}
	}
	w.mu.Unlock()
	sort.Slice(fresh, func(i, j int) bool {
		if fresh[i].t.label != fresh[j].t.label {
			return fresh[i].t.label < fresh[j].t.label
		}
		return !fresh[i].undo
	})
	for _, p := range fresh {
		vt := p.t
		if p.undo {
			vt.undoStarts++
			c.Logf("start-undo %s", vt.label)
			c.Count("undo-started")
			for _, h := range vt.halts {
				ht := w.st.Task(h)
				if ht != nil && ht.Status() == state.UndoStatus && !w.tasks[h].undoable {
					// flagged for undo by an abort but it has no undo handler: nothing
					// of it is pending or will run, the next ensure pass turns the
					// mark back into Done
					c.Count("probe:dependent-without-undo-handler-merely-flagged")
					continue
				}
				if ht != nil && !ht.Status().Ready() {
					if c.Active("C01") {
						c.Violate("C01/undo-before-dependents", "undo of %s started while %s, which waits on it, is %v", vt.label, w.tasks[h].label, ht.Status())
					}
					if c.Active("C02") {
						c.Violate("C02/undo-while-dependent-pending", "undo of %s started while %s, which waits on it, is %v", vt.label, w.tasks[h].label, ht.Status())
					}
				}
			}
			if !vt.undoNotBefore.IsZero() && now.Before(vt.undoNotBefore) && c.Active("C02") {
				c.Violate("C02/start-before-scheduled-time", "undo of %s started again %v before the time its retry was scheduled for", vt.label, vt.undoNotBefore.Sub(now))
			}
			if !vt.undoNotBefore.IsZero() {
				c.Count("probe:delayed-undo-retry-started")
			}
			if vt.noReundo && c.Active("C04") {
				c.Violate("C04/reundo-finished", "undo of %s started again although the state resumed from recorded it as Undone", vt.label)
			}
		} else {
			vt.doStarts++
			c.Logf("start-do %s", vt.label)
			c.Count("do-started")
			for _, wid := range vt.waits {
				wt := w.st.Task(wid)
				if wt == nil {
					continue
				}
				if wt.Status() == state.DoneStatus && w.tasks[wid].inWait && c.Active("C02") {
					c.Violate("C02/start-while-prerequisite-waits", "%s started although its prerequisite %s asked to wait for a reboot that has not happened yet (it is reported %v)", vt.label, w.tasks[wid].label, wt.Status())
				}
				if wt.Status() != state.DoneStatus && c.Active("C02") {
					cls := "C02/start-before-prerequisite"
					if wt.Status() == state.WaitStatus {
						cls = "C02/start-while-prerequisite-waits"
					}
					c.Violate(cls, "%s started while its prerequisite %s is %v", vt.label, w.tasks[wid].label, wt.Status())
				}
			}
			if !vt.notBefore.IsZero() && now.Before(vt.notBefore) && c.Active("C02") {
				c.Violate("C02/start-before-scheduled-time", "%s started %v before its scheduled time", vt.label, vt.notBefore.Sub(now))
			}
			if !vt.notBefore.IsZero() {
				c.Count("probe:scheduled-task-started")
			}
			vc := w.changes[vt.chg]
			if vc.failedSeen && !w.healthyReach(vt) && c.Active("C01") {
				c.Violate("C01/started-after-failure", "%s started after a task of all its lanes had already failed", vt.label)
			}
			if vt.noRedo && c.Active("C04") {
				c.Violate("C04/redo-finished", "%s was run again although the state resumed from recorded it as finished", vt.label)
			}
			vt.mustRun = false
		}
	}

	// change-level invariants (C03)
	for _, vc := range w.changes {
		chg := w.st.Change(vc.id)
		if chg == nil {
			if c.Active("C04") {
				c.Violate("C04/change-lost", "change %d (id %s) no longer exists", vc.idx, vc.id)
			}
			continue
		}
		tasks := chg.Tasks()
		allReady := true
		anyErr := false
		held := map[state.Status]bool{}
		for _, t := range tasks {
			s := t.Status()
			held[s] = true
			if !s.Ready() {
				allReady = false
			}
			if s == state.ErrorStatus {
				anyErr = true
				vc.failedSeen = true
			}
		}
		cs := chg.Status()
		if c.Active("C03") {
			c.Count("c03-evaluations")
			if cs.Ready() != allReady {
				c.Violate("C03/ready-mismatch", "change %d status %v but all-tasks-ready=%v", vc.idx, cs, allReady)
			}
			if allReady {
				if anyErr != (cs == state.ErrorStatus) {
					c.Violate("C03/aggregate", "change %d: some task in Error=%v but change status %v", vc.idx, anyErr, cs)
				}
				if !held[cs] {
					c.Violate("C03/aggregate", "change %d status %v is held by none of its tasks", vc.idx, cs)
				}
			}
			if cs == state.WaitStatus && !held[state.WaitStatus] {
				c.Violate("C03/aggregate", "change %d reports Wait but no task is in Wait", vc.idx)
			}
			// "with all pending tasks blocked by other tasks in WaitStatus" the
			// change reports Wait: judged in the clear-cut case only (nothing
			// runs, at least one task waits, every pending task reaches a waiting
			// task through pending tasks of its own direction and has nothing
			// else unfinished in its way)
			if held[state.WaitStatus] && !held[state.DoingStatus] && !held[state.UndoingStatus] && !held[state.AbortStatus] {
				memo := map[string]int{}
				var blocked func(id string, undo bool) bool
				blocked = func(id string, undo bool) bool {
					if v := memo[id]; v != 0 {
						return v == 1
					}
					memo[id] = 2
					vt := w.tasks[id]
					deps := vt.waits
					if undo {
						deps = vt.halts
					}
					reach := false
					for _, d := range deps {
						dt := w.st.Task(d)
						if dt == nil {
							return false
						}
						switch ds := dt.Status(); {
						case ds == state.WaitStatus:
							reach = true
						case !undo && ds == state.DoneStatus, undo && ds.Ready():
						case !undo && ds == state.DoStatus, undo && ds == state.UndoStatus:
							if !blocked(d, undo) {
								return false
							}
							reach = true
						default:
							return false
						}
					}
					if reach {
						memo[id] = 1
					}
					return reach
				}
				all := true
				for _, t := range tasks {
					switch t.Status() {
					case state.DoStatus:
						all = all && blocked(t.ID(), false)
					case state.UndoStatus:
						all = all && blocked(t.ID(), true) && w.tasks[t.ID()].undoable
					}
				}
				if all {
					c.Count("probe:change-with-every-pending-task-blocked-by-a-waiting-task")
					if cs != state.WaitStatus {
						c.Violate("C03/aggregate", "change %d: nothing runs and every pending task is blocked by a task in Wait, yet the change reports %v instead of Wait", vc.idx, cs)
					}
				}
			}
			if chg.IsReady() != allReady {
				c.Violate("C03/ready-mismatch", "change %d IsReady=%v but all-tasks-ready=%v", vc.idx, chg.IsReady(), allReady)
			}
			if vc.everReady {
				if !chg.IsReady() || !cs.Ready() {
					c.Violate("C03/unready-after-ready", "change %d was ready and is now %v (IsReady=%v)", vc.idx, cs, chg.IsReady())
				}
				if !chg.ReadyTime().Equal(vc.readyTime) {
					c.Violate("C03/ready-time-changed", "change %d ready time moved from %v to %v", vc.idx, vc.readyTime, chg.ReadyTime())
				}
				select {
				case <-chg.Ready():
				default:
					c.Violate("C03/unready-after-ready", "change %d: Ready() channel is open again", vc.idx)
				}
			}
		}
		if chg.IsReady() && !vc.everReady {
			vc.everReady = true
			vc.readyTime = chg.ReadyTime()
			c.Logf("change %d ready: %v", vc.idx, cs)
			if c.Active("C03") {
				if vc.readyTime.IsZero() {
					c.Violate("C03/ready-time-missing", "change %d is ready without a ready time", vc.idx)
				}
				select {
				case <-chg.Ready():
				default:
					c.Violate("C03/ready-channel", "change %d is ready but Ready() is not closed", vc.idx)
				}
			}
		}
	}
}

// healthyReach reports whether vt has a lane in which no task has failed
// (so the statement lets it carry on).
func (w *verifWorldA) healthyReach(vt *verifTask) bool {
	vc := w.changes[vt.chg]
	if vc.userAborted {
		return false
	}
	failedLanes := map[int]bool{}
	for _, x := range vc.tasks {
		t := w.st.Task(x.id)
		if t != nil && t.Status() == state.ErrorStatus {
			for _, l := range x.lanes {
				failedLanes[l] = true
			}
		}
	}
	for _, l := range vt.lanes {
		if !failedLanes[l] {
			return true
		}
	}
	return false
}

func (w *verifWorldA) teardown() {
	// release everything still parked and stop the runner, inside the bubble
	w.be.mu.Lock()
	w.be.dead = true
	w.be.mu.Unlock()
	w.mu.Lock()
	ps := w.parked
	w.parked = nil
	w.mu.Unlock()
	for _, p := range ps {
		p.ch <- errors.New("verif: torn down")
	}
	w.releaseWrites()
	synctest.Wait()
	w.r.Stop()
	synctest.Wait()
}

// crash abandons the running instance and restarts from a durable payload.
func (w *verifWorldA) crash() {
	c := w.c
	w.crashes++
	c.Count("fault:crash-restart")
	c.Nontrivial()
	// which payload survives: the last one, or (power lost during the last
	// write) the one before it
	// which payload survives: any cut inside the last action (power lost
	// before one of the writes it made), never below what was already durable
	k := len(w.payloads) - 1
	lo := w.actionStart - 1
	if lo < w.floor {
		lo = w.floor
	}
	if lo < 0 {
		lo = 0
	}
	lostSome := false
	if k > lo {
		if d := c.Draw("crash-loses-checkpoints", k-lo+1); d > 0 {
			k -= d
			lostSome = true
			c.Count("fault:crash-lost-unsynced-checkpoints")
		}
	}
	w.floor = k
	payload := w.payloads[k]
	w.payloads = w.payloads[:k+1]

	// persisted statuses, read independently of snapd's decoder
	var raw struct {
		Changes map[string]struct {
			TaskIDs []string `json:"task-ids"`
		} `json:"changes"`
		Tasks map[string]struct {
			Status    int       `json:"status"`
			AtTime    time.Time `json:"at-time"`
			WaitTasks []string  `json:"wait-tasks"`
			HaltTasks []string  `json:"halt-tasks"`
		} `json:"tasks"`
	}
	if err := json.Unmarshal(payload, &raw); err != nil {
		c.Fatalf("payload not JSON: %v", err)
	}

	// tasks a handler had added whose addition was not durable are gone with
	// the process (the handler adds them again when it is run again)
	gone := map[string]bool{}
	for _, vc := range w.changes {
		keep := vc.tasks[:0]
		for _, vt := range vc.tasks {
			if _, ok := raw.Tasks[vt.id]; !ok && vt.dynamic {
				gone[vt.id] = true
				c.Count("probe:crash-loses-tasks-added-at-run-time")
				continue
			}
			keep = append(keep, vt)
		}
		vc.tasks = keep
	}
	if len(gone) > 0 {
		strip := func(ids []string) []string {
			out := ids[:0]
			for _, id := range ids {
				if !gone[id] {
					out = append(out, id)
				}
			}
			return out
		}
		for id := range gone {
			delete(w.tasks, id)
		}
		for _, vt := range w.tasks {
			vt.waits = strip(vt.waits)
			vt.halts = strip(vt.halts)
		}
	}

	// in-flight handlers die with the process; their outside effect may
	// have been applied already if the start of the task was durable
	w.be.mu.Lock()
	w.be.dead = true
	w.be.mu.Unlock()
	w.mu.Lock()
	ps := w.parked
	w.parked = nil
	w.mu.Unlock()
	for _, p := range ps {
		rt, ok := raw.Tasks[p.t.id]
		started := ok && (state.Status(rt.Status) == state.DoingStatus || state.Status(rt.Status) == state.UndoingStatus || state.Status(rt.Status) == state.AbortStatus)
		applied := false
		if started && c.Chance("effect-applied-before-crash", 1, 2) {
			applied = true
			if p.undo {
				p.t.undoApplied++
				p.t.lastOp = "undo"
			} else if p.t.script != verifScriptFail {
				p.t.doApplied++
				p.t.lastOp = "do"
			}
			c.Count("probe:crash-with-handler-effect-applied")
		}
		c.Logf("crash kills handler %s undo=%v effect-applied=%v", p.t.label, p.undo, applied)
		p.ch <- errors.New("verif: process died")
	}
	w.releaseWrites()
	synctest.Wait()
	w.r.Stop()
	synctest.Wait()

	// restart
	w.gen++
	w.be = &verifBackendA{w: w, gen: w.gen}
	st, err := state.ReadState(w.be, bytes.NewReader(payload))
	if err != nil {
		if c.Active("C04") {
			c.Violate("C04/reload-failed", "checkpoint %d does not load: %v", k, err)
		}
		return
	}
	w.newInstance(st)
	w.nextEnsure = time.Now()
	c.Logf("crash: restart from checkpoint %d", k)

	st.Lock()
	defer st.Unlock()
	st.AddChangeStatusChangedHandler(w.changeStatusChanged)
	// nothing lost, nothing duplicated
	if c.Active("C04") {
		for _, vc := range w.changes {
			chg := st.Change(vc.id)
			if chg == nil {
				if _, ok := raw.Changes[vc.id]; ok {
					c.Violate("C04/change-lost", "change %d is in the checkpoint but not in the reloaded state", vc.idx)
				}
				continue
			}
			got := []string{}
			for _, t := range chg.Tasks() {
				got = append(got, t.ID())
			}
			want := []string{}
			for _, vt := range vc.tasks {
				want = append(want, vt.id)
			}
			sort.Strings(got)
			sort.Strings(want)
			if strings.Join(got, ",") != strings.Join(want, ",") {
				c.Violate("C04/tasks-lost-or-duplicated", "change %d has tasks %v after restart, had %v", vc.idx, got, want)
			}
		}
		if n := len(st.Changes()); n != len(w.changes) {
			c.Violate("C04/tasks-lost-or-duplicated", "%d changes after restart, %d before", n, len(w.changes))
		}
		if n := st.TaskCount(); n != len(w.tasks) {
			c.Violate("C04/tasks-lost-or-duplicated", "%d tasks after restart, %d before", n, len(w.tasks))
		}
	}
	defer func() { w.ackDone = map[string]bool{} }() // acknowledgements restart from what was durable
	for _, vc := range w.changes {
		// the ready bookkeeping restarts from what was durable
		chg := st.Change(vc.id)
		if chg != nil && !chg.IsReady() {
			vc.everReady = false
			vc.notifiedRdy = false
		}
		vc.failedSeen = false
		for _, vt := range vc.tasks {
			vt.noRedo, vt.noReundo, vt.mustRun = false, false, false
			vt.returnedErrs = nil
			t := st.Task(vt.id)
			if t == nil {
				continue
			}
			s := t.Status()
			// a wait that was asked for is pending only if the state resumed from says so
			vt.inWait = s == state.WaitStatus
			if !lostSome && c.Active("C04") {
				// finished work must not be rolled back to "not yet done"
				if w.ackDone[vt.id+"/Done"] && (s == state.DoStatus || s == state.DoingStatus) {
					c.Violate("C04/finished-task-not-durable", "%s was Done at a quiescent point before the stop (all writes completed), the state read back after the restart says %v", vt.label, s)
				}
				if w.ackDone[vt.id+"/Undone"] && s != state.UndoneStatus {
					c.Violate("C04/finished-task-not-durable", "%s was Undone at a quiescent point before the stop (all writes completed), the state read back after the restart says %v", vt.label, s)
				}
			}
			if c.Active("C04") {
				ids := func(ts []*state.Task) string {
					var out []string
					for _, x := range ts {
						out = append(out, x.ID())
					}
					sort.Slice(out, func(i, j int) bool { return verifNumLess(out[i], out[j]) })
					return strings.Join(out, ",")
				}
				want := func(l []string) string {
					out := append([]string(nil), l...)
					sort.Slice(out, func(i, j int) bool { return verifNumLess(out[i], out[j]) })
					return strings.Join(out, ",")
				}
				if got, exp := ids(t.WaitTasks()), want(vt.waits); got != exp {
					c.Violate("C04/dependencies-changed-by-restart", "%s waits for [%s] after the restart, before it waited for [%s]", vt.label, got, exp)
				}
				if got, exp := ids(t.HaltTasks()), want(vt.halts); got != exp {
					c.Violate("C04/dependencies-changed-by-restart", "after the restart the tasks waiting for %s are [%s], before they were [%s]", vt.label, got, exp)
				}
			}
			if rt, ok := raw.Tasks[vt.id]; ok {
				// what the checkpoint says about a pending (delayed) retry is what holds
				// from now on: a retry request that was not durable is simply gone
				if state.Status(rt.Status) == state.UndoingStatus {
					vt.undoNotBefore = rt.AtTime
				} else {
					vt.notBefore = rt.AtTime
				}
			}
			if rt, ok := raw.Tasks[vt.id]; ok && c.Active("C04") {
				ps := state.Status(rt.Status)
				if ps == state.DefaultStatus {
					ps = state.DoStatus
				}
				if ps != s {
					c.Violate("C04/status-changed-by-reload", "%s is %v after reload, checkpoint says %v", vt.label, s, ps)
				}
			}
			// obligations for the rest of the run
			if s == state.DoneStatus || s == state.UndoStatus || s == state.UndoingStatus || s == state.UndoneStatus || s == state.WaitStatus || s == state.HoldStatus || s == state.ErrorStatus {
				vt.noRedo = true
			}
			if s == state.UndoneStatus {
				vt.noReundo = true
			}
			if s == state.DoingStatus {
				vt.mustRun = true
				c.Count("probe:restart-with-task-doing")
			}
			if s == state.AbortStatus {
				c.Count("probe:restart-with-task-in-abort")
			}
			if s == state.WaitStatus {
				c.Count("probe:restart-with-task-in-wait")
			}
			// the ledger is the outside world: a task whose completion was
			// not durable is simply run again (idempotent work)
		}
	}
}

func (w *verifWorldA) finalOracles() {
	c := w.c
	w.st.Lock()
	defer w.st.Unlock()
	for _, vc := range w.changes {
		chg := w.st.Change(vc.id)
		if chg == nil {
			continue
		}
		final := map[string]state.Status{}
		for _, t := range chg.Tasks() {
			final[t.ID()] = t.Status()
		}
		dump := func() string {
			var b strings.Builder
			fmt.Fprintf(&b, "change %d status=%v aborted=%v:", vc.idx, chg.Status(), vc.userAborted)
			for _, vt := range vc.tasks {
				fmt.Fprintf(&b, " %s[%v undoable=%v lanes=%v waits=%v do=%d undo=%d]", vt.label, final[vt.id], vt.undoable, vt.lanes, w.labels(vt.waits), vt.doApplied, vt.undoApplied)
			}
			return b.String()
		}
		anyErr := false
		for _, vt := range vc.tasks {
			if final[vt.id] == state.ErrorStatus {
				anyErr = true
			}
		}

		if c.Active("C01") || c.Active("C04") {
			P := c.Prop
			c.Count("c01-final-evaluations")
			for _, vt := range vc.tasks {
				s := final[vt.id]
				if !s.Ready() {
					c.Violate(P+"/task-left-pending", "%s ends %v; %s", vt.label, s, dump())
				}
			}
			if anyErr && chg.Status() != state.ErrorStatus {
				c.Violate(P+"/change-not-error", "a task failed but the change settled as %v; %s", chg.Status(), dump())
			}
			// (b) closure and ledger
			for _, vt := range vc.tasks {
				s := final[vt.id]
				if s == state.DoneStatus {
					if vt.undoable {
						for _, wid := range vt.waits {
							if final[wid] != state.DoneStatus {
								c.Violate(P+"/kept-on-top-of-reverted", "%s is kept Done although its prerequisite %s ended %v; %s", vt.label, w.tasks[wid].label, final[wid], dump())
							}
						}
					}
					if vt.doApplied == 0 || vt.lastOp != "do" {
						c.Violate(P+"/ledger", "%s is Done but its effect is not in place (do=%d last=%q); %s", vt.label, vt.doApplied, vt.lastOp, dump())
					}
				}
				if s == state.UndoneStatus && vt.lastOp != "undo" {
					c.Violate(P+"/ledger", "%s is Undone but its last applied operation is %q; %s", vt.label, vt.lastOp, dump())
				}
				if s == state.HoldStatus && vt.undoable && vt.lastOp == "do" && w.crashes == 0 {
					c.Violate(P+"/held-with-effect", "%s is on Hold but its effect is in place and it can be undone; %s", vt.label, dump())
				}
			}
		}
		if c.Active("C01") {
			// (d) isolation: the least set an abort may reach under the documented
			// rule (Change.AbortLanes: "all tasks in the provided lanes and any tasks
			// waiting on them, except for tasks that are also in a healthy lane").
			// A lane is unhealthy once one of its tasks failed or was reached; a
			// task is reached when every lane it is in is unhealthy, or when it
			// waits on a failed or reached task. Whatever is outside the least
			// fixed point computed from all failures of the run must end Done:
			// every abort the runner performs happens with a subset of these
			// failures known, so it can only reach less.
			M := map[string]bool{}
			for _, vt := range vc.tasks {
				if final[vt.id] == state.ErrorStatus {
					M[vt.id] = true
				}
			}
			if vc.userAborted {
				for _, vt := range vc.tasks {
					M[vt.id] = true
				}
			}
			for changed := true; changed; {
				changed = false
				lanesM := map[int]bool{}
				for id := range M {
					for _, l := range w.tasks[id].lanes {
						lanesM[l] = true
					}
				}
				for _, vt := range vc.tasks {
					if M[vt.id] {
						continue
					}
					in := true
					for _, l := range vt.lanes {
						if !lanesM[l] {
							in = false
						}
					}
					for _, wid := range vt.waits {
						if M[wid] {
							in = true
						}
					}
					if in {
						M[vt.id] = true
						changed = true
					}
				}
			}
			// ... and whatever is inside it was reached: every abort takes the lanes
			// of each task it reaches along, so a completed task that can be undone
			// does not stay Done inside the fixed point
			// (judged on changes whose graph was fixed from the start: a task added
			// later, say waiting on one that an earlier abort had been through, is
			// not something that abort could have acted on)
			grew := false
			for _, vt := range vc.tasks {
				if vt.dynamic {
					grew = true
				}
			}
			if !vc.userAborted && !grew {
				for _, vt := range vc.tasks {
					if M[vt.id] && vt.undoable && final[vt.id] == state.DoneStatus {
						c.Violate("C01/not-undone:inside-the-reach-of-the-failure", "%s completed, can be undone and is within the reach of the failure (every lane it is in holds a failed or reached task, or it waits on one), but it is still Done; %s", vt.label, dump())
					}
				}
			}
			for _, vt := range vc.tasks {
				if !M[vt.id] && final[vt.id] != state.DoneStatus {
					c.Violate("C01/healthy-lane-not-completed", "%s is outside the reach of any failure but ended %v; %s", vt.label, final[vt.id], dump())
				}
				if !M[vt.id] {
					c.Count("probe:task-in-healthy-lane-completed")
				}
			}
			// (c) completeness
			failLanes := map[int]bool{}
			for _, vt := range vc.tasks {
				if final[vt.id] == state.ErrorStatus {
					for _, l := range vt.lanes {
						failLanes[l] = true
					}
				}
			}
			must := map[string]bool{}
			for _, vt := range vc.tasks {
				all := anyErr
				for _, l := range vt.lanes {
					if !failLanes[l] {
						all = false
					}
				}
				if all || vc.userAborted {
					must[vt.id] = true
				}
			}
			// (tasks that wait on a failed task are covered by the closure rule above)
			for _, vt := range vc.tasks {
				if must[vt.id] && vt.undoable && final[vt.id] == state.DoneStatus {
					multi := len(vt.lanes) > 1
					cls := "C01/not-undone"
					if multi && !vc.userAborted {
						// every lane of the task holds a failed task, yet it was spared
						cls = "C01/not-undone:multi-lane-task-spared-though-every-lane-failed"
					}
					c.Violate(cls, "%s can be undone and every one of its lanes holds a failed task (or it waits on such a task), but it is still Done; %s", vt.label, dump())
				}
				if len(vt.lanes) > 1 {
					c.Count("probe:multi-lane-task")
				}
			}
			if anyErr {
				c.Count("probe:change-failed")
			}
			for _, vt := range vc.tasks {
				if final[vt.id] == state.HoldStatus && !vt.undoable && vt.doStarts > 0 {
					c.Count("probe:abort-in-flight-no-undo-to-hold")
				}
				if final[vt.id] == state.ErrorStatus && vt.failUndo && vt.undoStarts > 0 {
					c.Count("probe:failure-during-undo")
				}
			}
		}
		if c.Active("C03") {
			// Err() names every failed task with its error
			err := chg.Err()
			for _, vt := range vc.tasks {
				if final[vt.id] != state.ErrorStatus {
					continue
				}
				if err == nil {
					c.Violate("C03/err-missing", "change %d has failed task %s but Err() is nil", vc.idx, vt.label)
					break
				}
				msg := err.Error()
				wantDo, wantUndo := vt.doErrText(), "undo-boom-"+vt.label
				wantKilled := "killed-" + vt.label
				if !strings.Contains(msg, "- "+vt.label+" ("+wantDo+")") && !strings.Contains(msg, "- "+vt.label+" ("+wantUndo+")") && !strings.Contains(msg, "- "+vt.label+" ("+wantKilled+")") {
					c.Violate("C03/err-incomplete", "change %d: Err() %q does not name failed task %s with the error it failed with", vc.idx, msg, vt.label)
				}
			}
			// a task whose handler returned an error is a failed task (no restart
			// happens in the runs that decide C03, so nothing turns it into a retry)
			if w.crashes == 0 {
				for _, vt := range vc.tasks {
					for _, e := range vt.returnedErrs {
						if final[vt.id] != state.ErrorStatus {
							c.Violate("C03/failed-task-not-in-error", "change %d: a handler of %s returned the error %q but the task ends %v", vc.idx, vt.label, e, final[vt.id])
						} else if err == nil || !strings.Contains(err.Error(), "- "+vt.label+" ("+e+")") {
							c.Violate("C03/err-incomplete", "change %d: Err() %v does not name failed task %s with the error %q its handler returned", vc.idx, err, vt.label, e)
						}
					}
				}
			}
			if !anyErr && err != nil && chg.Status() != state.ErrorStatus {
				c.Violate("C03/err-spurious", "change %d has no failed task but Err()=%v", vc.idx, err)
			}
		}
		if c.Active("C04") {
			for _, vt := range vc.tasks {
				if vt.mustRun && !anyErr && !vc.userAborted {
					c.Violate("C04/running-task-not-rerun", "%s was recorded as running at the restart but was never started again; %s", vt.label, dump())
				}
			}
			// outcome equals the crash-free outcome where that is schedule independent
			simple := !vc.userAborted
			fails := 0
			for _, vt := range vc.tasks {
				if !vt.undoable || vt.failUndo || len(vt.lanes) != 1 || vt.lanes[0] != 0 {
					simple = false
				}
				if vt.script == verifScriptFail {
					fails++
				}
			}
			if simple && fails <= 1 {
				c.Count("probe:outcome-compared-with-crash-free-run")
				for _, vt := range vc.tasks {
					applied := vt.lastOp == "do"
					if fails == 0 && (final[vt.id] != state.DoneStatus || !applied) {
						c.Violate("C04/outcome-differs", "without a restart every task of change %d ends Done with its effect in place; %s is %v (last op %q); %s", vc.idx, vt.label, final[vt.id], vt.lastOp, dump())
					}
					// a task that itself ended in Error (failed or killed in flight)
					// cleans up after itself; its ledger entry is not judged
					if fails == 1 && (final[vt.id] == state.DoneStatus || (applied && final[vt.id] != state.ErrorStatus)) {
						c.Violate("C04/outcome-differs", "without a restart change %d ends in Error with every effect reverted; %s is %v (last op %q); %s", vc.idx, vt.label, final[vt.id], vt.lastOp, dump())
					}
				}
				wantS := state.DoneStatus
				if fails == 1 {
					wantS = state.ErrorStatus
				}
				if chg.Status() != wantS {
					c.Violate("C04/outcome-differs", "change %d settles as %v, without a restart it settles as %v; %s", vc.idx, chg.Status(), wantS, dump())
				}
			}
		}
	}
}

func (w *verifWorldA) labels(ids []string) []string {
	out := []string{}
	for _, id := range ids {
		out = append(out, w.tasks[id].label)
	}
	return out
}

var verifEngineA = &verifsim.Engine{
	Name:   "A: overlord/state State+TaskRunner under simulated handlers/backend/clock",
	Bubble: true,
	Run:    verifRunA,
	Real: []string{"overlord/state: State, Change, Task, TaskRunner (Ensure/run/abortLanes/tryUndo), lanes, Retry/Wait handling, JSON checkpoint + ReadState",
		"time (testing/synctest fake clock)"},
	Stubs: []string{"task handlers (parked, scripted result, effects ledger)", "state.Backend (records checkpoints, relays EnsureBefore)",
		"overlord ensure loop (event queue, 5 min periodic ensure)", "restart manager's wait resolution (SetStatus(WaitedStatus))", "daemon.abortChange guard (replica: abort only if !IsReady)"},
}
