package state_test

// C09: pruning removes only finished changes, together with all their tasks;
// unfinished ones are aborted only after the abort period (counted from the
// start of operation at the earliest) unless a registered predicate says
// pending; expired notices and warnings disappear.

import (
	"bytes"
	"encoding/json"
	"fmt"
	"sort"
	"strconv"
	"time"

	"github.com/snapcore/snapd/internal/verifsim"
	"github.com/snapcore/snapd/overlord/state"
)

// verifBackendC09 keeps the last checkpoint so that a run can restart from it.
type verifBackendC09 struct{ last []byte }

func (b *verifBackendC09) Checkpoint(data []byte) error {
	b.last = append([]byte(nil), data...)
	return nil
}
func (b *verifBackendC09) EnsureBefore(time.Duration) {}

type verifChgInfo struct {
	id      string
	tasks   []string
	spawn   time.Time
	ready   time.Time
	isReady bool
	attr    bool
	attrs   []string
	empty   bool
}

func verifRunC09(c *verifsim.Ctx) {
	verifCanonicalOrder()
	defer func() { state.VerifOrderTasks = nil; state.VerifOrderChanges = nil }()
	t0 := time.Now()
	be := &verifBackendC09{}
	st := state.New(be)
	st.Lock()
	defer func() { st.Unlock() }()
	// up to three registered predicates, each with its own answer; a change is
	// pending when any predicate registered for an attribute it carries says so
	attrNames := []string{"pend", "pend-b", "pend-c"}
	npred := 1 + c.Draw("npredicates", 3)
	says := map[string]bool{}
	for i := 0; i < npred; i++ {
		says[attrNames[i]] = c.Draw("pending-says", 2) == 1
	}
	register := func() {
		for i := 0; i < npred; i++ {
			a := attrNames[i]
			st.RegisterPendingChangeByAttr(a, func(*state.Change) bool { return says[a] })
		}
	}
	register()
	pendingFor := func(attrs []string) bool {
		for _, a := range attrs {
			if says[a] {
				return true
			}
		}
		return false
	}
	startOfOp := time.Now().Add(time.Duration(c.Draw("start-of-op", 48)) * time.Hour)
	nchTotal := 0

	addChanges := func() {
		nch := 1 + c.Draw("nchanges", 8)
		for i := 0; i < nch; i++ {
			chg := st.NewChange("k", "c"+strconv.Itoa(nchTotal))
			nchTotal++
			nt := c.Draw("ntasks", 4)
			var ts []*state.Task
			for j := 0; j < nt; j++ {
				t := st.NewTask("x", "t")
				if j > 0 && c.Draw("edge", 2) == 1 {
					t.WaitFor(ts[j-1])
				}
				chg.AddTask(t)
				ts = append(ts, t)
			}
			if c.Draw("attr", 3) == 2 {
				chg.Set("pend", true)
				for i := 1; i < npred; i++ {
					if c.Draw("attr-more", 2) == 1 {
						chg.Set(attrNames[i], true)
					}
				}
			} else if npred > 1 && c.Draw("attr-other-only", 4) == 3 {
				chg.Set(attrNames[1], true)
			}
			if nt > 0 && c.Draw("ready?", 3) != 0 {
				for _, t := range ts {
					t.SetStatus([]state.Status{state.DoneStatus, state.ErrorStatus, state.UndoneStatus, state.HoldStatus}[c.Draw("final", 4)])
				}
			} else if nt > 0 && c.Draw("partly?", 2) == 1 {
				ts[0].SetStatus(state.DoneStatus)
			}
			c.Logf("change %s tasks=%d ready=%v attr=%v/%v/%v", chg.ID(), nt, chg.IsReady(), chg.Has("pend"), chg.Has("pend-b"), chg.Has("pend-c"))
			st.Unlock()
			if c.Draw("gap?", 3) != 0 {
				time.Sleep(time.Duration(c.Draw("gap", 30*60)) * time.Minute)
			}
			st.Lock()
		}
		for i := 0; i < c.Draw("unlinked", 3); i++ {
			st.NewTask("x", "unlinked")
		}
		// notices and warnings of various ages
		for i := 0; i < c.Draw("nnotices", 3); i++ {
			var nopts *state.AddNoticeOptions
			if c.Draw("notice-repeat-after", 3) == 2 {
				// (a repeat-after longer than the expiry must not keep the notice alive)
				nopts = &state.AddNoticeOptions{RepeatAfter: time.Duration(1+c.Draw("notice-repeat-days", 40)) * 24 * time.Hour}
			}
			st.AddNotice(nil, state.WarningNotice, "k"+strconv.Itoa(c.Draw("nk", 4)), nopts)
		}
		for i := 0; i < c.Draw("nwarnings", 3); i++ {
			st.Warnf("warning %d", c.Draw("wk", 4))
		}
	}

	rounds := 1 + c.Draw("rounds", 3)
	for r := 0; r < rounds && len(c.Violations) == 0; r++ {
		addChanges()
		st.Unlock()
		time.Sleep(time.Duration(c.Draw("wait", 9*24*60)) * time.Minute)
		if c.Draw("restart?", 3) == 2 && be.last != nil {
			// snapd restarts: the state is read back from the last checkpoint
			nst, err := state.ReadState(be, bytes.NewReader(be.last))
			if err != nil {
				c.Fatalf("C09: cannot read state back: %v", err)
			}
			st = nst
			c.Count("probe:restart-before-prune")
			c.Logf("restart")
		}
		st.Lock()
		register()

		pruneWait := time.Duration(1+c.Draw("prune-wait", 72)) * time.Hour
		abortWait := time.Duration(1+c.Draw("abort-wait", 120)) * time.Hour
		maxReady := c.Draw("max-ready", 6)
		now := time.Now()
		before := map[string]*verifChgInfo{}
		statusBefore := map[string]state.Status{}
		var ids []string
		for _, ch := range st.Changes() {
			ci := &verifChgInfo{id: ch.ID(), spawn: ch.SpawnTime(), ready: ch.ReadyTime(), isReady: !ch.ReadyTime().IsZero(), empty: len(ch.Tasks()) == 0}
			for i := 0; i < npred; i++ {
				if ch.Has(attrNames[i]) {
					ci.attrs = append(ci.attrs, attrNames[i])
				}
			}
			ci.attr = len(ci.attrs) > 0
			pendingSays := pendingFor(ci.attrs)
			_ = pendingSays
			for _, t := range ch.Tasks() {
				ci.tasks = append(ci.tasks, t.ID())
				statusBefore[t.ID()] = t.Status()
			}
			before[ch.ID()] = ci
			ids = append(ids, ch.ID())
		}
		noticesBefore := map[string]bool{}
		for _, n := range st.Notices(nil) {
			noticesBefore[n.String()] = true
		}
		type winfo struct{ expired bool }
		nTasksBefore := st.TaskCount()

		st.Prune(startOfOp, pruneWait, abortWait, maxReady)
		c.Nontrivial()
		c.Count("prune-calls")
		c.Logf("prune now=+%v startOfOp=+%v pruneWait=%v abortWait=%v maxReady=%d pendingSays=%v changes=%d", now.Sub(t0), startOfOp.Sub(t0), pruneWait, abortWait, maxReady, fmt.Sprint(says), len(ids))

		after := map[string]bool{}
		for _, ch := range st.Changes() {
			after[ch.ID()] = true
			if before[ch.ID()] == nil {
				c.Violate("C09/change-appeared", "change %s appeared during prune", ch.ID())
			}
		}
		var readyList []*verifChgInfo
		for _, id := range ids {
			if before[id].isReady {
				readyList = append(readyList, before[id])
			}
		}
		removedTasks := 0
		for _, id := range ids {
			ci := before[id]
			removed := !after[id]
			effSpawn := ci.spawn
			if effSpawn.Before(startOfOp) {
				effSpawn = startOfOp
			}
			c.Logf("  chg %s ready=%v readyAge=%v spawnAge=%v empty=%v attr=%v removed=%v", id, ci.isReady, now.Sub(ci.ready), now.Sub(ci.spawn), ci.empty, ci.attr, removed)
			if !ci.isReady {
				if removed {
					c.Count("probe:removed-empty-unready")
					if !(ci.empty && ci.spawn.Before(now.Add(-pruneWait))) {
						c.Violate("C09/unready-change-removed", "unfinished change %s (empty=%v, age %v, retention %v) was removed", id, ci.empty, now.Sub(ci.spawn), pruneWait)
					}
					continue
				}
				ch := st.Change(id)
				abortedNow := false
				for _, t := range ch.Tasks() {
					if t.Status() != statusBefore[t.ID()] {
						abortedNow = true
					}
				}
				pendingSays := pendingFor(ci.attrs)
				mayAbort := effSpawn.Before(now.Add(-abortWait)) && !(ci.attr && pendingSays)
				if abortedNow {
					c.Count("probe:aborted-old-unready")
					if !mayAbort {
						cls := "C09/aborted-too-early"
						if ci.attr && pendingSays {
							cls = "C09/aborted-despite-pending-predicate"
						}
						c.Violate(cls, "unfinished change %s aborted: existed for %v (start of operation %v ago), abort period %v, predicate pending=%v", id, now.Sub(ci.spawn), now.Sub(startOfOp), abortWait, ci.attr && pendingSays)
					}
				} else if ci.attr && pendingSays && effSpawn.Before(now.Add(-abortWait)) {
					c.Count("probe:kept-by-pending-predicate")
				}
				for _, tid := range ci.tasks {
					if st.Task(tid) == nil {
						c.Violate("C09/task-of-kept-change-removed", "task %s of unfinished change %s vanished", tid, id)
					}
				}
				continue
			}
			if removed {
				c.Count("probe:removed-ready")
				old := ci.ready.Before(now.Add(-pruneWait))
				if !old && len(readyList) <= maxReady {
					c.Violate("C09/young-ready-change-removed", "ready change %s removed after %v (retention %v) with %d ready changes (limit %d)", id, now.Sub(ci.ready), pruneWait, len(readyList), maxReady)
				}
				if !old {
					c.Count("probe:removed-by-limit")
				}
				for _, tid := range ci.tasks {
					removedTasks++
					if st.Task(tid) != nil {
						c.Violate("C09/tasks-left-behind", "task %s of removed change %s is still present", tid, id)
					}
				}
			} else {
				for _, tid := range ci.tasks {
					if st.Task(tid) == nil {
						c.Violate("C09/task-of-kept-change-removed", "task %s of kept change %s vanished", tid, id)
					}
				}
			}
		}
		// removal for the limit is only justified while more ready changes than
		// the limit remain: count what was removed for age and what was not
		oldRemoved, youngRemoved := 0, 0
		for _, ci := range readyList {
			if !after[ci.id] {
				if ci.ready.Before(now.Add(-pruneWait)) {
					oldRemoved++
				} else {
					youngRemoved++
				}
			}
		}
		allowed := len(readyList) - oldRemoved - maxReady
		if allowed < 0 {
			allowed = 0
		}
		if youngRemoved > allowed {
			c.Violate("C09/removed-below-limit", "%d ready changes younger than the retention period were removed; with %d ready changes, %d of them removed for age, and a limit of %d only %d removals are justified by the limit", youngRemoved, len(readyList), oldRemoved, maxReady, allowed)
		}
		// oldest first among those removed because of the limit
		var youngestRemoved, oldestKept time.Time
		for _, ci := range readyList {
			if after[ci.id] {
				if oldestKept.IsZero() || ci.ready.Before(oldestKept) {
					oldestKept = ci.ready
				}
			} else if ci.ready.After(youngestRemoved) {
				youngestRemoved = ci.ready
			}
		}
		if !youngestRemoved.IsZero() && !oldestKept.IsZero() && oldestKept.Before(youngestRemoved) && !youngestRemoved.Before(now.Add(-pruneWait)) {
			c.Violate("C09/not-oldest-first", "a ready change from %v ago was kept while one from %v ago was removed for the limit", now.Sub(oldestKept), now.Sub(youngestRemoved))
		}
		// TaskCount also counts tasks that are no longer reachable through a change
		if got := st.TaskCount(); got > nTasksBefore-removedTasks {
			c.Violate("C09/tasks-left-behind", "%d tasks belonged to the removed changes but the number of stored tasks only went from %d to %d", removedTasks, nTasksBefore, got)
		}
		// notices and warnings: gone iff expired (7 days / warning expiry)
		for _, n := range st.Notices(nil) {
			// (aborting a change legitimately records change-update notices)
			b, _ := json.Marshal(n)
			var jn struct {
				LastOccurred time.Time `json:"last-occurred"`
				ExpireAfter  string    `json:"expire-after"`
			}
			json.Unmarshal(b, &jn)
			if ea, err := time.ParseDuration(jn.ExpireAfter); err == nil && jn.LastOccurred.Add(ea).Before(now) {
				c.Violate("C09/expired-notice-kept", "%s last occurred %v ago, expires after %v, still present after prune", n.String(), now.Sub(jn.LastOccurred), ea)
			}
			c.Count("notices-kept")
		}
		if len(st.Notices(nil)) < len(noticesBefore) {
			c.Count("probe:notice-expired-and-removed")
		}
		for _, w := range st.AllWarnings() {
			if !w.ExpiredBefore(now) {
				continue
			}
			c.Violate("C09/expired-warning-kept", "warning %q still present after prune although expired", w.String())
		}
		c.Add("tasks-removed", int64(removedTasks))
	}
	c.SimTime = time.Since(t0)
	_ = fmt.Sprint
	_ = sort.Strings
}

var verifEngineC09 = &verifsim.Engine{
	Name:   "A/C09: overlord/state Prune over generated histories and clock steps",
	Bubble: true,
	Run:    verifRunC09,
	Real:   []string{"overlord/state: State.Prune, AbortUnreadyLanes, pending-change predicates, notice/warning expiry", "time (synctest fake clock, steps up to 9 days)"},
	Stubs:  []string{"histories set task statuses directly (ready/partly done/untouched changes) rather than through handlers", "the overlord's 10 minute prune ticker (Prune called directly with drawn parameters)"},
}
