package state_test

import (
	"testing"

	"github.com/snapcore/snapd/internal/verifsim"
)

func TestVerifSim(t *testing.T) {
	verifsim.Main(t, map[string]*verifsim.Engine{
		"C01": verifEngineA,
		"C02": verifEngineA,
		"C03": verifEngineA,
		"C04": verifEngineA,
		"C05": verifEngineC05,
	})
}
