package state_test

import (
	"testing"

	"github.com/snapcore/snapd/internal/verifsim"
)

func TestVerifSim(t *testing.T) {
	verifsim.Main(t, map[string]*verifsim.Engine{
		"C01": verifEngineA,
		"C02": verifEngineA,
		"C03": verifEngineA,
		"C04": verifEngineA,
		"C05": verifEngineC05,
		"C08": verifEngineC08,
		"C09": verifEngineC09,
	})
}
