package state_test

// C05: persisted state reloads to the same state; ids are never reused.
// Histories of direct API operations (the ones the engine itself performs)
// with several save/reload cycles in one run.

import (
	"bytes"
	"encoding/json"
	"fmt"
	"sort"
	"strconv"
	"strings"
	"time"

	"github.com/snapcore/snapd/internal/verifsim"
	"github.com/snapcore/snapd/overlord/state"
)

// verifCanonicalOrder pins State.Tasks()/Changes() to numeric id order
// (Go map order otherwise decides Prune's tie-breaks).
func verifCanonicalOrder() {
	state.VerifOrderTasks = func(ts []*state.Task) {
		sort.Slice(ts, func(i, j int) bool { return verifNumLess(ts[i].ID(), ts[j].ID()) })
	}
	state.VerifOrderChanges = func(cs []*state.Change) {
		sort.Slice(cs, func(i, j int) bool { return verifNumLess(cs[i].ID(), cs[j].ID()) })
	}
}

type verifRTBackend struct{ last []byte }

func (b *verifRTBackend) Checkpoint(d []byte) error    { b.last = append([]byte(nil), d...); return nil }
func (b *verifRTBackend) EnsureBefore(d time.Duration) {}

// verifObserveChanges uses Change.Status(), which can append to task logs;
// it is therefore always called after verifObserveRest.
func verifObserveChanges(st *state.State) []string {
	var out []string
	chgs := st.Changes()
	sort.Slice(chgs, func(i, j int) bool { return verifNumLess(chgs[i].ID(), chgs[j].ID()) })
	for _, c := range chgs {
		var tids []string
		var tlogs []string
		for _, t := range c.Tasks() {
			tids = append(tids, t.ID())
			// logs first: Change.Status() may itself log (cycle detection)
			tlogs = append(tlogs, strings.Join(t.Log(), "|"))
		}
		var d1 interface{}
		c.Get("k", &d1)
		out = append(out, fmt.Sprintf("chg %s kind=%s sum=%s status=%v ready=%v clean=%v tasks=%v data=%v spawn=%s readyT=%s err=%v", c.ID(), c.Kind(), c.Summary(), c.Status(), c.IsReady() || len(tids) == 0, c.IsClean(), tids, d1, c.SpawnTime().UTC().Format(time.RFC3339Nano), c.ReadyTime().UTC().Format(time.RFC3339Nano), c.Err()))
		_ = tlogs
	}
	return out
}

func verifObserveRest(st *state.State) []string {
	var out []string
	tasks := st.Tasks()
	sort.Slice(tasks, func(i, j int) bool { return verifNumLess(tasks[i].ID(), tasks[j].ID()) })
	for _, t := range tasks {
		var w, h []string
		for _, x := range t.WaitTasks() {
			w = append(w, x.ID())
		}
		for _, x := range t.HaltTasks() {
			h = append(h, x.ID())
		}
		var d1 interface{}
		t.Get("k", &d1)
		l, done, total := t.Progress()
		ws := "-"
		if t.Status() == state.WaitStatus {
			ws = t.WaitedStatus().String()
		}
		// Change.Status() appends a "detected cyclic dependencies" line to
		// task logs while it computes a wait status, i.e. observing changes
		// the log; those lines are left out of the comparison
		var tlog []string
		for _, l := range t.Log() {
			if !strings.Contains(l, "detected cyclic dependencies") {
				tlog = append(tlog, l)
			}
		}
		out = append(out, fmt.Sprintf("task %s kind=%s sum=%s status=%v waited=%s clean=%v waits=%v halts=%v lanes=%v \x00log=%v\x00 at=%s data=%v prog=%s/%d/%d spawn=%s ready=%s doing=%v undoing=%v chg=%s", t.ID(), t.Kind(), t.Summary(), t.Status(), ws, t.IsClean(), w, h, t.Lanes(), tlog, t.AtTime().UTC().Format(time.RFC3339Nano), d1, l, done, total, t.SpawnTime().UTC().Format(time.RFC3339Nano), t.ReadyTime().UTC().Format(time.RFC3339Nano), t.DoingTime(), t.UndoingTime(), t.Change().ID()))
	}
	out = append(out, fmt.Sprintf("taskcount %d", st.TaskCount()))
	var ns []string
	for _, n := range st.Notices(nil) {
		b, _ := json.Marshal(n)
		ns = append(ns, "notice "+string(b))
	}
	sort.Strings(ns)
	out = append(out, ns...)
	var ws []string
	for _, w := range st.AllWarnings() {
		b, _ := json.Marshal(w)
		ws = append(ws, "warning "+string(b))
	}
	sort.Strings(ws)
	out = append(out, ws...)
	pw, pts := st.PendingWarnings()
	var pws []string
	for _, w := range pw {
		pws = append(pws, w.String())
	}
	sort.Strings(pws)
	out = append(out, fmt.Sprintf("pending-warnings %v at %s", pws, pts.UTC().Format(time.RFC3339Nano)))
	var dd interface{}
	st.Get("gk", &dd)
	out = append(out, fmt.Sprintf("data gk=%v", dd))
	return out
}

func verifRunC05(c *verifsim.Ctx) {
	verifCanonicalOrder()
	defer func() { state.VerifOrderTasks = nil; state.VerifOrderChanges = nil }()
	t0 := time.Now()
	be := &verifRTBackend{}
	st := state.New(be)
	ids := map[string]bool{}
	lanes := map[int]bool{}
	noticeIDs := map[string]bool{}
	var allTasks []*state.Task
	var allChanges []*state.Change

	step := func() {
		st.Lock()
		defer st.Unlock()
		switch c.Draw("op", 12) {
		case 0:
			ch := st.NewChange("kind"+strconv.Itoa(c.Draw("kind", 3)), "summary")
			if ids["c"+ch.ID()] {
				c.Violate("C05/change-id-reused", "change id %s handed out twice", ch.ID())
			}
			ids["c"+ch.ID()] = true
			allChanges = append(allChanges, ch)
			c.Logf("new change %s", ch.ID())
		case 1, 2:
			t := st.NewTask("tk"+strconv.Itoa(c.Draw("tkind", 3)), "tsum")
			if ids["t"+t.ID()] {
				c.Violate("C05/task-id-reused", "task id %s handed out twice", t.ID())
			}
			ids["t"+t.ID()] = true
			allTasks = append(allTasks, t)
			c.Logf("new task %s", t.ID())
			if len(allChanges) > 0 && c.Draw("link", 4) != 3 {
				ch := allChanges[c.Draw("which-chg", len(allChanges))]
				if st.Change(ch.ID()) != nil && !ch.IsReady() {
					ch.AddTask(t)
					c.Logf("  added to change %s", ch.ID())
				}
			}
		case 3:
			if len(allTasks) >= 2 {
				a, b := allTasks[c.Draw("wa", len(allTasks))], allTasks[c.Draw("wb", len(allTasks))]
				if a != b && verifNumLess(b.ID(), a.ID()) && a.Change() != nil && a.Change() == b.Change() {
					a.WaitFor(b)
					c.Logf("task %s waits for %s", a.ID(), b.ID())
				}
			}
		case 4:
			l := st.NewLane()
			if lanes[l] {
				c.Violate("C05/lane-id-reused", "lane %d handed out twice", l)
			}
			lanes[l] = true
			if len(allTasks) > 0 {
				t := allTasks[c.Draw("lane-task", len(allTasks))]
				t.JoinLane(l)
				c.Logf("task %s joins lane %d", t.ID(), l)
				if c.Draw("also-default-lane", 4) == 3 {
					// (as the "join every lane of that task" idiom does for a task in no lane)
					t.JoinLane(0)
					c.Logf("task %s joins lane 0 explicitly", t.ID())
				}
			}
		case 5:
			if len(allTasks) > 0 {
				t := allTasks[c.Draw("st-task", len(allTasks))]
				k := c.Draw("st-kind", 4)
				if ch := t.Change(); ch != nil && ch.IsReady() && k < 2 {
					k = 2 // a ready change never goes back (engine invariant)
				}
				switch k {
				case 0:
					s := []state.Status{state.DoStatus, state.DoingStatus, state.DoneStatus, state.ErrorStatus, state.HoldStatus, state.UndoStatus, state.UndoneStatus, state.AbortStatus}[c.Draw("status", 8)]
					t.SetStatus(s)
					c.Logf("task %s status %v", t.ID(), s)
				case 1:
					s := []state.Status{state.DoneStatus, state.UndoneStatus, state.DoStatus}[c.Draw("waited", 3)]
					t.SetToWait(s)
					c.Logf("task %s wait(%v)", t.ID(), s)
					c.Count("probe:task-in-wait")
				case 2:
					t.Logf("log %d", c.Draw("logn", 100))
				case 3:
					t.Errorf("err %d", c.Draw("errn", 100))
				}
			}
		case 6:
			if len(allTasks) > 0 {
				t := allTasks[c.Draw("set-task", len(allTasks))]
				switch c.Draw("set-kind", 3) {
				case 0:
					t.Set("k", map[string]interface{}{"x": c.Draw("x", 10)})
				case 1:
					t.At(time.Now().Add(time.Duration(c.Draw("at", 100)) * time.Minute))
					c.Count("probe:task-scheduled")
				case 2:
					t.SetProgress("lbl", 1+c.Draw("pdone", 3), 3)
				}
			}
		case 7:
			if len(allChanges) > 0 {
				ch := allChanges[c.Draw("cset", len(allChanges))]
				if st.Change(ch.ID()) != nil {
					ch.Set("k", "v"+strconv.Itoa(c.Draw("cv", 9)))
				}
			}
		case 8:
			var uid *uint32
			if c.Draw("uid?", 2) == 1 {
				u := uint32(1000 + c.Draw("uid", 2))
				uid = &u
			}
			var ra time.Duration
			if c.Draw("ra?", 2) == 1 {
				ra = time.Duration(c.Draw("ra", 100)) * time.Minute
			}
			typ := []state.NoticeType{state.WarningNotice, state.ChangeUpdateNotice, state.RefreshInhibitNotice}[c.Draw("ntype", 3)]
			key := "key" + strconv.Itoa(c.Draw("nkey", 3))
			if typ == state.RefreshInhibitNotice {
				key = "-"
			}
			id, err := st.AddNotice(uid, typ, key, &state.AddNoticeOptions{RepeatAfter: ra, Data: map[string]string{"d": strconv.Itoa(c.Draw("nd", 5))}})
			if err == nil {
				noticeIDs[id] = true
				c.Logf("notice %s", id)
			}
		case 9:
			switch c.Draw("warn-kind", 4) {
			case 0:
				st.Warnf("warning %d", c.Draw("warn", 4))
			case 1: // explicit options, incl. "always repeat"
				ra := []time.Duration{0, time.Minute, 36 * time.Hour}[c.Draw("warn-repeat-after", 3)]
				opts := &state.AddWarningOptions{RepeatAfter: ra}
				if c.Draw("warn-explicit-time", 3) == 2 {
					// the caller's own occurrence time, possibly older than the first one recorded
					opts.Time = time.Now().Add(-time.Duration(c.Draw("warn-time-back-min", 3*24*60)) * time.Minute)
				}
				st.AddWarning("warning opt "+strconv.Itoa(c.Draw("warn", 4)), opts)
			case 2:
				st.AddWarning("warning nil-options "+strconv.Itoa(c.Draw("warn", 3)), nil)
			case 3: // acknowledge what was shown / drop one
				if c.Draw("ack-or-remove", 2) == 0 {
					_, ts := st.PendingWarnings()
					st.OkayWarnings(ts)
				} else {
					st.RemoveWarning("warning " + strconv.Itoa(c.Draw("warn", 4)))
				}
			}
		case 10:
			st.Set("gk", c.Draw("gk", 100))
		case 11:
			st.Prune(time.Now().Add(-time.Hour), time.Duration(c.Draw("pw", 48))*time.Hour, time.Duration(c.Draw("aw", 96))*time.Hour, c.Draw("max", 5))
			c.Count("probe:prune")
		}
	}

	cycles := 1 + c.Draw("cycles", 3)
	for cy := 0; cy < cycles && len(c.Violations) == 0; cy++ {
		n := 3 + c.Draw("nops", 50)
		for i := 0; i < n; i++ {
			step()
			if c.Draw("sleep?", 4) == 3 {
				d := time.Duration(c.Draw("sleep", 300)) * time.Minute
				time.Sleep(d)
			}
		}
		// the last checkpoint equals the observed state: every operation above
		// ran in its own lock/unlock session, and a modifying unlock writes; in
		// half of the cycles one more write is forced first
		st.Lock()
		forced := c.Draw("force-write-before-reload", 2) == 0
		if forced {
			st.Set("verif-mark", cy)
		} else {
			c.Count("probe:reload-of-the-checkpoint-the-operations-left")
		}
		obs1 := verifObserveRest(st)
		st.Unlock()
		payload := append([]byte(nil), be.last...)
		st.Lock()
		obs1 = append(obs1, verifObserveChanges(st)...)
		st.Unlock()
		st2, err := state.ReadState(be, bytes.NewReader(payload))
		if err != nil {
			c.Violate("C05/reload-failed", "ReadState: %v", err)
			break
		}
		c.Count("reloads")
		c.Nontrivial()
		c.Logf("reload %d: %d bytes, %d observed lines", cy, len(payload), len(obs1))
		st2.Lock()
		obs2 := verifObserveRest(st2)
		obs2 = append(obs2, verifObserveChanges(st2)...)
		st2.Unlock()
		// Change.Status() logs "detected cyclic dependencies" on some task
		// configurations only direct status setting produces; ReadState itself
		// calls it (finishUnmarshal), and task logs are capped, so for such
		// changes reading the state evicts older log lines. Logs of tasks in
		// those changes are left out of the comparison.
		noisy := map[string]bool{}
		for _, stx := range []*state.State{st, st2} {
			stx.Lock()
			for _, t := range stx.Tasks() {
				for _, l := range t.Log() {
					if strings.Contains(l, "detected cyclic dependencies") {
						noisy[t.Change().ID()] = true
					}
				}
			}
			stx.Unlock()
		}
		mask := func(obs []string) []string {
			out := make([]string, len(obs))
			for i, l := range obs {
				a := strings.Index(l, "\x00log=")
				b := strings.LastIndex(l, "\x00")
				if a >= 0 && b > a {
					chg := l[strings.LastIndex(l, "chg=")+4:]
					if noisy[chg] {
						l = l[:a] + "log=<not compared>" + l[b+1:]
						c.Count("probe:logs-not-compared-for-cyclic-false-positive")
					} else {
						l = l[:a] + l[a+1:b] + l[b+1:]
					}
				}
				out[i] = l
			}
			return out
		}
		obs1, obs2 = mask(obs1), mask(obs2)
		if !forced {
			// Task.SetProgress deliberately does not ask for a checkpoint unless
			// the progress is final: unfinished progress may lag in a checkpoint
			// that no other write refreshed
			for _, o := range [][]string{obs1, obs2} {
				for i, l := range o {
					if j := strings.Index(l, " prog="); j >= 0 {
						k := strings.Index(l[j+1:], " ")
						if k < 0 {
							o[i] = l[:j]
						} else {
							o[i] = l[:j] + l[j+1+k:]
						}
					}
				}
			}
		}
		if len(obs1) != len(obs2) {
			c.Violate("C05/reload-differs", "observation length differs %d vs %d", len(obs1), len(obs2))
		} else {
			for i := range obs1 {
				if obs1[i] != obs2[i] {
					c.Violate("C05/reload-differs", "saved:  %s\nreload: %s", obs1[i], obs2[i])
					break
				}
			}
		}
		c.Add("observed-lines-compared", int64(len(obs1)))
		// continue on the reloaded state: re-resolve the handles
		st = st2
		st.Lock()
		var nt []*state.Task
		for _, t := range allTasks {
			if x := st.Task(t.ID()); x != nil {
				nt = append(nt, x)
			}
		}
		var nc []*state.Change
		for _, ch := range allChanges {
			if x := st.Change(ch.ID()); x != nil {
				nc = append(nc, x)
			}
		}
		allTasks, allChanges = nt, nc
		// fresh ids right after the reload
		ch := st.NewChange("x", "x")
		if ids["c"+ch.ID()] {
			c.Violate("C05/change-id-reused", "change id %s handed out again after reload", ch.ID())
		}
		ids["c"+ch.ID()] = true
		allChanges = append(allChanges, ch)
		t := st.NewTask("x", "x")
		if ids["t"+t.ID()] {
			c.Violate("C05/task-id-reused", "task id %s handed out again after reload", t.ID())
		}
		ids["t"+t.ID()] = true
		ch.AddTask(t)
		allTasks = append(allTasks, t)
		l := st.NewLane()
		if lanes[l] {
			c.Violate("C05/lane-id-reused", "lane %d handed out again after reload", l)
		}
		lanes[l] = true
		nid, _ := st.AddNotice(nil, state.WarningNotice, "brand-new-key-"+strconv.Itoa(cy), nil)
		if noticeIDs[nid] {
			c.Violate("C05/notice-id-reused", "notice id %s handed out again after reload", nid)
		}
		noticeIDs[nid] = true
		st.Unlock()
	}
	c.SimTime = time.Since(t0)
}

var verifEngineC05 = &verifsim.Engine{
	Name:   "A/C05: overlord/state save + ReadState round trips over generated API histories",
	Bubble: true,
	Run:    verifRunC05,
	Real:   []string{"overlord/state: State/Change/Task/notices/warnings JSON marshalling, ReadState, id counters, Prune", "time (synctest fake clock)"},
	Stubs:  []string{"state.Backend (keeps the last checkpoint)", "history generator applies statuses directly instead of running handlers (engine A's restarts cover runner-produced histories)"},
}
