package state_test

// C08: notices are delivered exactly once to polling clients, only to their
// owner, and waiting clients are woken. Real AddNotice/Notices/WaitNotices
// and filters; clients are simulator tasks that build the filter the way
// daemon.getNotices does. The oracle is timestamp free: it numbers
// occurrence/repeat events itself.

import (
	"bytes"
	"context"
	"encoding/json"
	"fmt"
	"sort"
	"strconv"
	"strings"
	"testing/synctest"
	"time"

	"github.com/snapcore/snapd/internal/verifsim"
	"github.com/snapcore/snapd/overlord/state"
)

type verifNModel struct {
	uid      *uint32
	typ      state.NoticeType
	key      string
	lastRep  int // event number of the latest (first occurrence or) repeat
	lastRepT time.Time
	realRep  string // last-repeated as reported by the implementation
}

type verifNClient struct {
	name   string
	uid    uint32 // request uid
	filter *uint32
	all    bool // root with users=all
	types  []state.NoticeType
	keys   []string
	cursor time.Time
	curEv  int
}

type verifNWaiter struct {
	ci     int
	done   chan []*state.Notice
	cancel context.CancelFunc
}

func verifNoticeFields(n *state.Notice) (uid *uint32, typ, key, lastRep string) {
	b, _ := json.Marshal(n)
	var j struct {
		UserID       *uint32 `json:"user-id"`
		Type         string  `json:"type"`
		Key          string  `json:"key"`
		LastRepeated string  `json:"last-repeated"`
	}
	json.Unmarshal(b, &j)
	return j.UserID, j.Type, j.Key, j.LastRepeated
}

func verifNKey(uid *uint32, t string, k string) string {
	u := "pub"
	if uid != nil {
		u = strconv.Itoa(int(*uid))
	}
	return u + "/" + t + "/" + k
}

func verifRunC08(c *verifsim.Ctx) {
	verifCanonicalOrder()
	defer func() { state.VerifOrderTasks = nil; state.VerifOrderChanges = nil }()
	t0 := time.Now()
	be := &verifRTBackend{}
	st := state.New(be)
	model := map[string]*verifNModel{}
	evno := 0
	types := []state.NoticeType{state.WarningNotice, state.ChangeUpdateNotice, state.SnapRunInhibitNotice}
	keys := []string{"k1", "k2", "k3"}
	uids := []uint32{0, 1000, 1001}

	// clients
	var clients []*verifNClient
	ncl := 2 + c.Draw("nclients", 3)
	for i := 0; i < ncl; i++ {
		cl := &verifNClient{name: fmt.Sprintf("client%d", i), uid: uids[c.Draw("client-uid", 3)]}
		u := cl.uid
		cl.filter = &u
		if cl.uid == 0 {
			switch c.Draw("root-mode", 3) {
			case 1:
				cl.all = true
				cl.filter = nil
			case 2:
				x := uids[1+c.Draw("root-user-id", 2)]
				cl.filter = &x
			}
		}
		if c.Draw("types?", 2) == 1 {
			cl.types = []state.NoticeType{types[c.Draw("ftype", 3)]}
		}
		if c.Draw("keys?", 3) == 2 {
			cl.keys = []string{keys[c.Draw("fk1", 3)], keys[c.Draw("fk2", 3)]}
		}
		clients = append(clients, cl)
		c.Logf("%s uid=%d all=%v filter=%v types=%v keys=%v", cl.name, cl.uid, cl.all, cl.filter != nil, cl.types, cl.keys)
	}
	matches := func(cl *verifNClient, m *verifNModel) bool {
		if !cl.all && m.uid != nil && *m.uid != *cl.filter {
			return false
		}
		if len(cl.types) > 0 {
			ok := false
			for _, t := range cl.types {
				if t == m.typ {
					ok = true
				}
			}
			if !ok {
				return false
			}
		}
		if len(cl.keys) > 0 {
			ok := false
			for _, k := range cl.keys {
				if k == m.key {
					ok = true
				}
			}
			if !ok {
				return false
			}
		}
		return true
	}
	filterOf := func(cl *verifNClient) *state.NoticeFilter {
		f := &state.NoticeFilter{Types: cl.types, Keys: cl.keys, After: cl.cursor}
		if cl.filter != nil {
			u := *cl.filter
			f.UserID = &u
		}
		return f
	}
	checkResp := func(cl *verifNClient, got []*state.Notice, how string) {
		type ex struct {
			k  string
			ev int
		}
		var want []ex
		for k, m := range model {
			if matches(cl, m) && m.lastRep > cl.curEv {
				want = append(want, ex{k, m.lastRep})
			}
		}
		sort.Slice(want, func(i, j int) bool { return want[i].ev < want[j].ev })
		var gk, wk []string
		for _, n := range got {
			uid, typ, key, _ := verifNoticeFields(n)
			gk = append(gk, verifNKey(uid, typ, key))
		}
		for _, w := range want {
			wk = append(wk, w.k)
		}
		c.Logf("%s %s cursorEv=%d got %v", cl.name, how, cl.curEv, gk)
		c.Count("responses-checked")
		if strings.Join(gk, ",") != strings.Join(wk, ",") {
			// classify
			cls := "C08/response-differs"
			gset := map[string]int{}
			for _, g := range gk {
				gset[g]++
			}
			wset := map[string]bool{}
			for _, x := range wk {
				wset[x] = true
			}
			for g, n := range gset {
				if n > 1 {
					cls = "C08/duplicate-in-response"
				}
				if m := model[g]; m != nil && !matches(cl, m) {
					if m.uid != nil && !cl.all && *m.uid != *cl.filter {
						cls = "C08/leaked-to-other-user"
					}
				}
			}
			if cls == "C08/response-differs" {
				missing, extra := false, false
				for _, x := range wk {
					if gset[x] == 0 {
						missing = true
					}
				}
				for g := range gset {
					if !wset[g] {
						extra = true
					}
				}
				switch {
				case missing && !extra:
					cls = "C08/notice-missed"
				case extra && !missing:
					cls = "C08/notice-delivered-again"
				case !missing && !extra:
					cls = "C08/wrong-order"
				}
			}
			c.Violate(cls, "%s (uid=%d all=%v types=%v keys=%v cursor event %d) %s: got %v, want %v", cl.name, cl.uid, cl.all, cl.types, cl.keys, cl.curEv, how, gk, wk)
			return
		}
		if len(want) > 0 {
			cl.curEv = want[len(want)-1].ev
			_, _, _, lr := verifNoticeFields(got[len(got)-1])
			t, err := time.Parse(time.RFC3339Nano, lr)
			if err != nil {
				c.Fatalf("cannot parse last-repeated %q", lr)
			}
			cl.cursor = t
		}
	}

	var waiting []*verifNWaiter
	cancelAll := func() {
		for _, w := range waiting {
			w.cancel()
		}
		synctest.Wait()
		waiting = nil
	}
	defer cancelAll()
	isWaiting := func(ci int) bool {
		for _, w := range waiting {
			if w.ci == ci {
				return true
			}
		}
		return false
	}
	// after an event: every waiter whose filter matches a new repeat must have returned
	settleWaiters := func(rep bool, m *verifNModel, timeoutOK bool) {
		synctest.Wait()
		var still []*verifNWaiter
		for _, w := range waiting {
			cl := clients[w.ci]
			select {
			case got := <-w.done:
				w.cancel()
				if len(got) == 0 {
					if !timeoutOK {
						c.Violate("C08/waiter-returned-empty", "%s returned no notices although its timeout had not elapsed", cl.name)
					} else {
						c.Logf("%s timed out", cl.name)
						c.Count("probe:waiter-timeout")
					}
					continue
				}
				if timeoutOK && !rep {
					c.Violate("C08/waiter-spurious", "%s returned notices although nothing occurred", cl.name)
					continue
				}
				c.Count("probe:waiter-woken")
				checkResp(cl, got, "woken")
			default:
				if rep && m != nil && matches(cl, m) {
					c.Violate("C08/waiter-not-woken", "%s is still waiting after matching notice %s occurred", cl.name, verifNKey(m.uid, string(m.typ), m.key))
				}
				still = append(still, w)
			}
		}
		waiting = still
	}

	nops := 10 + c.Draw("nops", 50)
	for i := 0; i < nops && len(c.Violations) == 0; i++ {
		switch c.Draw("op", 9) {
		case 0, 1, 2, 3: // add
			var uid *uint32
			if c.Draw("user?", 2) == 1 {
				u := uids[c.Draw("uid", 3)]
				uid = &u
			}
			t := types[c.Draw("type", 3)]
			k := keys[c.Draw("key", 3)]
			var ra time.Duration
			if c.Draw("ra?", 2) == 1 {
				ra = time.Duration(1+c.Draw("ra", 120)) * time.Minute
			}
			now := time.Now()
			st.Lock()
			_, err := st.AddNotice(uid, t, k, &state.AddNoticeOptions{RepeatAfter: ra, Data: map[string]string{"n": strconv.Itoa(i)}})
			var realRep string
			for _, n := range st.Notices(nil) {
				u2, t2, k2, lr := verifNoticeFields(n)
				if verifNKey(u2, t2, k2) == verifNKey(uid, string(t), k) {
					realRep = lr
				}
			}
			st.Unlock()
			if err != nil {
				c.Fatalf("AddNotice: %v", err)
			}
			mk := verifNKey(uid, string(t), k)
			m, ok := model[mk]
			rep := false
			switch {
			case !ok:
				m = &verifNModel{uid: uid, typ: t, key: k}
				model[mk] = m
				rep = true
			case ra == 0:
				rep = true
			default:
				el := now.Sub(m.lastRepT)
				switch {
				case el > ra+time.Microsecond:
					rep = true
				case el < ra-time.Microsecond:
					rep = false
				default:
					// exactly at the boundary: "at least repeat-after" vs the
					// nanosecond bumps that keep timestamps unique; either
					// answer is allowed, adopt the implementation's
					rep = realRep != m.realRep
					c.Count("probe:repeat-after-boundary")
				}
			}
			if realRep == "" {
				c.Violate("C08/notice-not-recorded", "notice %s added but not listed", mk)
				break
			}
			if rep {
				evno++
				m.lastRep = evno
				m.lastRepT = now
				if ok {
					c.Count("probe:repeat")
				}
			} else {
				c.Count("probe:occurrence-without-repeat")
			}
			if rep != (realRep != m.realRep) && ok {
				c.Violate("C08/repeat-rule", "notice %s: documented repeat-after rule says repeat=%v (elapsed %v, repeat-after %v) but last-repeated %s -> %s", mk, rep, now.Sub(m.lastRepT), ra, m.realRep, realRep)
			}
			m.realRep = realRep
			c.Logf("add %s ra=%v repeat=%v ev=%d", mk, ra, rep, evno)
			settleWaiters(rep, m, false)
		case 4, 5: // poll
			ci := c.Draw("poll-client", len(clients))
			if isWaiting(ci) {
				continue
			}
			cl := clients[ci]
			st.Lock()
			got := st.Notices(filterOf(cl))
			st.Unlock()
			checkResp(cl, got, "poll")
		case 6: // start a waiter
			if len(waiting) >= 2 {
				continue
			}
			ci := c.Draw("wait-client", len(clients))
			if isWaiting(ci) {
				continue
			}
			cl := clients[ci]
			ctx, cancel := context.WithTimeout(context.Background(), time.Duration(1+c.Draw("timeout", 30))*time.Minute)
			w := &verifNWaiter{ci: ci, done: make(chan []*state.Notice, 1), cancel: cancel}
			f := filterOf(cl)
			cst := st
			go func() {
				cst.Lock()
				defer cst.Unlock()
				ns, _ := cst.WaitNotices(ctx, f)
				w.done <- ns
			}()
			synctest.Wait()
			select {
			case got := <-w.done:
				cancel()
				if len(got) == 0 {
					c.Violate("C08/waiter-returned-empty", "%s returned no notices immediately", cl.name)
				} else {
					checkResp(cl, got, "wait-immediate")
				}
			default:
				// nothing pending may match
				for k, m := range model {
					if matches(cl, m) && m.lastRep > cl.curEv {
						c.Violate("C08/waiter-not-woken", "%s waits although %s (event %d > cursor %d) is pending", cl.name, k, m.lastRep, cl.curEv)
					}
				}
				waiting = append(waiting, w)
				c.Logf("%s waiting", cl.name)
				c.Nontrivial()
			}
		case 7: // time passes
			d := time.Duration(c.Draw("sleep", 90)) * time.Minute
			if c.Draw("sleep-exact?", 4) == 3 {
				// land exactly on a repeat-after boundary of some notice
				d = time.Duration(1+c.Draw("sleep-exact", 120)) * time.Minute
			}
			time.Sleep(d)
			c.Logf("slept %v", d)
			settleWaiters(false, nil, true)
		case 8: // restart: state reloaded from its checkpoint
			if c.Draw("restart?", 3) != 2 {
				continue
			}
			cancelAll()
			st.Lock()
			st.Set("verif-mark", i)
			st.Unlock()
			st2, err := state.ReadState(be, bytes.NewReader(be.last))
			if err != nil {
				c.Violate("C08/reload-failed", "%v", err)
				break
			}
			st = st2
			c.Logf("restart")
			c.Count("fault:restart")
			c.Nontrivial()
		}
	}
	c.SimTime = time.Since(t0)
}

var verifEngineC08 = &verifsim.Engine{
	Name:   "A/C08: overlord/state notices under simulated clients, waiters, clock and restarts",
	Bubble: true,
	Run:    verifRunC08,
	Real:   []string{"overlord/state: AddNotice, Notices, WaitNotices (sync.Cond), NoticeFilter matching, last-repeated/repeat-after logic, notice JSON + ReadState", "context timeouts on the synctest fake clock"},
	Stubs:  []string{"HTTP layer: clients build the NoticeFilter as daemon.getNotices does (own uid + public; root: users=all or user-id=N)", "state.Backend"},
}
