package registrystate

import (
	"github.com/snapcore/snapd/asserts"
	"github.com/snapcore/snapd/overlord/state"
)

// Simulator accessor (internal test file added through the overlay).

// VerifMockAssertstateRegistry replaces the assertion lookup used by
// SetViaView/GetViaView.
func VerifMockAssertstateRegistry(f func(st *state.State, account, registryName string) (*asserts.Registry, error)) (restore func()) {
	old := assertstateRegistry
	assertstateRegistry = f
	return func() { assertstateRegistry = old }
}
