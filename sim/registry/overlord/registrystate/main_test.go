package registrystate_test

import (
	"testing"

	"github.com/snapcore/snapd/internal/verifsim"
)

func TestVerifSim(t *testing.T) {
	verifsim.Main(t, map[string]*verifsim.Engine{
		"C30": verifEngineC30,
	})
}
