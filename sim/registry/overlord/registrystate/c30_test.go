package registrystate_test

// C30: registry views enforce access and rejected writes change nothing.
//
// One run = one generated set of registries/views (literal and placeholder
// rules, nesting, read/write/read-write access, several rules mapping one
// request) and one generated sequence of requests, executed
//   mode 0: through the system entry points registrystate.SetViaView /
//           GetViaView on a real state (with save/reload cycles),
//   mode 1: through hook contexts (registrystate.RegistryTransaction +
//           SetViaViewInTx/GetViaViewInTx, commit on Context.Done) of 2-3
//           interleaved clients on the real state,
//   mode 2: through explicit registry.Transaction values over in-memory
//           storage closures that can fail.
// The oracles never predict whether snapd accepts a request; they judge what
// an accepted or a rejected request did to the stored data and what a read
// returned, using only the view definition (which storage paths a rule maps a
// request to, and with which access).

import (
	"bytes"
	"encoding/json"
	"errors"
	"fmt"
	"runtime/debug"
	"sort"
	"strconv"
	"strings"
	"time"

	"github.com/snapcore/snapd/asserts"
	"github.com/snapcore/snapd/internal/verifsim"
	"github.com/snapcore/snapd/overlord/hookstate"
	"github.com/snapcore/snapd/overlord/registrystate"
	"github.com/snapcore/snapd/overlord/state"
	"github.com/snapcore/snapd/registry"
	"github.com/snapcore/snapd/snap"
)

// ---------------------------------------------------------------------------
// JSON tree helpers

type verifAbsent struct{}

var verifNone interface{} = verifAbsent{}

func verifCanon(v interface{}) string {
	if v == verifNone {
		return "<absent>"
	}
	b, err := json.Marshal(v)
	if err != nil {
		return "<unmarshalable:" + err.Error() + ">"
	}
	return string(b)
}

func verifDecode(b []byte) interface{} {
	if len(b) == 0 {
		return nil
	}
	dec := json.NewDecoder(bytes.NewReader(b))
	dec.UseNumber()
	var v interface{}
	if err := dec.Decode(&v); err != nil {
		return "<undecodable:" + err.Error() + ">"
	}
	return v
}

// verifNorm round-trips through JSON so that int, float64 and json.Number
// compare equal.
func verifNorm(v interface{}) interface{} {
	b, err := json.Marshal(v)
	if err != nil {
		return "<unmarshalable>"
	}
	return verifDecode(b)
}

// verifPrune removes null map entries ("null means unset") recursively in maps.
func verifPrune(v interface{}) interface{} {
	m, ok := v.(map[string]interface{})
	if !ok {
		return v
	}
	out := make(map[string]interface{}, len(m))
	for k, x := range m {
		if x == nil {
			continue
		}
		out[k] = verifPrune(x)
	}
	return out
}

func verifSortedKeys(m map[string]interface{}) []string {
	ks := make([]string, 0, len(m))
	for k := range m {
		ks = append(ks, k)
	}
	sort.Strings(ks)
	return ks
}

func verifLookup(tree interface{}, path []string) interface{} {
	cur := tree
	for _, p := range path {
		m, ok := cur.(map[string]interface{})
		if !ok {
			return verifNone
		}
		cur, ok = m[p]
		if !ok {
			return verifNone
		}
	}
	return cur
}

// verifScalarToken names a scalar leaf; "" for values that are not tokens
// (booleans, null).
func verifScalarToken(v interface{}) string {
	switch x := v.(type) {
	case string:
		return "s:" + x
	case json.Number:
		return "n:" + x.String()
	case float64:
		return "n:" + strconv.FormatFloat(x, 'f', -1, 64)
	case int:
		return "n:" + strconv.Itoa(x)
	}
	return ""
}

// verifWalkTokens calls f for every token with the location (map path) of
// the leaf holding it; lists are atomic leaves.
func verifWalkTokens(v interface{}, path []string, f func(tok string, loc []string)) {
	switch x := v.(type) {
	case map[string]interface{}:
		for _, k := range verifSortedKeys(x) {
			verifWalkTokens(x[k], append(append([]string(nil), path...), k), f)
		}
	case []interface{}:
		for _, e := range x {
			if _, isMap := e.(map[string]interface{}); isMap {
				verifWalkTokens(e, path, f)
				continue
			}
			if t := verifScalarToken(e); t != "" {
				f(t, path)
			}
		}
	default:
		if t := verifScalarToken(v); t != "" {
			f(t, path)
		}
	}
}

type verifLeaf struct {
	path []string
	val  interface{}
}

// verifLeaves lists the non-map leaves of a (pruned) value.
func verifLeaves(v interface{}, path []string, out *[]verifLeaf) {
	if m, ok := v.(map[string]interface{}); ok {
		for _, k := range verifSortedKeys(m) {
			verifLeaves(m[k], append(append([]string(nil), path...), k), out)
		}
		return
	}
	*out = append(*out, verifLeaf{path: path, val: v})
}

// ---------------------------------------------------------------------------
// storage path patterns ("{p}" elements are wildcards)

func verifIsPH(s string) bool { return len(s) > 2 && s[0] == '{' && s[len(s)-1] == '}' }

// verifUnder: loc is at or below a location described by pat.
func verifUnder(pat, loc []string) bool {
	if len(loc) < len(pat) {
		return false
	}
	for i, p := range pat {
		if !verifIsPH(p) && p != loc[i] {
			return false
		}
	}
	return true
}

// verifAncestorOf: path is a proper ancestor of some location described by pat.
func verifAncestorOf(path, pat []string) bool {
	if len(path) >= len(pat) {
		return false
	}
	for i, p := range path {
		if !verifIsPH(pat[i]) && pat[i] != p {
			return false
		}
	}
	return true
}

// verifOverlap: the two patterns describe locations of which one is at,
// above or below the other.
func verifOverlap(a, b []string) bool {
	n := len(a)
	if len(b) < n {
		n = len(b)
	}
	for i := 0; i < n; i++ {
		if !verifIsPH(a[i]) && !verifIsPH(b[i]) && a[i] != b[i] {
			return false
		}
	}
	return true
}

func verifPats(ps [][]string) string {
	var ss []string
	for _, p := range ps {
		ss = append(ss, strings.Join(p, "."))
	}
	sort.Strings(ss)
	return "[" + strings.Join(ss, " ") + "]"
}

// verifOutside collects the locations at which before and after differ
// outside the allowed patterns. Creating the map containers above an allowed
// location is allowed, so is replacing a non-map value that sits where such a
// container is needed (unavoidable when a rule maps below another rule's
// storage path), so is leaving empty maps behind.
func verifOutside(b, a interface{}, path []string, pats [][]string, overwrites *int, out *[]string) {
	for _, p := range pats {
		if verifUnder(p, path) {
			return
		}
	}
	if verifCanon(b) == verifCanon(a) {
		return
	}
	anc := false
	for _, p := range pats {
		if verifAncestorOf(path, p) {
			anc = true
			break
		}
	}
	bm, bIsMap := b.(map[string]interface{})
	am, aIsMap := a.(map[string]interface{})
	// empty containers and absence are not distinguished
	if (b == verifNone || (bIsMap && len(bm) == 0)) && (a == verifNone || (aIsMap && len(am) == 0)) {
		return
	}
	if !anc {
		if bIsMap && aIsMap {
			// descend to report the precise location
			for _, k := range verifUnionKeys(bm, am) {
				verifOutside(verifChild(bm, k), verifChild(am, k), append(append([]string(nil), path...), k), pats, overwrites, out)
			}
			return
		}
		*out = append(*out, strings.Join(path, "."))
		return
	}
	switch {
	case (bIsMap || b == verifNone) && (aIsMap || a == verifNone):
		for _, k := range verifUnionKeys(bm, am) {
			verifOutside(verifChild(bm, k), verifChild(am, k), append(append([]string(nil), path...), k), pats, overwrites, out)
		}
	case !bIsMap && (aIsMap || a == verifNone):
		// a non-map value stood where a container was needed (the
		// container may be gone again after a later unset below it)
		*overwrites++
		for _, k := range verifSortedKeys(am) {
			verifOutside(verifNone, am[k], append(append([]string(nil), path...), k), pats, overwrites, out)
		}
	default:
		*out = append(*out, strings.Join(path, "."))
	}
}

func verifChild(m map[string]interface{}, k string) interface{} {
	if m == nil {
		return verifNone
	}
	v, ok := m[k]
	if !ok {
		return verifNone
	}
	return v
}

func verifUnionKeys(a, b map[string]interface{}) []string {
	seen := map[string]bool{}
	var ks []string
	for k := range a {
		if !seen[k] {
			seen[k] = true
			ks = append(ks, k)
		}
	}
	for k := range b {
		if !seen[k] {
			seen[k] = true
			ks = append(ks, k)
		}
	}
	sort.Strings(ks)
	return ks
}

// ---------------------------------------------------------------------------
// the view definition as the oracle reads it

const (
	verifRW = iota
	verifRO
	verifWO
)

var verifAccessNames = []string{"read-write", "read", "write"}

type verifRule struct {
	req, stor []string
	access    int
	nested    bool
}

func (r *verifRule) readable() bool { return r.access != verifWO }
func (r *verifRule) writable() bool { return r.access != verifRO }

// match: the request is the rule's request pattern or a prefix of it.
func (r *verifRule) match(req []string) (bind map[string]string, suffix []string, ok bool) {
	if len(req) > len(r.req) {
		return nil, nil, false
	}
	bind = map[string]string{}
	for i, k := range req {
		if verifIsPH(r.req[i]) {
			bind[r.req[i]] = k
		} else if r.req[i] != k {
			return nil, nil, false
		}
	}
	return bind, r.req[len(req):], true
}

func verifSubst(stor []string, bind map[string]string) []string {
	out := make([]string, len(stor))
	for i, s := range stor {
		if v, ok := bind[s]; ok {
			out[i] = v
		} else {
			out[i] = s
		}
	}
	return out
}

type verifWrite struct {
	path []string
	val  interface{} // nil: unset
}

// verifExpand maps a value written at a request to the concrete storage
// locations of one rule: the unmatched rest of the rule's request pattern is
// followed into the value, literal parts as keys, placeholders over every
// key present. ok=false: the value has no such shape.
func verifExpand(stor, suffix []string, val interface{}) (ws []verifWrite, ok bool) {
	if len(suffix) == 0 {
		return []verifWrite{{path: stor, val: val}}, true
	}
	m, isMap := val.(map[string]interface{})
	if !isMap {
		return nil, false
	}
	part := suffix[0]
	if !verifIsPH(part) {
		v, has := m[part]
		if !has {
			return nil, false
		}
		return verifExpand(stor, suffix[1:], v)
	}
	for _, k := range verifSortedKeys(m) {
		sub, ok := verifExpand(verifSubst(stor, map[string]string{part: k}), suffix[1:], m[k])
		if !ok {
			return nil, false
		}
		ws = append(ws, sub...)
	}
	return ws, true
}

type verifView struct {
	name  string
	rules []*verifRule
	real  *registry.View
}

type verifReg struct {
	idx           int
	account, name string
	views         []*verifView
	real          *registry.Registry
}

func (r *verifReg) key() string { return r.account + "/" + r.name }

// matching returns the rules of the view that the request matches.
func (v *verifView) matching(req []string) (rules []*verifRule, binds []map[string]string, suffixes [][]string) {
	for _, r := range v.rules {
		b, s, ok := r.match(req)
		if !ok {
			continue
		}
		rules = append(rules, r)
		binds = append(binds, b)
		suffixes = append(suffixes, s)
	}
	return
}

// readPats: storage patterns a read of the request may draw from.
func (v *verifView) readPats(req []string) [][]string {
	var pats [][]string
	rules, binds, _ := v.matching(req)
	for i, r := range rules {
		if r.readable() {
			pats = append(pats, verifSubst(r.stor, binds[i]))
		}
	}
	return pats
}

// writePats: storage patterns a write/unset of the request may touch.
func (v *verifView) writePats(req []string) [][]string {
	var pats [][]string
	rules, binds, _ := v.matching(req)
	for i, r := range rules {
		if r.writable() {
			pats = append(pats, verifSubst(r.stor, binds[i]))
		}
	}
	return pats
}

// ---------------------------------------------------------------------------
// stubs: schema, state backend

const verifForbidden = "FORBIDDEN"

// verifSchema accepts every document that does not contain the forbidden
// marker: "schema violation" as an injectable fault.
type verifSchema struct {
	c *verifsim.Ctx
}

func (s *verifSchema) Validate(data []byte) error {
	if bytes.Contains(data, []byte(verifForbidden)) {
		s.c.Count("fault:schema-violation")
		return errors.New("verif schema: forbidden marker in document")
	}
	return nil
}

func (s *verifSchema) SchemaAt(path []string) ([]registry.Schema, error) {
	return []registry.Schema{s}, nil
}

func (s *verifSchema) Type() registry.SchemaType { return registry.Any }

type verifBackend struct{ last []byte }

func (b *verifBackend) Checkpoint(d []byte) error    { b.last = append([]byte(nil), d...); return nil }
func (b *verifBackend) EnsureBefore(d time.Duration) {}

// ---------------------------------------------------------------------------
// the simulation

type verifAccepted struct {
	req   string
	unset bool
	pats  [][]string   // where the write may have landed
	exp   []verifWrite // exact expansion (sets only)
	expOK bool
}

type verifTx struct {
	reg     *verifReg
	real    *registry.Transaction // mode 2
	ctx     *hookstate.Context    // mode 1
	snapLoc map[string][][]string
	pendLoc map[string][][]string
	// an accepted write could not be expanded by the oracle's reading of
	// the definition: token locations of this transaction are incomplete
	pendUnknown bool
	writes      []verifAccepted
}

type verifSnap struct {
	all  string                 // byte-level rendering of everything stored
	bags map[string]interface{} // registry key -> decoded bag (verifNone if missing)
}

type verifSim struct {
	c      *verifsim.Ctx
	mode   int
	faults bool
	regs   []*verifReg
	assert map[string]*asserts.Registry

	st  *state.State
	be  *verifBackend
	mem map[string]registry.JSONDataBag

	failRead, failWrite bool
	noForbid            bool // canaries never carry the forbidden marker
	writeCalls          int

	ntok     int
	tokOwner map[string]int
	nctx     int
	clients  []*verifTx

	accepted, rejected int
	faultFired         bool
	overlapped         bool
}

var verifReqAlpha = []string{"a", "b", "c", "d"}
var verifStorAlpha = []string{"x", "y", "z", "w"}
var verifKeyAlpha = []string{"a", "k", "x", "b"}
var verifPHNames = []string{"p", "q", "r"}

func (s *verifSim) genRule(parentReq, parentStor []string, used map[string]bool, depth int, readReqs map[string]bool) (map[string]interface{}, []*verifRule) {
	c := s.c
	maxLen := 2
	if depth == 0 {
		maxLen = 3
	}
	nreq := 1 + c.Draw("req-len", maxLen)
	mine := map[string]bool{}
	for k := range used {
		mine[k] = true
	}
	var req, phs []string
	for i := 0; i < nreq; i++ {
		if c.Draw("req-ph", 3) == 2 {
			name := ""
			for _, n := range verifPHNames {
				if !mine[n] {
					name = n
					break
				}
			}
			if name != "" {
				mine[name] = true
				req = append(req, "{"+name+"}")
				phs = append(phs, "{"+name+"}")
				continue
			}
		}
		req = append(req, verifReqAlpha[c.Draw("req-lit", len(verifReqAlpha))])
	}
	nlit := 0
	if len(phs) == 0 {
		nlit = 1 + c.Draw("stor-lits", 2)
	} else {
		nlit = c.Draw("stor-lits", 3)
	}
	elems := append([]string(nil), phs...)
	for i := 0; i < nlit; i++ {
		elems = append(elems, verifStorAlpha[c.Draw("stor-lit", len(verifStorAlpha))])
	}
	var stor []string
	for _, j := range c.Perm("stor-order", len(elems)) {
		stor = append(stor, elems[j])
	}
	raw := map[string]interface{}{"storage": strings.Join(stor, ".")}
	if c.Draw("req-omit", 10) == 9 {
		// "request" defaults to "storage"
		req = append([]string(nil), stor...)
	} else {
		raw["request"] = strings.Join(req, ".")
	}
	access := verifRW
	switch c.Draw("access", 5) {
	case 0:
	case 1:
		raw["access"] = "read-write"
	case 2, 3:
		access = verifRO
	case 4:
		access = verifWO
	}
	if c.Draw("access-w", 5) == 4 {
		access = verifWO
	}
	fullReq := append(append([]string(nil), parentReq...), req...)
	fullStor := append(append([]string(nil), parentStor...), stor...)
	rk := strings.Join(fullReq, ".")
	if access != verifWO && readReqs[rk] {
		// registry.New refuses two reading rules with the same request
		access = verifWO
	}
	if access != verifWO {
		readReqs[rk] = true
	}
	if access != verifRW {
		raw["access"] = verifAccessNames[access]
	}
	flat := []*verifRule{{req: fullReq, stor: fullStor, access: access, nested: depth > 0}}
	if depth < 2 && c.Draw("nested", 4) == 3 {
		n := 1 + c.Draw("nchildren", 2)
		var content []interface{}
		for i := 0; i < n; i++ {
			craw, cflat := s.genRule(fullReq, fullStor, mine, depth+1, readReqs)
			content = append(content, craw)
			flat = append(flat, cflat...)
		}
		raw["content"] = content
	}
	return raw, flat
}

func (s *verifSim) genRegistries() {
	c := s.c
	nregs := 1 + c.Draw("nregs", 2)
	sameAccount := c.Draw("other-account", 2) == 0
	for i := 0; i < nregs; i++ {
		reg := &verifReg{idx: i, account: "acc-one", name: "reg-" + string(rune('a'+i))}
		if i > 0 && !sameAccount {
			reg.account = "acc-two"
		}
		views := map[string]interface{}{}
		nviews := 1 + c.Draw("nviews", 2)
		for j := 0; j < nviews; j++ {
			v := &verifView{name: "view-" + string(rune('a'+j))}
			nrules := 1 + c.Draw("nrules", 5)
			readReqs := map[string]bool{}
			var raws []interface{}
			for k := 0; k < nrules; k++ {
				raw, flat := s.genRule(nil, nil, nil, 0, readReqs)
				raws = append(raws, raw)
				v.rules = append(v.rules, flat...)
			}
			views[v.name] = map[string]interface{}{"rules": raws}
			reg.views = append(reg.views, v)
		}
		real, err := registry.New(reg.account, reg.name, views, &verifSchema{c: c})
		if err != nil {
			c.Fatalf("generated registry refused: %v (%s)", err, verifCanon(views))
		}
		reg.real = real
		for _, v := range reg.views {
			v.real = real.View(v.name)
			var rs []string
			for _, r := range v.rules {
				rs = append(rs, fmt.Sprintf("%s->%s(%s)", strings.Join(r.req, "."), strings.Join(r.stor, "."), verifAccessNames[r.access]))
			}
			c.Logf("registry %s view %s: %s", reg.key(), v.name, strings.Join(rs, "; "))
		}
		s.regs = append(s.regs, reg)
		s.assert[reg.key()] = asserts.VerifRegistryAssertion(real)
	}
}

// --- storage access (direct, not through views)

func (s *verifSim) lock() {
	if s.st != nil {
		s.st.Lock()
	}
}

func (s *verifSim) unlock() {
	if s.st != nil {
		s.st.Unlock()
	}
}

// snapshot renders everything stored; caller holds the lock.
func (s *verifSim) snapshot() *verifSnap {
	sn := &verifSnap{bags: map[string]interface{}{}}
	if s.st != nil {
		var raw map[string]map[string]json.RawMessage
		err := s.st.Get("registry-databags", &raw)
		if err != nil && !errors.Is(err, state.ErrNoState) {
			s.c.Fatalf("cannot read registry-databags: %v", err)
		}
		b, _ := json.Marshal(raw)
		sn.all = string(b)
		for acc, m := range raw {
			for name, bag := range m {
				sn.bags[acc+"/"+name] = verifDecode(bag)
			}
		}
	} else {
		var keys []string
		for k := range s.mem {
			keys = append(keys, k)
		}
		sort.Strings(keys)
		var sb strings.Builder
		for _, k := range keys {
			d, err := s.mem[k].Data()
			if err != nil {
				s.c.Fatalf("cannot render bag: %v", err)
			}
			sb.WriteString(k + "=" + string(d) + ";")
			sn.bags[k] = verifDecode(d)
		}
		sn.all = sb.String()
	}
	return sn
}

func (sn *verifSnap) bag(key string) interface{} {
	b, ok := sn.bags[key]
	if !ok || b == nil {
		return verifNone
	}
	return b
}

// plant writes a value directly into the stored bag, bypassing every view.
func (s *verifSim) plant(reg *verifReg, path []string, val interface{}) {
	if s.st != nil {
		var bags map[string]map[string]registry.JSONDataBag
		err := s.st.Get("registry-databags", &bags)
		if err != nil && !errors.Is(err, state.ErrNoState) {
			s.c.Fatalf("cannot read registry-databags: %v", err)
		}
		if bags == nil {
			bags = map[string]map[string]registry.JSONDataBag{}
		}
		if bags[reg.account] == nil {
			bags[reg.account] = map[string]registry.JSONDataBag{}
		}
		bag := bags[reg.account][reg.name]
		if bag == nil {
			bag = registry.NewJSONDataBag()
		}
		if err := bag.Set(strings.Join(path, "."), val); err != nil {
			s.c.Fatalf("cannot plant: %v", err)
		}
		bags[reg.account][reg.name] = bag
		s.st.Set("registry-databags", bags)
		return
	}
	bag := s.mem[reg.key()].Copy()
	if err := bag.Set(strings.Join(path, "."), val); err != nil {
		s.c.Fatalf("cannot plant: %v", err)
	}
	s.mem[reg.key()] = bag
}

func verifLocs(tree interface{}) map[string][][]string {
	m := map[string][][]string{}
	if tree == verifNone {
		return m
	}
	verifWalkTokens(tree, nil, func(tok string, loc []string) {
		m[tok] = append(m[tok], loc)
	})
	return m
}

// --- value and request generation

func (s *verifSim) token(owner int) interface{} {
	s.ntok++
	c := s.c
	var v interface{}
	switch c.Draw("tok-kind", 6) {
	case 4:
		v = json.Number(strconv.Itoa(1000 + s.ntok))
	case 5:
		v = float64(1000+s.ntok) + 0.5
	default:
		str := "t" + strconv.Itoa(s.ntok)
		if s.faults && !s.noForbid && c.Draw("forbid", 10) == 9 {
			str += "-" + verifForbidden
		}
		v = str
	}
	s.tokOwner[verifScalarToken(verifNorm(v))] = owner
	return v
}

func (s *verifSim) leaf(owner int, allowNil bool) interface{} {
	c := s.c
	switch c.Draw("leaf-kind", 8) {
	case 5:
		m := map[string]interface{}{}
		n := 1 + c.Draw("leaf-map-n", 2)
		for i := 0; i < n; i++ {
			m[verifReqAlpha[c.Draw("leaf-key", len(verifReqAlpha))]] = s.token(owner)
		}
		return m
	case 6:
		return []interface{}{s.token(owner), s.token(owner)}
	case 7:
		if allowNil {
			return nil
		}
	}
	return s.token(owner)
}

// ensure gives val the shape the unmatched request suffix needs.
func (s *verifSim) ensure(val interface{}, have bool, suffix []string, owner int, depth int) interface{} {
	if len(suffix) == 0 {
		if !have {
			return s.leaf(owner, depth > 0)
		}
		return val
	}
	m, ok := val.(map[string]interface{})
	if !ok {
		m = map[string]interface{}{}
	}
	part := suffix[0]
	if !verifIsPH(part) {
		v, has := m[part]
		m[part] = s.ensure(v, has, suffix[1:], owner, depth+1)
		return m
	}
	if len(m) == 0 {
		n := 1 + s.c.Draw("ph-keys", 2)
		for i := 0; i < n; i++ {
			k := verifKeyAlpha[s.c.Draw("ph-key", len(verifKeyAlpha))]
			if _, has := m[k]; !has {
				m[k] = s.ensure(nil, false, suffix[1:], owner, depth+1)
			}
		}
		return m
	}
	for _, k := range verifSortedKeys(m) {
		m[k] = s.ensure(m[k], true, suffix[1:], owner, depth+1)
	}
	return m
}

// genRequest draws a request for the view: mostly derived from a rule
// (full or prefix, placeholders filled), sometimes arbitrary or malformed.
func (s *verifSim) genRequest(v *verifView, forGet bool) (string, []string) {
	c := s.c
	switch c.Draw("req-kind", 10) {
	case 8:
		n := 1 + c.Draw("rand-req-len", 3)
		var ks []string
		for i := 0; i < n; i++ {
			ks = append(ks, verifReqAlpha[c.Draw("rand-req-key", len(verifReqAlpha))])
		}
		return strings.Join(ks, "."), nil
	case 9:
		bad := []string{"a..b", "A", "{p}", "a.", "-a", "a.b_c"}
		if !forGet {
			bad = append(bad, "")
		}
		return bad[c.Draw("bad-req", len(bad))], nil
	}
	r := v.rules[c.Draw("req-rule", len(v.rules))]
	n := len(r.req) - c.Draw("req-short", len(r.req))
	var ks []string
	for i := 0; i < n; i++ {
		if verifIsPH(r.req[i]) {
			ks = append(ks, verifKeyAlpha[c.Draw("ph-fill", len(verifKeyAlpha))])
		} else {
			ks = append(ks, r.req[i])
		}
	}
	return strings.Join(ks, "."), r.req[n:]
}

// genValue draws a value for a set of the request.
func (s *verifSim) genValue(v *verifView, req string, suffix []string, owner int) interface{} {
	c := s.c
	var val interface{}
	have := false
	if c.Draw("fit-all", 4) != 3 {
		rules, _, sufs := v.matching(strings.Split(req, "."))
		for pass := 0; pass < 2; pass++ {
			for i, r := range rules {
				if !r.writable() {
					continue
				}
				val = s.ensure(val, have, sufs[i], owner, 0)
				have = true
			}
		}
	}
	if !have {
		val = s.ensure(nil, false, suffix, owner, 0)
	}
	switch c.Draw("bad-value", 12) {
	case 10:
		// an extra branch that no rule uses / an invalid key
		if m, ok := val.(map[string]interface{}); ok {
			if c.Draw("bad-key", 2) == 1 {
				m["Bad_Key"] = s.token(owner)
			} else {
				m["zz"] = s.token(owner)
			}
		}
	case 11:
		// a scalar where the rules may need a map
		val = s.token(owner)
	}
	if val == nil {
		val = s.token(owner)
	}
	// snapd applies the expanded writes of one request in Go map order; an
	// unset among several writes can make the outcome depend on that order
	// (see NOTES.md), so nested nulls are only kept for single writes
	if verifValidPath(req) == nil {
		n := 0
		rules, binds, sufs := v.matching(strings.Split(req, "."))
		for i, r := range rules {
			if !r.writable() {
				continue
			}
			ws, ok := verifExpand(verifSubst(r.stor, binds[i]), sufs[i], val)
			if !ok {
				n += 2
			}
			n += len(ws)
		}
		if n > 1 {
			val = s.fillNils(val, owner)
		}
	}
	return val
}

func (s *verifSim) fillNils(val interface{}, owner int) interface{} {
	m, ok := val.(map[string]interface{})
	if !ok {
		return val
	}
	for _, k := range verifSortedKeys(m) {
		if m[k] == nil {
			m[k] = s.token(owner)
		} else {
			m[k] = s.fillNils(m[k], owner)
		}
	}
	return m
}

// orderSensitive: View.Set prunes the unmatched suffixes of all matching
// write rules from a copy of the value in Go map order and fails when an
// earlier one removed the branch a later one descends into; with suffixes of
// which one lies on the path of another the same request is accepted or
// refused depending on that order. Such requests are not issued (the run
// could not be replayed).
func (v *verifView) orderSensitive(req string) bool {
	if verifValidPath(req) != nil {
		return false
	}
	rules, _, sufs := v.matching(strings.Split(req, "."))
	for i := range rules {
		if !rules[i].writable() || len(sufs[i]) == 0 {
			continue
		}
		for j := i + 1; j < len(rules); j++ {
			if !rules[j].writable() || len(sufs[j]) == 0 {
				continue
			}
			if strings.Join(sufs[i], ".") != strings.Join(sufs[j], ".") && verifOverlap(sufs[i], sufs[j]) {
				return true
			}
		}
	}
	return false
}

func verifErrKind(err error) string {
	switch {
	case err == nil:
		return "ok"
	case errors.Is(err, &registry.NotFoundError{}):
		return "not-found"
	case errors.Is(err, &registry.BadRequestError{}):
		return "bad-request"
	case strings.Contains(err.Error(), "verif schema"):
		return "schema"
	case strings.Contains(err.Error(), "verif storage"):
		return "storage"
	case errors.Is(err, &asserts.NotFoundError{}):
		return "no-registry"
	}
	return "other"
}

// --- oracles

func (s *verifSim) checkUnchanged(before, after *verifSnap, class, what string) {
	if before.all != after.all {
		s.c.Violate(class, "%s: stored data changed from %s to %s", what, before.all, after.all)
	}
}

// accept records what an accepted set/unset of one request may touch.
func (s *verifSim) accept(v *verifView, req string, val interface{}) verifAccepted {
	keys := strings.Split(req, ".")
	a := verifAccepted{req: req, unset: val == nil}
	rules, binds, sufs := v.matching(keys)
	nw := 0
	a.expOK = !a.unset
	for i, r := range rules {
		if !r.writable() {
			continue
		}
		nw++
		if r.nested {
			s.c.Count("probe:write-through-nested-rule")
		}
		st := verifSubst(r.stor, binds[i])
		if a.unset {
			a.pats = append(a.pats, st)
			continue
		}
		ws, ok := verifExpand(st, sufs[i], val)
		if !ok {
			a.expOK = false
			a.pats = append(a.pats, st)
			continue
		}
		if len(sufs[i]) > 0 {
			for _, p := range sufs[i] {
				if verifIsPH(p) {
					s.c.Count("probe:placeholder-filled-from-value")
					break
				}
			}
		}
		a.exp = append(a.exp, ws...)
		for _, w := range ws {
			a.pats = append(a.pats, w.path)
		}
	}
	if nw == 0 {
		// accepted although no write-capable rule maps the request: every
		// change will be outside the (empty) allowed set
		s.c.Count("accepted-without-write-rule")
	}
	if nw > 1 {
		s.c.Count("probe:several-rules-map-one-write")
	}
	if !a.unset && !a.expOK {
		s.c.Count("oracle:accepted-value-not-expandable")
	}
	return a
}

// checkCommit judges a successful commit of the accepted writes ws (in
// order) by owner on reg.
func (s *verifSim) checkCommit(reg *verifReg, before, after *verifSnap, ws []verifAccepted, owner int) {
	c := s.c
	// other registries are untouched
	for _, o := range s.regs {
		if o == reg {
			continue
		}
		var ow int
		var outs []string
		verifOutside(before.bag(o.key()), after.bag(o.key()), nil, nil, &ow, &outs)
		if len(outs) > 0 {
			c.Violate("C30/other-registry-data-lost", "a write to registry %s changed the stored data of registry %s at %v: before %s after %s", reg.key(), o.key(), outs, verifCanon(before.bag(o.key())), verifCanon(after.bag(o.key())))
		}
	}
	var pats [][]string
	for _, w := range ws {
		pats = append(pats, w.pats...)
	}
	b, a := before.bag(reg.key()), after.bag(reg.key())
	var outs []string
	overwrites := 0
	verifOutside(b, a, nil, pats, &overwrites, &outs)
	if overwrites > 0 {
		c.Count("probe:non-map-ancestor-replaced")
	}
	if len(outs) > 0 {
		class := "C30/write-outside-write-rules"
		// was something lost that another client committed?
		for _, loc := range outs {
			var lp []string
			if loc != "" {
				lp = strings.Split(loc, ".")
			}
			verifWalkTokens(verifLookup(b, lp), lp, func(tok string, _ []string) {
				if ow, ok := s.tokOwner[tok]; ok && ow >= 0 && ow != owner && owner >= 0 {
					class = "C30/lost-update"
				}
			})
		}
		var reqs []string
		for _, w := range ws {
			reqs = append(reqs, w.req)
		}
		c.Violate(class, "commit of requests %v on %s changed storage at %v, outside the storage paths %s that write-capable rules map them to: before %s after %s", reqs, reg.key(), outs, verifPats(pats), verifCanon(b), verifCanon(a))
	}
	if strings.Contains(verifCanon(a), verifForbidden) && !strings.Contains(verifCanon(b), verifForbidden) {
		c.Violate("C30/schema-violating-data-committed", "committed data of %s violates the schema: %s", reg.key(), verifCanon(a))
	}
	// effect: the last undisturbed write to each mapped location is there
	type entry struct {
		w    verifWrite
		req  string
		dead bool
	}
	var live []*entry
	for _, w := range ws {
		if w.unset || !w.expOK {
			for _, e := range live {
				for _, p := range w.pats {
					if verifOverlap(p, e.w.path) {
						e.dead = true
					}
				}
			}
			continue
		}
		var mine []*entry
		for _, x := range w.exp {
			for _, e := range live {
				if verifOverlap(x.path, e.w.path) {
					e.dead = true
				}
			}
			ne := &entry{w: x, req: w.req}
			for _, m := range mine {
				if verifOverlap(x.path, m.w.path) {
					m.dead = true
					ne.dead = true
				}
			}
			mine = append(mine, ne)
		}
		live = append(live, mine...)
	}
	for _, e := range live {
		if e.dead {
			continue
		}
		got := verifLookup(a, e.w.path)
		var want interface{} = verifNone
		if e.w.val != nil {
			want = verifNorm(verifPrune(e.w.val))
		}
		c.Count("oracle:committed-write-checked")
		if verifCanon(got) != verifCanon(want) {
			if want == verifNone {
				if m, ok := got.(map[string]interface{}); ok && len(m) == 0 {
					continue
				}
			}
			c.Violate("C30/committed-write-missing", "after the commit of set %q on %s storage path %s holds %s, written %s", e.req, reg.key(), strings.Join(e.w.path, "."), verifCanon(got), verifCanon(want))
		}
	}
}

// checkRead judges the result of a read of one request: every token in it
// must live at a storage location that a read-capable rule maps the request
// to.
func (s *verifSim) checkRead(v *verifView, reg *verifReg, req string, result interface{}, locs []map[string][][]string, complete bool) {
	c := s.c
	var keys []string
	if req != "" {
		keys = strings.Split(req, ".")
	}
	pats := v.readPats(keys)
	ntok := 0
	verifWalkTokens(verifNorm(result), nil, func(tok string, _ []string) {
		ntok++
		known := false
		for _, lm := range locs {
			for _, loc := range lm[tok] {
				known = true
				for _, p := range pats {
					if verifUnder(p, loc) {
						return
					}
				}
			}
		}
		if !known {
			if complete {
				c.Violate("C30/read-unexplained-value", "get %q through %s/%s returned %s which is stored nowhere", req, reg.key(), v.name, tok)
			}
			return
		}
		var where []string
		for _, lm := range locs {
			for _, loc := range lm[tok] {
				where = append(where, strings.Join(loc, "."))
			}
		}
		c.Violate("C30/read-outside-read-rules", "get %q through %s/%s returned %s stored at %v; read-capable rules map the request to %s only", req, reg.key(), v.name, tok, where, verifPats(pats))
	})
	if ntok > 0 {
		c.Count("oracle:read-tokens-checked")
		// non-vacuous: was there stored data this request must not see?
		hidden := false
		for tok, ls := range locs[0] {
			_ = tok
			for _, loc := range ls {
				vis := false
				for _, p := range pats {
					if verifUnder(p, loc) {
						vis = true
					}
				}
				if !vis {
					hidden = true
				}
			}
		}
		if hidden {
			c.Count("probe:read-while-unreadable-data-stored")
		}
	}
}

// checkGetAfterSet: a read after a successful write through read-write rules
// returns the written value.
func (s *verifSim) checkGetAfterSet(v *verifView, reg *verifReg, req string, val interface{}, a verifAccepted, get func() (interface{}, error)) {
	c := s.c
	rules, _, sufs := v.matching(strings.Split(req, "."))
	if len(rules) == 0 || !a.expOK {
		return
	}
	allFull := true
	for i, r := range rules {
		if r.access != verifRW {
			c.Count("oracle:get-after-set-skipped-access")
			return
		}
		if len(sufs[i]) > 0 {
			allFull = false
		}
	}
	for i := range a.exp {
		for j := i + 1; j < len(a.exp); j++ {
			if verifOverlap(a.exp[i].path, a.exp[j].path) {
				c.Count("oracle:get-after-set-skipped-overlap")
				return
			}
		}
	}
	want := verifNorm(verifPrune(val))
	var leaves []verifLeaf
	verifLeaves(want, nil, &leaves)
	got, err := get()
	got = verifNorm(got)
	class := "C30/read-after-write-mismatch"
	for i, r := range rules {
		if verifReordered(r, sufs[i]) {
			// a sub-class of its own: see NOTES.md, finding 2
			class = "C30/read-after-write-mismatch:placeholders-reordered-in-storage"
			c.Count("probe:unbound-placeholders-reordered-in-storage")
		}
	}
	if allFull {
		c.Count("probe:get-after-set-exact")
		if err != nil {
			c.Violate("C30/read-after-write-mismatch", "set %q=%s through read-write rules of %s/%s succeeded, the following get failed: %v", req, verifCanon(want), reg.key(), v.name, err)
		} else if verifCanon(got) != verifCanon(want) {
			c.Violate("C30/read-after-write-mismatch", "set %q=%s through read-write rules of %s/%s succeeded, the following get returned %s", req, verifCanon(want), reg.key(), v.name, verifCanon(got))
		}
		return
	}
	if err != nil {
		if errors.Is(err, &registry.NotFoundError{}) && len(leaves) > 0 {
			c.Violate(class, "set %q=%s through read-write rules of %s/%s succeeded, the following get found nothing: %v", req, verifCanon(want), reg.key(), v.name, err)
			return
		}
		c.Count("oracle:get-after-set-not-judged-error")
		return
	}
	c.Count("probe:get-after-set-contains")
	for _, l := range leaves {
		if m, ok := l.val.(map[string]interface{}); ok && len(m) == 0 {
			continue
		}
		g := verifLookup(got, l.path)
		if verifCanon(g) != verifCanon(l.val) {
			c.Violate(class, "set %q=%s through read-write rules of %s/%s succeeded, the following get returned %s (differs at %q)", req, verifCanon(want), reg.key(), v.name, verifCanon(got), strings.Join(l.path, "."))
			return
		}
	}
}

// verifReordered: the placeholders left unbound by the request appear in the
// rule's storage path in another order than in its request path.
func verifReordered(r *verifRule, suffix []string) bool {
	var inReq, inStor []string
	for _, p := range suffix {
		if verifIsPH(p) {
			inReq = append(inReq, p)
		}
	}
	for _, p := range r.stor {
		for _, q := range inReq {
			if p == q {
				inStor = append(inStor, p)
			}
		}
	}
	return strings.Join(inReq, ",") != strings.Join(inStor, ",")
}

func (s *verifSim) countReject(err error) {
	s.rejected++
	s.c.Count("probe:rejected-" + verifErrKind(err))
}

// --- mode 0: entry points

func (s *verifSim) entrySet(reg *verifReg, v *verifView, viewName string, account string, requests map[string]interface{}) {
	c := s.c
	var reqs []string
	for r := range requests {
		reqs = append(reqs, r)
	}
	sort.Strings(reqs)
	s.lock()
	before := s.snapshot()
	err := registrystate.SetViaView(s.st, account, reg.name, viewName, requests)
	after := s.snapshot()
	if err != nil && len(reqs) > 1 {
		// SetViaViewInTx walks the requests in Go map order, so which of
		// them were applied to the transaction before the refusal is a
		// matter of chance; a refused call is repeated (it must change
		// nothing any of the times) so that a partial write that reaches
		// the storage shows with near certainty, whatever the order
		// (small Go maps mostly iterate from their first inserted key: the
		// repetitions insert the requests in rotated orders)
		for k := 1; k < 6; k++ {
			again := make(map[string]interface{}, len(reqs))
			for i := range reqs {
				r := reqs[(i+k)%len(reqs)]
				again[r] = requests[r]
			}
			if err2 := registrystate.SetViaView(s.st, account, reg.name, viewName, again); err2 == nil {
				c.Count("observe:refused-multi-request-accepted-on-repetition")
				s.unlock()
				c.Logf("set %s/%s %s -> undecided", reg.key(), viewName, verifCanon(requests))
				return
			}
		}
		after = s.snapshot()
	}
	s.unlock()
	if len(reqs) == 1 {
		c.Logf("set %s/%s %s=%s -> %s", reg.key(), viewName, reqs[0], verifCanon(requests[reqs[0]]), verifErrKind(err))
	} else {
		outcome := "ok"
		if err != nil {
			outcome = "rejected"
		}
		c.Logf("set %s/%s %s -> %s", reg.key(), viewName, verifCanon(requests), outcome)
	}
	if err != nil {
		if len(reqs) == 1 {
			s.countReject(err)
		} else {
			s.rejected++
			c.Count("probe:rejected-multi-request")
		}
		what := fmt.Sprintf("rejected set %s through %s/%s", verifCanon(requests), reg.key(), viewName)
		if len(reqs) > 1 {
			// which part got through depends on Go map order: keep the
			// message (part of the event log) free of it
			if before.all != after.all {
				c.Violate("C30/rejected-write-changed-data", "%s (repeated 6 times): stored data changed, before %s", what, before.all)
			}
			return
		}
		s.checkUnchanged(before, after, "C30/rejected-write-changed-data", fmt.Sprintf("%s (%v)", what, err))
		return
	}
	if v == nil || account != reg.account {
		c.Violate("C30/write-outside-write-rules", "set through missing view %s/%s/%s accepted", account, reg.name, viewName)
		return
	}
	s.accepted++
	var ws []verifAccepted
	for _, r := range reqs {
		ws = append(ws, s.accept(v, r, requests[r]))
	}
	s.checkCommit(reg, before, after, ws, -1)
	for i, r := range reqs {
		if requests[r] == nil {
			s.observeUnset(reg, v, r)
			continue
		}
		r := r
		s.checkGetAfterSet(v, reg, r, requests[r], ws[i], func() (interface{}, error) {
			return s.entryGetOne(reg, v, r)
		})
	}
}

func (s *verifSim) entryGetOne(reg *verifReg, v *verifView, req string) (interface{}, error) {
	s.lock()
	sn := s.snapshot()
	res, err := registrystate.GetViaView(s.st, reg.account, reg.name, v.name, []string{req})
	s.unlock()
	if err != nil {
		return nil, err
	}
	m, ok := res.(map[string]interface{})
	if !ok {
		s.c.Violate("C30/read-after-write-mismatch", "get of one field returned %s, not a map of fields", verifCanon(res))
		return nil, errors.New("not a map")
	}
	s.checkRead(v, reg, req, m[req], []map[string][][]string{verifLocs(sn.bag(reg.key()))}, true)
	return m[req], nil
}

// observeUnset only counts (the statement does not say what a successful
// unset must remove).
func (s *verifSim) observeUnset(reg *verifReg, v *verifView, req string) {
	rules, _, _ := v.matching(strings.Split(req, "."))
	for _, r := range rules {
		if r.access != verifRW {
			return
		}
	}
	s.lock()
	res, err := registrystate.GetViaView(s.st, reg.account, reg.name, v.name, []string{req})
	s.unlock()
	if err == nil {
		n := 0
		verifWalkTokens(verifNorm(res), nil, func(string, []string) { n++ })
		if n > 0 {
			s.c.Count("observe:unset-left-readable-data")
		}
	}
}

func (s *verifSim) entryGet(reg *verifReg, v *verifView, viewName string, fields []string) {
	c := s.c
	s.lock()
	sn := s.snapshot()
	res, err := registrystate.GetViaView(s.st, reg.account, reg.name, viewName, fields)
	after := s.snapshot()
	s.unlock()
	c.Logf("get %s/%s %v -> %s %s", reg.key(), viewName, fields, verifErrKind(err), verifCanon(res))
	s.checkUnchanged(sn, after, "C30/read-changed-data", fmt.Sprintf("get %v through %s/%s", fields, reg.key(), viewName))
	if err != nil {
		c.Count("get-" + verifErrKind(err))
		return
	}
	if v == nil {
		c.Violate("C30/read-outside-read-rules", "get through missing view %s/%s returned %s", reg.key(), viewName, verifCanon(res))
		return
	}
	c.Count("get-ok")
	locs := []map[string][][]string{verifLocs(sn.bag(reg.key()))}
	if len(fields) == 0 {
		s.checkRead(v, reg, "", res, locs, true)
		return
	}
	m, ok := res.(map[string]interface{})
	if !ok {
		c.Violate("C30/read-outside-read-rules", "get of fields %v returned %s, not a map of fields", fields, verifCanon(res))
		return
	}
	for _, f := range verifSortedKeys(m) {
		found := false
		for _, g := range fields {
			if g == f {
				found = true
			}
		}
		if !found {
			c.Violate("C30/read-outside-read-rules", "get of fields %v returned a field %q that was not requested", fields, f)
			continue
		}
		s.checkRead(v, reg, f, m[f], locs, true)
	}
}

func (s *verifSim) restart() {
	c := s.c
	s.lock()
	before := s.snapshot()
	// make sure there is a checkpoint covering everything
	s.st.Set("verif-restart", s.nctx)
	s.unlock()
	st2, err := state.ReadState(s.be, bytes.NewReader(s.be.last))
	if err != nil {
		c.Fatalf("cannot reload state: %v", err)
	}
	s.st = st2
	for i := range s.clients {
		s.clients[i] = nil
	}
	s.lock()
	after := s.snapshot()
	s.unlock()
	c.Logf("restart")
	c.Count("fault:restart")
	s.faultFired = true
	s.checkUnchanged(before, after, "C30/restart-changed-data", "save and reload of the state")
}

// --- modes 1 and 2: explicit transactions

func (s *verifSim) memRead(reg *verifReg) registry.DatabagRead {
	return func() (registry.JSONDataBag, error) {
		if s.failRead {
			s.failRead = false
			s.c.Count("fault:storage-read-error")
			s.faultFired = true
			return nil, errors.New("verif storage: read error")
		}
		return s.mem[reg.key()], nil
	}
}

func (s *verifSim) memWrite(reg *verifReg) registry.DatabagWrite {
	return func(bag registry.JSONDataBag) error {
		s.writeCalls++
		if s.failWrite {
			s.failWrite = false
			s.c.Count("fault:storage-write-error")
			s.faultFired = true
			return errors.New("verif storage: write error")
		}
		s.mem[reg.key()] = bag
		return nil
	}
}

// withTx runs f with the client's transaction (mode 1: inside the locked
// hook context, looked up the way ctlcmd does).
func (s *verifSim) withTx(t *verifTx, f func(tx *registry.Transaction)) {
	if s.mode == 2 {
		f(t.real)
		return
	}
	t.ctx.Lock()
	defer t.ctx.Unlock()
	tx, err := registrystate.RegistryTransaction(t.ctx, t.reg.real)
	if err != nil {
		s.c.Fatalf("cannot get transaction of context: %v", err)
	}
	f(tx)
}

func (s *verifSim) txBegin(ci int, reg *verifReg) {
	c := s.c
	t := &verifTx{reg: reg, pendLoc: map[string][][]string{}}
	if s.mode == 2 {
		if s.faults && c.Draw("begin-fault", 8) == 7 {
			s.failRead = true
		}
		tx, err := registry.NewTransaction(reg.real, s.memRead(reg), s.memWrite(reg))
		s.failRead = false
		c.Logf("client %d begin on %s -> %s", ci, reg.key(), verifErrKind(err))
		if err != nil {
			return
		}
		t.real = tx
		t.snapLoc = verifLocs(s.snapshot().bag(reg.key()))
	} else {
		s.nctx++
		setup := &hookstate.HookSetup{Snap: "verif-snap", Revision: snap.R(1), Hook: "verif-hook"}
		ctx, err := hookstate.NewContext(nil, s.st, setup, nil, "verif-ctx-"+strconv.Itoa(s.nctx))
		if err != nil {
			c.Fatalf("cannot create hook context: %v", err)
		}
		t.ctx = ctx
		s.withTx(t, func(*registry.Transaction) {
			t.snapLoc = verifLocs(s.snapshot().bag(reg.key()))
		})
		c.Logf("client %d begin on %s -> ok", ci, reg.key())
	}
	s.clients[ci] = t
	c.Count("tx-begun")
}

// poisoned: the transaction's pending writes cannot be applied any more (an
// accepted unset below a non-map value fails only when the writes are
// replayed); every read in it fails from then on and is not judged.
func (s *verifSim) poisoned(t *verifTx) bool {
	bad := false
	s.withTx(t, func(tx *registry.Transaction) {
		_, err := tx.Get("verif-probe")
		if err != nil && !errors.Is(err, registry.PathError("")) {
			bad = true
		}
	})
	return bad
}

func (s *verifSim) txLocs(t *verifTx, cur *verifSnap) []map[string][][]string {
	return []map[string][][]string{t.snapLoc, t.pendLoc, verifLocs(cur.bag(t.reg.key()))}
}

func (s *verifSim) txSet(ci int, t *verifTx, v *verifView, req string, val interface{}) {
	c := s.c
	var before, after *verifSnap
	var err error
	s.withTx(t, func(tx *registry.Transaction) {
		before = s.snapshot()
		err = registrystate.SetViaViewInTx(tx, v.real, map[string]interface{}{req: val})
		after = s.snapshot()
	})
	c.Logf("client %d set %s/%s %s=%s -> %s", ci, t.reg.key(), v.name, req, verifCanon(val), verifErrKind(err))
	s.checkUnchanged(before, after, "C30/uncommitted-write-changed-data", fmt.Sprintf("set %q in an uncommitted transaction", req))
	if err != nil {
		s.countReject(err)
		return
	}
	s.accepted++
	a := s.accept(v, req, val)
	t.writes = append(t.writes, a)
	if a.unset {
		return
	}
	if !a.expOK {
		t.pendUnknown = true
	}
	for _, w := range a.exp {
		if w.val == nil {
			continue
		}
		verifWalkTokens(verifNorm(verifPrune(w.val)), w.path, func(tok string, loc []string) {
			t.pendLoc[tok] = append(t.pendLoc[tok], loc)
		})
	}
	if s.poisoned(t) {
		c.Count("probe:tx-poisoned-by-unappliable-write")
		return
	}
	s.checkGetAfterSet(v, t.reg, req, val, a, func() (interface{}, error) {
		var res interface{}
		var gerr error
		s.withTx(t, func(tx *registry.Transaction) {
			res, gerr = registrystate.GetViaViewInTx(tx, v.real, []string{req})
			if gerr == nil {
				s.checkRead(v, t.reg, req, res.(map[string]interface{})[req], s.txLocs(t, s.snapshot()), !t.pendUnknown)
			}
		})
		if gerr != nil {
			return nil, gerr
		}
		return res.(map[string]interface{})[req], nil
	})
}

func (s *verifSim) txGet(ci int, t *verifTx, v *verifView, fields []string) {
	c := s.c
	var res interface{}
	var err error
	var before, after *verifSnap
	s.withTx(t, func(tx *registry.Transaction) {
		before = s.snapshot()
		res, err = registrystate.GetViaViewInTx(tx, v.real, fields)
		after = s.snapshot()
	})
	c.Logf("client %d get %s/%s %v -> %s %s", ci, t.reg.key(), v.name, fields, verifErrKind(err), verifCanon(res))
	s.checkUnchanged(before, after, "C30/read-changed-data", fmt.Sprintf("get %v in a transaction", fields))
	if err != nil {
		c.Count("get-" + verifErrKind(err))
		return
	}
	c.Count("get-ok")
	locs := s.txLocs(t, before)
	if len(fields) == 0 {
		s.checkRead(v, t.reg, "", res, locs, !t.pendUnknown)
		return
	}
	m, ok := res.(map[string]interface{})
	if !ok {
		c.Violate("C30/read-outside-read-rules", "get of fields %v returned %s, not a map of fields", fields, verifCanon(res))
		return
	}
	for _, f := range verifSortedKeys(m) {
		s.checkRead(v, t.reg, f, m[f], locs, !t.pendUnknown)
	}
}

func (s *verifSim) txCommit(ci int, t *verifTx) {
	c := s.c
	var before, after *verifSnap
	var err error
	// is somebody else in the middle of a transaction on the same registry?
	for j, o := range s.clients {
		if j != ci && o != nil && o.reg == t.reg && len(o.writes) > 0 && len(t.writes) > 0 {
			s.overlapped = true
			c.Count("probe:commit-while-other-tx-has-pending-writes")
		}
	}
	if s.mode == 2 {
		if s.faults {
			switch c.Draw("commit-fault", 8) {
			case 6:
				s.failRead = true
			case 7:
				s.failWrite = true
			}
		}
		before = s.snapshot()
		calls := s.writeCalls
		err = t.real.Commit()
		s.failRead, s.failWrite = false, false
		after = s.snapshot()
		if err == nil && s.writeCalls != calls+1 {
			c.Violate("C30/committed-write-missing", "successful commit called the storage writer %d times", s.writeCalls-calls)
		}
	} else {
		t.ctx.Lock()
		before = s.snapshot()
		err = t.ctx.Done()
		after = s.snapshot()
		t.ctx.Unlock()
	}
	c.Logf("client %d commit on %s (%d writes) -> %s", ci, t.reg.key(), len(t.writes), verifErrKind(err))
	if err != nil {
		s.rejected++
		c.Count("probe:commit-rejected-" + verifErrKind(err))
		s.checkUnchanged(before, after, "C30/rejected-write-changed-data", fmt.Sprintf("rejected commit (%v)", err))
		if s.mode == 1 {
			s.clients[ci] = nil
		} else {
			c.Count("tx-kept-after-failed-commit")
		}
		return
	}
	c.Count("tx-committed")
	// did it commit on top of data newer than its snapshot?
	if verifCanon(verifLocsKeys(t.snapLoc)) != verifCanon(verifLocsKeys(verifLocs(before.bag(t.reg.key())))) && len(t.writes) > 0 {
		c.Count("probe:commit-onto-newer-data")
	}
	s.checkCommit(t.reg, before, after, t.writes, ci)
	if s.mode == 1 {
		s.clients[ci] = nil
		return
	}
	t.writes = nil
	t.pendLoc = map[string][][]string{}
	t.pendUnknown = false
	t.snapLoc = verifLocs(after.bag(t.reg.key()))
}

func verifLocsKeys(m map[string][][]string) []string {
	var ks []string
	for k, ls := range m {
		for _, l := range ls {
			ks = append(ks, k+"@"+strings.Join(l, "."))
		}
	}
	sort.Strings(ks)
	return ks
}

// --- the run

func (s *verifSim) pickView(reg *verifReg) *verifView {
	return reg.views[s.c.Draw("view", len(reg.views))]
}

func (s *verifSim) genFields(v *verifView) []string {
	c := s.c
	n := c.Draw("nfields", 4)
	if n == 3 {
		// whole view
		return nil
	}
	n++
	var fields []string
	for i := 0; i < n; i++ {
		f, _ := s.genRequest(v, true)
		dup := false
		for _, g := range fields {
			if g == f {
				dup = true
			}
		}
		if !dup {
			fields = append(fields, f)
		}
	}
	return fields
}

func (s *verifSim) plantOp() {
	c := s.c
	reg := s.regs[c.Draw("plant-reg", len(s.regs))]
	n := 1 + c.Draw("plant-depth", 3)
	var path []string
	for i := 0; i < n; i++ {
		if c.Draw("plant-key-kind", 2) == 0 {
			path = append(path, verifStorAlpha[c.Draw("plant-stor", len(verifStorAlpha))])
		} else {
			path = append(path, verifKeyAlpha[c.Draw("plant-key", len(verifKeyAlpha))])
		}
	}
	s.noForbid = true
	defer func() { s.noForbid = false }()
	var val interface{} = s.token(-1)
	if c.Draw("plant-map", 3) == 2 {
		val = map[string]interface{}{verifKeyAlpha[c.Draw("plant-mk", len(verifKeyAlpha))]: val, verifReqAlpha[c.Draw("plant-mk2", len(verifReqAlpha))]: s.token(-1)}
	}
	s.lock()
	s.plant(reg, path, val)
	s.unlock()
	c.Logf("plant %s %s=%s", reg.key(), strings.Join(path, "."), verifCanon(val))
	c.Count("canaries-planted")
}

// verifPanicSite renders where a panic came from without argument values
// (addresses would make the event log differ between a run and its replay).
func verifPanicSite() string {
	var fns []string
	for _, l := range strings.Split(string(debug.Stack()), "\n") {
		if !strings.HasPrefix(l, "github.com/snapcore/snapd/") || strings.Contains(l, "verif") {
			continue
		}
		if i := strings.LastIndex(l, "("); i > 0 {
			l = l[:i]
		}
		fns = append(fns, strings.TrimPrefix(l, "github.com/snapcore/snapd/"))
		if len(fns) == 6 {
			break
		}
	}
	return strings.Join(fns, " < ")
}

func verifRunC30(c *verifsim.Ctx) {
	defer func() {
		if r := recover(); r != nil {
			if _, ok := r.(verifsim.HarnessError); ok {
				panic(r)
			}
			c.Violate("C30/panic", "panic in snapd code: %v @ %s", r, verifPanicSite())
		}
	}()
	s := &verifSim{c: c, assert: map[string]*asserts.Registry{}, tokOwner: map[string]int{}}
	s.mode = c.Draw("mode", 3)
	s.faults = c.Draw("faults", 4) != 0
	c.Logf("mode %d faults %v", s.mode, s.faults)
	s.genRegistries()
	restore := registrystate.VerifMockAssertstateRegistry(func(st *state.State, account, name string) (*asserts.Registry, error) {
		if a := s.assert[account+"/"+name]; a != nil {
			return a, nil
		}
		return nil, &asserts.NotFoundError{Type: asserts.RegistryType}
	})
	defer restore()
	if s.mode == 2 {
		s.mem = map[string]registry.JSONDataBag{}
		for _, r := range s.regs {
			s.mem[r.key()] = registry.NewJSONDataBag()
		}
	} else {
		s.be = &verifBackend{}
		s.st = state.New(s.be)
	}
	nclients := 1
	if s.mode != 0 {
		nclients = 1 + c.Draw("nclients", 3)
	}
	s.clients = make([]*verifTx, nclients)

	for i, n := 0, c.Draw("ncanaries", 5); i < n; i++ {
		s.plantOp()
	}

	maxOps := 16
	if c.Tier == "thorough" {
		maxOps = 48
	}
	nops := 1 + c.Draw("nops", maxOps)
	for i := 0; i < nops && len(c.Violations) == 0; i++ {
		if s.mode == 0 {
			s.entryOp()
		} else {
			s.txOp()
		}
	}
	// commit what is still open (in client order)
	for ci, t := range s.clients {
		if t != nil && len(c.Violations) == 0 && c.Draw("final-commit", 2) == 0 {
			s.txCommit(ci, t)
		}
	}
	c.Add("requests-accepted", int64(s.accepted))
	c.Add("requests-rejected", int64(s.rejected))
	if s.accepted > 0 && (s.rejected > 0 || s.faultFired || s.overlapped) {
		c.Nontrivial()
	}
}

func (s *verifSim) entryOp() {
	c := s.c
	reg := s.regs[c.Draw("reg", len(s.regs))]
	v := s.pickView(reg)
	switch op := c.Draw("op", 12); op {
	case 0, 1, 2:
		s.entryGet(reg, v, v.name, s.genFields(v))
	case 3, 4, 5, 6:
		req, suffix := s.genRequest(v, false)
		if v.orderSensitive(req) {
			c.Count("skipped:order-sensitive-set")
			return
		}
		val := s.genValue(v, req, suffix, -1)
		s.entrySet(reg, v, v.name, reg.account, map[string]interface{}{req: val})
	case 7:
		// several requests at once; their footprints must not overlap,
		// otherwise Go map order inside snapd decides the result
		n := 2 + c.Draw("nreqs", 2)
		requests := map[string]interface{}{}
		var pats [][]string
		for i := 0; i < n; i++ {
			req, suffix := s.genRequest(v, false)
			if _, dup := requests[req]; dup || req == "" {
				continue
			}
			var mine [][]string
			if err := verifValidPath(req); err == nil {
				mine = v.writePats(strings.Split(req, "."))
			}
			clash := v.orderSensitive(req)
			for _, p := range pats {
				for _, q := range mine {
					// not even a common top-level key: a write below a
					// non-map value replaces it, which makes a failing
					// unset next to it succeed if it is applied later
					if verifOverlap(p[:1], q[:1]) {
						clash = true
					}
				}
			}
			if clash {
				continue
			}
			pats = append(pats, mine...)
			if c.Draw("multi-unset", 4) == 3 {
				requests[req] = nil
			} else {
				requests[req] = s.genValue(v, req, suffix, -1)
			}
		}
		if len(requests) > 0 {
			s.entrySet(reg, v, v.name, reg.account, requests)
		}
	case 8, 9:
		req, _ := s.genRequest(v, false)
		s.entrySet(reg, v, v.name, reg.account, map[string]interface{}{req: nil})
	case 10:
		switch c.Draw("misc", 4) {
		case 0:
			s.plantOp()
		case 1:
			s.restart()
		case 2:
			// a view that does not exist
			req, suffix := s.genRequest(v, false)
			s.entrySet(reg, nil, "view-none", reg.account, map[string]interface{}{req: s.genValue(v, req, suffix, -1)})
			s.entryGet(reg, nil, "view-none", nil)
		case 3:
			// a registry that does not exist
			req, suffix := s.genRequest(v, false)
			s.entrySet(reg, nil, v.name, "acc-none", map[string]interface{}{req: s.genValue(v, req, suffix, -1)})
		}
	case 11:
		s.plantOp()
	}
}

func verifValidPath(req string) error {
	if req == "" {
		return errors.New("empty")
	}
	for _, k := range strings.Split(req, ".") {
		if k == "" {
			return errors.New("empty subkey")
		}
	}
	return nil
}

func (s *verifSim) txOp() {
	c := s.c
	ci := c.Draw("client", len(s.clients))
	t := s.clients[ci]
	if t == nil {
		s.txBegin(ci, s.regs[c.Draw("reg", len(s.regs))])
		return
	}
	v := s.pickView(t.reg)
	switch op := c.Draw("op", 12); op {
	case 0, 1, 2:
		s.txGet(ci, t, v, s.genFields(v))
	case 3, 4, 5, 6:
		req, suffix := s.genRequest(v, false)
		if v.orderSensitive(req) {
			c.Count("skipped:order-sensitive-set")
			return
		}
		s.txSet(ci, t, v, req, s.genValue(v, req, suffix, ci))
	case 7, 8:
		req, _ := s.genRequest(v, false)
		s.txSet(ci, t, v, req, nil)
	case 9:
		s.txCommit(ci, t)
	case 10:
		switch c.Draw("misc", 4) {
		case 0, 1:
			s.plantOp()
		case 2:
			c.Logf("client %d abandons its transaction", ci)
			c.Count("tx-abandoned")
			s.clients[ci] = nil
		case 3:
			if s.mode == 1 {
				s.restart()
			} else {
				s.plantOp()
			}
		}
	case 11:
		s.txCommit(ci, t)
	}
}

var verifEngineC30 = &verifsim.Engine{
	Name:   "T/C30: registry views and transactions over generated view definitions",
	Bubble: false,
	Run:    verifRunC30,
	Real: []string{
		"overlord/registrystate: SetViaView, GetViaView, SetViaViewInTx, GetViaViewInTx, RegistryTransaction, newTransaction/getDatabag/updateDatabags",
		"registry: New (rule parsing, nesting), View.Set/Unset/Get, rule matching and access, getValuesThroughPaths, namespaceResult/mergeNamespaces, Transaction (NewTransaction, Set/Unset/Get, Commit, applyDeltas), JSONDataBag",
		"overlord/state (Get/Set, checkpoint JSON, ReadState on restart), overlord/hookstate.Context (Lock, Cache, OnDone, Done)",
	},
	Stubs: []string{
		"assertion lookup: registrystate's assertstateRegistry variable returns the generated registry (no signed assertion, asserts.VerifRegistryAssertion accessor)",
		"schema: registry.Schema implementation that accepts every document without the drawn forbidden marker (type Any everywhere)",
		"mode 2 storage: in-memory DatabagRead/DatabagWrite closures that can fail",
		"no snap, no hook process: hook contexts are created directly (ephemeral contexts with fixed ids)",
	},
}
