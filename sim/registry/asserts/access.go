//go:build verif

package asserts

import (
	"github.com/snapcore/snapd/registry"
)

// VerifRegistryAssertion wraps an already assembled registry.Registry into a
// registry assertion value, so that a simulator can stand in for
// assertstate.Registry without signing keys (added through the build overlay;
// not part of the tree). Only Registry() is meaningful on the result.
func VerifRegistryAssertion(reg *registry.Registry) *Registry {
	return &Registry{registry: reg}
}
