//go:build verif

package osutil

// snapd's own test binaries skip fsync in AtomicWriteFile (snapdUnsafeIO is
// true when the executable path looks like go-build's ...test). The
// simulation binary lives under a scratch directory that does not match that
// pattern, so the filesystem backstore would fsync every assertion it writes
// (about 100 ms per simulated run on this machine). Durability is not part of
// C18-C20; behave like the package's tests.
func init() {
	snapdUnsafeIO = true
}
