package asserts_test

import (
	"os"
	"runtime/debug"
	"runtime/pprof"
	"testing"
	"time"

	"github.com/snapcore/snapd/internal/verifsim"
)

func TestVerifSim(t *testing.T) {
	// short-lived garbage only (encodings, parsed headers): collect less often
	debug.SetGCPercent(400)
	if p := os.Getenv("VERIF_DEV_PPROF"); p != "" {
		f, _ := os.Create(p)
		pprof.StartCPUProfile(f)
		go func() { time.Sleep(8 * time.Second); pprof.StopCPUProfile(); f.Close() }()
	}
	verifsim.Main(t, map[string]*verifsim.Engine{
		"C18": verifEngineC18,
		"C19": verifEngineC19,
		"C20": verifEngineC20,
	})
}
