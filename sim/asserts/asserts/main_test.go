package asserts_test

import (
	"runtime/debug"
	"testing"

	"github.com/snapcore/snapd/internal/verifsim"
)

// One engine per property, all hosted in package asserts_test (external test
// package: it uses the package's own export_test.go helpers and test-only
// assertion types).
func TestVerifSim(t *testing.T) {
	// short-lived garbage only (encodings, parsed headers): collect less often
	debug.SetGCPercent(400)
	verifsim.Main(t, map[string]*verifsim.Engine{
		"C18": verifEngineC18,
		"C19": verifEngineC19,
		"C20": verifEngineC20,
	})
}
