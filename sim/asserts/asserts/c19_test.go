package asserts_test

// C19: stored assertions only move forward in revision; the memory and the
// filesystem backstore agree on every result.
//
// A reference model (identity -> per format the highest revision whose Add
// succeeded) is kept next to a memory-backed and a filesystem-backed
// asserts.Database; every Add/Find/FindMaxFormat/FindMany/FindSequence of
// both is compared with it. The filesystem database is re-opened from disk
// at drawn points.

import (
	"bytes"
	"errors"
	"fmt"
	"sort"
	"strconv"
	"strings"
	"time"

	"github.com/snapcore/snapd/asserts"
	"github.com/snapcore/snapd/internal/verifsim"
)

var verifEngineC19 = &verifsim.Engine{
	Name:   "asserts-C19",
	Bubble: true,
	Run:    verifRunC19,
	Real: []string{
		"asserts.Database Add/Find/FindMaxFormat/FindMany/FindSequence, trusted and predefined clash checks",
		"memory backstore (asserts/membackstore.go)",
		"filesystem backstore on real files incl. optional primary keys, formats, sequence wildcards (asserts/fsbackstore.go, findwildcard.go)",
		"signature and key checks of every Add (real RSA keys)",
	},
	Stubs: []string{
		"the signing infrastructure: the simulator holds every private key",
		"process restart: the filesystem database is re-opened on the same directory (memory database kept)",
		"fsync is skipped as in snapd's own test binaries (osutil snapdUnsafeIO)",
	},
}

type verifEnt struct {
	rev    int
	format int
	enc    string
	label  string
	str    map[string]string // string-valued headers
	seq    int
}

type verifIdent struct {
	typ  *asserts.AssertionType
	pk   []string // full primary key (optional ones filled in)
	id   string
	fmts map[int]*verifEnt
}

func (i *verifIdent) best(maxFormat int) *verifEnt {
	var b *verifEnt
	for f, e := range i.fmts {
		if f <= maxFormat && (b == nil || e.rev > b.rev) {
			b = e
		}
	}
	return b
}

type verifC19 struct {
	c       *verifsim.Ctx
	keys    map[string]*verifKey
	st      *verifStores
	model   map[string]*verifIdent
	builtin map[string]string // identity -> encoding of the built-in assertion
	fired   int
	adds    int
	quirk   bool // an assertion with a new-line-led signature block was delivered
	dots    []string // identities with "." or ".." in the primary key that Add accepted
	curDot  bool     // the lookup being judged itself uses "." or ".." as a key value
	// stacking: tops[i] is the database operations go to (the base one or
	// the top of a chain built with WithStackedBackstore); chain[i] holds
	// the memory backstores of the stacked levels above base i; layers is
	// the model per level (layers[0] = base), w.model the merged view
	tops   []*asserts.Database
	chain  [][]asserts.Backstore
	layers []map[string]*verifIdent
}

func (w *verifC19) dbs() []*asserts.Database { return w.tops }

// rebuild re-creates the chains over the current base databases.
func (w *verifC19) rebuild() {
	w.tops = append([]*asserts.Database(nil), w.st.dbs()...)
	for i := range w.tops {
		for _, bs := range w.chain[i] {
			w.tops[i] = w.tops[i].WithStackedBackstore(bs)
		}
	}
}

// opStack puts one more level on both chains (up to three).
func (w *verifC19) opStack() {
	if len(w.layers) > 3 {
		w.opFind()
		return
	}
	for i := range w.chain {
		w.chain[i] = append(w.chain[i], asserts.NewMemoryBackstore())
	}
	w.layers = append(w.layers, map[string]*verifIdent{})
	w.rebuild()
	w.c.Logf("stack: operations now go to databases stacked %d level(s) above mem and fs", len(w.layers)-1)
	w.fault("stacked-one-more-level")
	if len(w.layers) > 2 {
		w.c.Count("probe:stacked-two-or-more-levels")
	}
}

const verifC19DotClass = "fs-store-misplaces-dot-or-dotdot-primary-key"

func verifHasDotPK(pk []string) bool {
	for _, v := range pk {
		if v == "." || v == ".." {
			return true
		}
	}
	return false
}

// fsClass attributes a failure of the filesystem store: once an assertion
// whose primary key has a "." or ".." component was accepted, the store
// has written it outside its directory and its listings (FindMany,
// FindSequence) and even other identities can be affected; that is one
// specific finding, everything else keeps the generic class.
func (w *verifC19) fsClass(store, generic string) string {
	if store == "fs" && (len(w.dots) > 0 || w.curDot) {
		return verifC19DotClass
	}
	return generic
}

const verifC19BrokenClass = "fs-store-cannot-read-back-what-it-stored:signature-block-led-by-empty-line"

func (w *verifC19) fault(k string) { w.c.Count("fault:" + k); w.fired++ }

// sequence numbers with one, two and three digits: directory names sort
// differently from numbers
var verifSeqMenu = []int{1, 2, 3, 9, 10, 11, 99, 100, 101}
var verifAfterMenu = []int{-1, 0, 1, 2, 3, 8, 9, 10, 11, 12, 98, 99, 100, 101, 102}

var verifOddPK = []string{"k0", "k1", "a b", "x*y", "0:z", "ü-1", "active", "#>", "k%2A", "..k", "k.", "-"}

// verifDotPK: primary key values that are also directory entries.
var verifDotPK = []string{"..", "."}

func verifMaxFormat(t *asserts.AssertionType) int { return t.MaxSupportedFormat() }

func (w *verifC19) violate(class, format string, args ...interface{}) {
	if w.c.Active("C19") {
		w.c.Violate("C19/"+class, format, args...)
	}
}

func verifRunC19(c *verifsim.Ctx) {
	for _, p := range verifProbesC19 {
		c.Add(p, 0) // so that a probe that is never reached shows up as 0
	}
	stage := "running"
	defer verifRecover(c, &stage)
	keys := verifKeys()
	w := &verifC19{c: c, keys: keys, model: map[string]*verifIdent{}, builtin: map[string]string{}}
	root, store := keys["root"], keys["store"]
	since := verifT0.Add(-365 * 24 * time.Hour)
	mk := func(k *verifKey, t *asserts.AssertionType, h map[string]interface{}, body []byte) asserts.Assertion {
		return verifMustSign(c, k, t, h, body)
	}
	acct := mk(root, asserts.AccountType, map[string]interface{}{"authority-id": "canonical", "account-id": "canonical", "display-name": "Canonical", "validation": "verified", "timestamp": verifRFC(since)}, nil)
	// the built-in assertions may be in a newer format than what is added later
	builtinFormat := func(h map[string]interface{}, label string) map[string]interface{} {
		if c.Draw(label, 2) == 1 {
			h["format"] = "1"
			c.Count("probe:builtin-in-format-1")
		}
		return h
	}
	akRoot := mk(root, asserts.AccountKeyType, builtinFormat(map[string]interface{}{"authority-id": "canonical", "account-id": "canonical", "name": "root", "public-key-sha3-384": root.id, "since": verifRFC(since)}, "trusted-key-format"), root.pubEnc)
	akStore := mk(root, asserts.AccountKeyType, map[string]interface{}{"authority-id": "canonical", "account-id": "canonical", "name": "store", "public-key-sha3-384": store.id, "since": verifRFC(since)}, store.pubEnc)
	predefT := mk(store, asserts.TestOnlyType, builtinFormat(map[string]interface{}{"authority-id": "canonical", "primary-key": "predef", "revision": "2", "tag": "t0"}, "predefined-format"), nil)
	predefA := mk(root, asserts.AccountType, map[string]interface{}{"authority-id": "canonical", "account-id": "predef-acct", "display-name": "Predefined", "validation": "verified", "timestamp": verifRFC(since), "revision": "1"}, nil)
	trusted := []asserts.Assertion{acct, akRoot}
	predefined := []asserts.Assertion{predefT, predefA}
	for _, a := range append(append([]asserts.Assertion{}, trusted...), predefined...) {
		w.builtin[verifIdentity(a)] = string(asserts.Encode(a))
	}
	w.st = verifOpenStores(c, trusted, predefined)
	defer w.st.close()
	w.chain = make([][]asserts.Backstore, 2)
	w.layers = []map[string]*verifIdent{{}}
	w.rebuild()
	faults := c.Draw("faults", 4) != 0
	c.Logf("faults=%v", faults)

	// the store key everything else is signed with
	w.add("store account-key", akStore, true)

	nops := c.Range("nops", 6, 44)
	for i := 0; i < nops && len(c.Violations) == 0; i++ {
		op := c.Draw("op", 13)
		switch {
		case op <= 4:
			w.opAdd(faults)
		case op == 5:
			w.opFind()
		case op == 6:
			w.opFindMaxFormat()
		case op == 7:
			w.opFindMany()
		case op == 8:
			w.opFindSequence()
		case op == 9:
			if faults {
				w.opClash()
			} else {
				w.opFind()
			}
		case op == 10:
			c.Logf("restart: fs database re-opened from disk")
			w.st.reopenFS()
			w.rebuild()
			w.fault("restart")
			if len(w.model) > 0 {
				c.Count("probe:restart-with-stored-assertions")
			}
			w.audit("after restart")
		case op == 11:
			w.opFindMany()
			w.opFindSequence()
		case op == 12:
			w.opStack()
		}
	}
	if len(c.Violations) == 0 {
		w.audit("end of run")
	}
	if w.fired > 0 && w.adds >= 2 {
		c.Nontrivial()
	}
}

// ---- generation

type verifGen struct {
	t      *asserts.AssertionType
	h      map[string]interface{}
	pk     []string
	format int
}

func (w *verifC19) genIdentity() verifGen {
	c := w.c
	g := verifGen{h: map[string]interface{}{"authority-id": "canonical"}}
	switch c.Draw("type", 3) {
	case 0:
		g.t = asserts.TestOnlyType
		pk := verifOddPK[c.Draw("pk", len(verifOddPK))]
		if c.Chance("dot-pk", 1, 120) {
			pk = verifDotPK[c.Draw("which-dot", 2)]
		}
		g.h["primary-key"] = pk
		g.pk = []string{pk}
		g.format = c.Draw("format", 2)
	case 1:
		g.t = asserts.TestOnly2Type
		pk1 := []string{"a", "b*", "c d"}[c.Draw("pk1", 3)]
		pk2 := []string{"x", "y:z"}[c.Draw("pk2", 2)]
		if c.Chance("dot-pk", 1, 120) {
			pk1 = verifDotPK[c.Draw("which-dot", 2)]
			if c.Chance("dot-pk2", 1, 2) {
				pk2 = verifDotPK[c.Draw("which-dot", 2)]
			}
		}
		opt := []string{"", "o2", "0:o3"}[c.Draw("opt1", 3)]
		g.h["pk1"], g.h["pk2"] = pk1, pk2
		if opt != "" {
			g.h["opt1"] = opt
			c.Count("probe:optional-primary-key-non-default")
		} else {
			opt = "o1-defl"
		}
		g.pk = []string{pk1, pk2, opt}
	case 2:
		g.t = asserts.TestOnlySeqType
		n := []string{"s1", "s 2"}[c.Draw("n", 2)]
		seq := verifSeqMenu[c.Draw("sequence", len(verifSeqMenu))]
		g.h["n"], g.h["sequence"] = n, strconv.Itoa(seq)
		g.pk = []string{n, strconv.Itoa(seq)}
		g.format = c.Draw("format", 3)
	}
	if g.format > 0 {
		g.h["format"] = strconv.Itoa(g.format)
	}
	return g
}

func verifIdentOf(t *asserts.AssertionType, pk []string) string {
	return t.Name + "/" + strings.Join(pk, "/")
}

// genForAdd prefers identities that are already stored, so that revisions
// and formats of one identity pile up.
func (w *verifC19) genForAdd() verifGen {
	c := w.c
	var ids []string
	for id, m := range w.model {
		if m.typ != asserts.AccountKeyType {
			ids = append(ids, id)
		}
	}
	sort.Strings(ids)
	if len(ids) == 0 || c.Draw("reuse-identity", 3) == 0 {
		return w.genIdentity()
	}
	m := w.model[ids[c.Draw("which-identity", len(ids))]]
	g := verifGen{t: m.typ, pk: m.pk, h: map[string]interface{}{"authority-id": "canonical"}}
	for i, name := range m.typ.PrimaryKey {
		if m.typ.OptionalPrimaryKeyDefaults[name] == m.pk[i] {
			continue
		}
		g.h[name] = m.pk[i]
	}
	g.format = c.Draw("format", verifMaxFormat(m.typ)+1)
	if g.format > 0 {
		g.h["format"] = strconv.Itoa(g.format)
	}
	return g
}

func (w *verifC19) opAdd(faults bool) {
	c := w.c
	g := w.genForAdd()
	w.opAddGen(g, faults)
	// sequences grow by several members at a time now and then, with
	// numbers of different lengths
	if g.t == asserts.TestOnlySeqType && len(c.Violations) == 0 && c.Chance("sequence-burst", 1, 3) {
		for j := 0; j < 2 && len(c.Violations) == 0; j++ {
			seq := verifSeqMenu[c.Draw("sequence", len(verifSeqMenu))]
			g2 := verifGen{t: g.t, h: map[string]interface{}{"authority-id": "canonical", "n": g.pk[0], "sequence": strconv.Itoa(seq)}, pk: []string{g.pk[0], strconv.Itoa(seq)}}
			g2.format = c.Draw("format", 3)
			if g2.format > 0 {
				g2.h["format"] = strconv.Itoa(g2.format)
			}
			w.opAddGen(g2, false)
		}
	}
}

func (w *verifC19) opAddGen(g verifGen, faults bool) {
	c := w.c
	id := verifIdentOf(g.t, g.pk)
	cur := -1
	if m := w.model[id]; m != nil {
		if b := m.best(verifMaxFormat(g.t)); b != nil {
			cur = b.rev
		}
	}
	var rev int
	switch c.Draw("rev", 5) {
	case 0, 1:
		rev = cur + 1
	case 2:
		rev = verifMax(cur, 0)
	case 3:
		rev = verifMax(cur-1-c.Draw("rev-back", 2), 0)
	case 4:
		rev = cur + 1 + c.Draw("rev-jump", 4)
	}
	if rev > 0 {
		g.h["revision"] = strconv.Itoa(rev)
	}
	g.h["tag"] = "t" + strconv.Itoa(c.Draw("tag", 3))
	var body []byte
	if c.Chance("body", 1, 4) {
		body = []byte("body rev " + strconv.Itoa(rev))
	}
	signer := w.keys["store"]
	good := true
	how := "genuine"
	if faults {
		switch c.Draw("forge", 40) {
		case 8, 18, 28:
			signer = w.keys["stray"] // a key the databases never heard of
			good = false
			how = "signed-by-unknown-key"
			w.fault("add-signed-by-unknown-key")
		case 9, 19, 29:
			how = "foreign-signature"
		}
		if how == "genuine" && c.Chance("stray-new-line", 1, 1000) {
			how = "empty-line-before-signature-via-stream"
		}
	}
	a := verifMustSign(c, signer, g.t, g.h, body)
	if how == "foreign-signature" {
		other := verifMustSign(c, signer, g.t, map[string]interface{}{"authority-id": "canonical", "primary-key": "zz", "n": "zz", "sequence": "1", "pk1": "zz", "pk2": "zz"}, nil)
		content, _ := a.Signature()
		_, osig := other.Signature()
		d, err := asserts.Decode(verifJoin(content, osig))
		if err != nil {
			c.Fatalf("spliced assertion does not decode: %v", err)
		}
		a = d
		good = false
		w.fault("add-with-foreign-signature")
	}
	label := fmt.Sprintf("%s rev%d fmt%d tag=%s %s", id, rev, g.format, g.h["tag"], how)
	if how == "empty-line-before-signature-via-stream" {
		// the same signed content and signature bytes, one stray new line
		// between them, read through the stream decoder
		content, sig := a.Signature()
		wire := append(append(append([]byte(nil), content...), '\n', '\n', '\n'), sig...)
		d, err := asserts.NewDecoder(bytes.NewReader(wire)).Decode()
		w.fault("add-of-stream-decoded-assertion-with-stray-new-line")
		if err != nil {
			c.Logf("add %s -> rejected by the stream decoder", label)
			return
		}
		a = d
		w.quirk = true
	}
	w.add(label, a, good)
}

// add delivers a to both databases and compares with the model.
func (w *verifC19) add(label string, a asserts.Assertion, good bool) {
	c := w.c
	t := a.Type()
	id := verifIdentity(a)
	rev, format := a.Revision(), a.Format()
	m := w.model[id]
	cur := -1
	if m != nil {
		if b := m.best(verifMaxFormat(t)); b != nil {
			cur = b.rev
		}
	}
	_, clash := w.builtin[id]
	var errs [2]error
	for i, db := range w.dbs() {
		errs[i] = db.Add(a)
	}
	c.Logf("add %s (current %d) -> mem:%s fs:%s", label, cur, verifErrClass(errs[0]), verifErrClass(errs[1]))
	w.adds++
	if (errs[0] == nil) != (errs[1] == nil) {
		class := "stores-disagree"
		if errs[1] != nil && (len(w.dots) > 0 || verifHasDotPK(a.Ref().PrimaryKey)) {
			class = verifC19DotClass
		}
		w.violate(class, "Add(%s): memory store says %s, filesystem store says %s%s", label, verifErrClass(errs[0]), verifErrClass(errs[1]), w.dotNote())
		return
	}
	accepted := errs[0] == nil
	switch {
	case !good:
		if accepted {
			w.violate("unsigned-add-accepted", "Add(%s) accepted although the signature cannot verify", label)
			return
		}
	case clash:
		w.fault("add-clashing-with-builtin")
		if accepted {
			w.violate("clash-with-trusted-or-predefined-accepted", "Add(%s) accepted although %s is built into the database (trusted or predefined)", label, id)
			return
		}
		c.Count("probe:clash-refused")
	case cur >= 0 && rev <= cur:
		if rev == cur {
			w.fault("add-equal-revision")
		} else {
			w.fault("add-lower-revision")
		}
		if depth := w.depthOf(id); depth >= 2 {
			c.Count("probe:stale-add-with-current-revision-two-or-more-levels-down")
		} else if depth == 1 {
			c.Count("probe:stale-add-with-current-revision-one-level-down")
		}
		if accepted {
			w.violate("equal-or-lower-revision-accepted", "Add(%s) accepted although revision %d is already stored", label, cur)
			return
		}
		var re *asserts.RevisionError
		if errors.As(errs[0], &re) && errors.As(errs[1], &re) {
			c.Count("probe:revision-error-on-stale-add")
		}
	default:
		if !accepted {
			w.violate(w.fsClass("fs", "higher-revision-refused"), "Add(%s) refused although the stored revision is %d: mem %s, fs %s%s", label, cur, verifErrClass(errs[0]), verifErrClass(errs[1]), w.dotNote())
			return
		}
		if m == nil {
			m = &verifIdent{typ: t, pk: a.Ref().PrimaryKey, id: id, fmts: map[int]*verifEnt{}}
			w.model[id] = m
		}
		e := &verifEnt{rev: rev, format: format, enc: string(asserts.Encode(a)), label: label, str: map[string]string{}}
		for k, v := range a.Headers() {
			if s, ok := v.(string); ok {
				e.str[k] = s
			}
		}
		if sm, ok := a.(asserts.SequenceMember); ok {
			e.seq = sm.Sequence()
		}
		m.fmts[format] = e
		top := w.layers[len(w.layers)-1]
		if top[id] == nil {
			top[id] = &verifIdent{typ: t, pk: m.pk, id: id, fmts: map[int]*verifEnt{}}
		}
		top[id].fmts[format] = e
		if len(w.layers) > 1 && cur >= 0 {
			c.Count("probe:revision-moved-forward-above-a-lower-level")
		}
		if verifHasDotPK(m.pk) {
			if len(w.dots) == 0 || w.dots[len(w.dots)-1] != id {
				w.dots = append(w.dots, id)
			}
			c.Count("probe:dot-primary-key-stored")
		}
		if len(m.fmts) > 1 {
			c.Count("probe:identity-stored-in-several-formats")
		}
		if cur >= 0 {
			c.Count("probe:revision-moved-forward")
		}
	}
	// whatever happened, the identity must now read back as the model says
	w.checkFind(t, a.Ref().PrimaryKey, nil, "after add "+label)
}

func (w *verifC19) opClash() {
	c := w.c
	root, store := w.keys["root"], w.keys["store"]
	since := verifT0.Add(-365 * 24 * time.Hour)
	rev := strconv.Itoa(3 + c.Draw("clash-rev", 5))
	var a asserts.Assertion
	switch c.Draw("clash", 4) {
	case 0:
		a = verifMustSign(c, root, asserts.AccountType, map[string]interface{}{"authority-id": "canonical", "account-id": "canonical", "display-name": "Canonical 2", "validation": "verified", "timestamp": verifRFC(since), "revision": rev}, nil)
	case 1:
		h := map[string]interface{}{"authority-id": "canonical", "account-id": "canonical", "name": "root", "public-key-sha3-384": root.id, "since": verifRFC(since), "revision": rev}
		if c.Draw("clash-format", 2) == 1 {
			h["format"] = "1"
		}
		a = verifMustSign(c, root, asserts.AccountKeyType, h, root.pubEnc)
	case 2:
		h := map[string]interface{}{"authority-id": "canonical", "primary-key": "predef", "revision": rev, "tag": "t1"}
		if c.Draw("clash-format", 2) == 1 {
			h["format"] = "1"
		}
		a = verifMustSign(c, store, asserts.TestOnlyType, h, nil)
	case 3:
		a = verifMustSign(c, root, asserts.AccountType, map[string]interface{}{"authority-id": "canonical", "account-id": "predef-acct", "display-name": "Predefined 2", "validation": "verified", "timestamp": verifRFC(since), "revision": rev}, nil)
	}
	w.add("clash "+verifIdentity(a)+" rev"+rev, a, true)
}

// depthOf: how many levels below the top the current revision of an
// identity lives (0 = in the top database's own backstore, -1 = nowhere).
func (w *verifC19) depthOf(id string) int {
	for d := 0; d < len(w.layers); d++ {
		if w.layers[len(w.layers)-1-d][id] != nil {
			return d
		}
	}
	return -1
}

// ---- lookups

func verifHeadersFor(t *asserts.AssertionType, pk []string) map[string]string {
	h := map[string]string{}
	for i, name := range t.PrimaryKey {
		if i < len(pk) {
			h[name] = pk[i]
		}
	}
	return h
}

func verifIsNotFound(err error) bool { return errors.Is(err, &asserts.NotFoundError{}) }

// pickIdentity draws a stored identity (mostly) or a fresh one.
func (w *verifC19) pickIdentity() (t *asserts.AssertionType, pk []string, id string) {
	c := w.c
	ids := make([]string, 0, len(w.model))
	for id := range w.model {
		ids = append(ids, id)
	}
	sort.Strings(ids)
	if len(ids) > 0 && c.Draw("known-identity", 4) != 3 {
		m := w.model[ids[c.Draw("which-identity", len(ids))]]
		return m.typ, m.pk, m.id
	}
	g := w.genIdentity()
	return g.t, g.pk, verifIdentOf(g.t, g.pk)
}

// checkFind compares Find of one identity on both stores with the model.
func (w *verifC19) checkFind(t *asserts.AssertionType, pk []string, filter map[string]string, why string) {
	c := w.c
	id := verifIdentOf(t, pk)
	w.curDot = verifHasDotPK(pk)
	defer func() { w.curDot = false }()
	want := ""
	wantLabel := "absent"
	if m := w.model[id]; m != nil {
		if b := m.best(verifMaxFormat(t)); b != nil {
			want, wantLabel = b.enc, b.label
			for k, v := range filter {
				if b.str[k] != v {
					want, wantLabel = "", "filtered out"
				}
			}
		}
	}
	if enc, ok := w.builtin[id]; ok {
		want, wantLabel = enc, "built-in"
	}
	h := verifHeadersFor(t, pk)
	for k, v := range filter {
		h[k] = v
	}
	for i, db := range w.dbs() {
		got, err := db.Find(t, h)
		w.compareOne(w.st.names[i], "Find("+id+") "+why, got, err, want, wantLabel)
	}
	c.Count("find-checks")
}

func (w *verifC19) compareOne(store, what string, got asserts.Assertion, err error, want, wantLabel string) {
	switch {
	case err != nil && !verifIsNotFound(err) && w.quirk && store == "fs" && strings.Contains(err.Error(), "broken assertion storage"):
		w.violate(verifC19BrokenClass, "%s: %s fails after an Add that both stores accepted (the memory store still answers): %s", store, what, verifNoPath(err))
	case err != nil && !verifIsNotFound(err):
		w.violate(w.fsClass(store, "lookup-failed"), "%s: %s fails: %v%s", store, what, verifNoPath(err), w.dotNote())
	case err != nil && want != "":
		w.violate(w.fsClass(store, "find-not-highest"), "%s: %s says not found, the highest revision added is %s%s", store, what, wantLabel, w.dotNote())
	case err == nil && want == "":
		w.violate(w.fsClass(store, "find-not-highest"), "%s: %s returns revision %d of %s, expected nothing (%s)%s", store, what, got.Revision(), verifIdentity(got), wantLabel, w.dotNote())
	case err == nil && string(asserts.Encode(got)) != want:
		w.violate(w.fsClass(store, "find-not-highest"), "%s: %s returns revision %d format %d, the highest revision added is %s%s", store, what, got.Revision(), got.Format(), wantLabel, w.dotNote())
	}
}

func (w *verifC19) dotNote() string {
	if len(w.dots) == 0 {
		return ""
	}
	return fmt.Sprintf(" [stored earlier: %v]", w.dots)
}

func verifNoPath(err error) string { return verifErrClass(err) }

func (w *verifC19) opFind() {
	c := w.c
	t, pk, id := w.pickIdentity()
	var filter map[string]string
	if c.Chance("find-filter", 1, 3) {
		filter = map[string]string{"tag": "t" + strconv.Itoa(c.Draw("tag", 3))}
	}
	if w.model[id] == nil {
		// absent identity: both must say not found
		w.curDot = verifHasDotPK(pk)
		defer func() { w.curDot = false }()
		h := verifHeadersFor(t, pk)
		for i, db := range w.dbs() {
			got, err := db.Find(t, h)
			w.compareOne(w.st.names[i], "Find("+id+")", got, err, "", "never added")
		}
		c.Logf("find %s (never added)", id)
		c.Count("probe:find-absent")
		return
	}
	c.Logf("find %s filter=%v", id, filter)
	w.checkFind(t, pk, filter, "")
}

func (w *verifC19) opFindMaxFormat() {
	c := w.c
	t, pk, id := w.pickIdentity()
	mf := c.Draw("max-format", verifMaxFormat(t)+1)
	want, wantLabel := "", "absent"
	if m := w.model[id]; m != nil {
		if b := m.best(mf); b != nil {
			want, wantLabel = b.enc, b.label
			if full := m.best(verifMaxFormat(t)); full != b {
				c.Count("probe:max-format-hides-higher-revision")
			}
		} else {
			wantLabel = "only in higher formats"
		}
	}
	c.Logf("find-max-format %s max=%d", id, mf)
	w.curDot = verifHasDotPK(pk)
	defer func() { w.curDot = false }()
	h := verifHeadersFor(t, pk)
	for i, db := range w.dbs() {
		got, err := db.FindMaxFormat(t, h, mf)
		w.compareOne(w.st.names[i], fmt.Sprintf("FindMaxFormat(%s, %d)", id, mf), got, err, want, wantLabel)
	}
}

func (w *verifC19) opFindMany() {
	c := w.c
	t := []*asserts.AssertionType{asserts.TestOnlyType, asserts.TestOnly2Type, asserts.TestOnlySeqType}[c.Draw("many-type", 3)]
	h := map[string]string{}
	// take the values from a stored identity when there is one
	var ids []string
	for id, m := range w.model {
		if m.typ == t {
			ids = append(ids, id)
		}
	}
	sort.Strings(ids)
	var pk []string
	if len(ids) > 0 {
		pk = w.model[ids[c.Draw("many-like", len(ids))]].pk
	} else {
		for range t.PrimaryKey {
			pk = append(pk, "none")
		}
	}
	for i, name := range t.PrimaryKey {
		if c.Chance("many-use-"+name, 1, 2) {
			h[name] = pk[i]
		}
	}
	if c.Chance("many-tag", 1, 3) {
		h["tag"] = "t" + strconv.Itoa(c.Draw("tag", 3))
	}
	// FindMany of a stacked database searches every level and returns
	// each level's current assertion of an identity
	var want []string
	for _, layer := range w.layers {
		for _, id := range ids {
			if layer[id] == nil {
				continue
			}
			b := layer[id].best(verifMaxFormat(t))
			if b == nil {
				continue
			}
			ok := true
			for k, v := range h {
				if b.str[k] != v {
					ok = false
				}
			}
			if ok {
				want = append(want, b.enc)
			}
		}
	}
	if t == asserts.TestOnlyType {
		// the predefined test-only assertion is part of every database
		ok := true
		for k, v := range h {
			if map[string]string{"primary-key": "predef", "tag": "t0"}[k] != v {
				ok = false
			}
		}
		if ok {
			want = append(want, w.builtin["test-only/predef"])
		}
	}
	sort.Strings(want)
	hs := make([]string, 0, len(h))
	for k, v := range h {
		hs = append(hs, k+"="+v)
	}
	sort.Strings(hs)
	for _, v := range h {
		if v == "." || v == ".." {
			w.curDot = true
		}
	}
	defer func() { w.curDot = false }()
	c.Logf("find-many %s %v -> expect %d", t.Name, hs, len(want))
	if len(want) > 1 {
		c.Count("probe:find-many-several-results")
	}
	for i, db := range w.dbs() {
		got, err := db.FindMany(t, h)
		if err != nil && !verifIsNotFound(err) {
			w.violate(w.fsClass(w.st.names[i], "lookup-failed"), "%s: FindMany(%s %v) fails: %s%s", w.st.names[i], t.Name, hs, verifNoPath(err), w.dotNote())
			continue
		}
		var encs []string
		for _, a := range got {
			encs = append(encs, string(asserts.Encode(a)))
		}
		sort.Strings(encs)
		if strings.Join(encs, "\x00") != strings.Join(want, "\x00") {
			var revs []string
			for _, a := range got {
				revs = append(revs, fmt.Sprintf("%s@%d", verifIdentity(a), a.Revision()))
			}
			sort.Strings(revs)
			w.violate(w.fsClass(w.st.names[i], "find-many-mismatch"), "%s: FindMany(%s %v) returns %d assertions %v, the model has %d current assertions matching%s", w.st.names[i], t.Name, hs, len(got), revs, len(want), w.dotNote())
		}
	}
}

func (w *verifC19) opFindSequence() {
	c := w.c
	t := asserts.TestOnlySeqType
	n := []string{"s1", "s 2"}[c.Draw("n", 2)]
	after := verifAfterMenu[c.Draw("after", len(verifAfterMenu))]
	maxFormat := c.Draw("seq-max-format", 4) - 1
	mf := maxFormat
	if mf == -1 {
		mf = verifMaxFormat(t)
	}
	// model: members of the sequence visible at this format, by number
	type memb struct {
		seq int
		e   *verifEnt
	}
	var ms []memb
	hidden := false
	for _, m := range w.model {
		if m.typ == t && m.pk[0] == n {
			if b := m.best(mf); b != nil {
				ms = append(ms, memb{b.seq, b})
			} else {
				hidden = true
			}
		}
	}
	sort.Slice(ms, func(i, j int) bool { return ms[i].seq < ms[j].seq })
	var want *verifEnt
	if after == -1 {
		if len(ms) > 0 {
			want = ms[len(ms)-1].e
		}
	} else {
		for _, m := range ms {
			if m.seq > after {
				want = m.e
				break
			}
		}
	}
	if hidden {
		c.Count("probe:find-sequence-skips-member-of-higher-format")
	}
	wantEnc, wantLabel := "", "no such member"
	if want != nil {
		wantEnc, wantLabel = want.enc, want.label
		c.Count("probe:find-sequence-hit")
		digits := map[int]bool{}
		for _, m := range ms {
			digits[len(strconv.Itoa(m.seq))] = true
		}
		if len(digits) > 1 {
			c.Count("probe:find-sequence-over-numbers-of-different-length")
		}
	}
	c.Logf("find-sequence n=%q after=%d max-format=%d -> expect %s", n, after, maxFormat, wantLabel)
	for i, db := range w.dbs() {
		got, err := db.FindSequence(t, map[string]string{"n": n}, after, maxFormat)
		var ga asserts.Assertion
		if err == nil {
			ga = got
		}
		w.compareOneSeq(w.st.names[i], fmt.Sprintf("FindSequence(n=%q, after=%d, maxFormat=%d)", n, after, maxFormat), ga, err, wantEnc, wantLabel)
	}
}

func (w *verifC19) compareOneSeq(store, what string, got asserts.Assertion, err error, want, wantLabel string) {
	switch {
	case err != nil && !verifIsNotFound(err):
		w.violate(w.fsClass(store, "lookup-failed"), "%s: %s fails: %s%s", store, what, verifNoPath(err), w.dotNote())
	case err != nil && want != "":
		w.violate(w.fsClass(store, "find-sequence-mismatch"), "%s: %s says not found, expected %s%s", store, what, wantLabel, w.dotNote())
	case err == nil && want == "":
		w.violate(w.fsClass(store, "find-sequence-mismatch"), "%s: %s returns %s revision %d, expected nothing%s", store, what, verifIdentity(got), got.Revision(), w.dotNote())
	case err == nil && string(asserts.Encode(got)) != want:
		w.violate(w.fsClass(store, "find-sequence-mismatch"), "%s: %s returns %s revision %d format %d, expected %s%s", store, what, verifIdentity(got), got.Revision(), got.Format(), wantLabel, w.dotNote())
	}
}

// audit reads every identity of the model (and the built-in ones) back.
func (w *verifC19) audit(why string) {
	ids := make([]string, 0, len(w.model)+len(w.builtin))
	for id := range w.model {
		ids = append(ids, id)
	}
	for id := range w.builtin {
		if w.model[id] == nil {
			ids = append(ids, id)
		}
	}
	sort.Strings(ids)
	for _, id := range ids {
		parts := strings.SplitN(id, "/", 2)
		w.checkFind(asserts.Type(parts[0]), strings.Split(parts[1], "/"), nil, why)
	}
	w.c.Logf("audit (%s): %d identities", why, len(ids))
}

var verifProbesC19 = []string{"probe:stacked-two-or-more-levels", "probe:revision-moved-forward-above-a-lower-level", "probe:stale-add-with-current-revision-two-or-more-levels-down", "probe:stale-add-with-current-revision-one-level-down", "probe:find-sequence-over-numbers-of-different-length", "probe:clash-refused", "probe:builtin-in-format-1", "probe:dot-primary-key-stored", "probe:find-absent", "probe:find-many-several-results", "probe:find-sequence-hit", "probe:find-sequence-skips-member-of-higher-format", "probe:identity-stored-in-several-formats", "probe:max-format-hides-higher-revision", "probe:optional-primary-key-non-default", "probe:restart-with-stored-assertions", "probe:revision-error-on-stale-add", "probe:revision-moved-forward"}
