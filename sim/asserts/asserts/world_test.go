package asserts_test

// Shared pieces of the assertion engines (C18, C19, C20): the simulator's
// keyring, its ledger of everything it ever signed, an independent parser of
// OpenPGP signature packets (used only to classify an accepted altered
// signature), transport mutators and the simulated reader.

import (
	"bytes"
	"crypto/x509"
	"encoding/base64"
	"errors"
	"fmt"
	"io"
	"os"
	"runtime/debug"
	"sort"
	"strconv"
	"strings"
	"sync"
	"time"

	"github.com/snapcore/snapd/asserts"
	"github.com/snapcore/snapd/internal/verifsim"
)

// ---------------------------------------------------------------- keyring

type verifKey struct {
	label  string
	priv   asserts.PrivateKey
	pub    asserts.PublicKey
	id     string
	pubEnc []byte
}

var (
	verifKeyOnce sync.Once
	verifKeyring map[string]*verifKey
)

func verifKeys() map[string]*verifKey {
	verifKeyOnce.Do(func() {
		verifKeyring = map[string]*verifKey{}
		for i, b64 := range verifKeyDER {
			der, err := base64.StdEncoding.DecodeString(b64)
			if err != nil {
				panic(verifsim.HarnessError{Msg: "bad embedded key: " + err.Error()})
			}
			rk, err := x509.ParsePKCS1PrivateKey(der)
			if err != nil {
				panic(verifsim.HarnessError{Msg: "bad embedded key: " + err.Error()})
			}
			priv := asserts.RSAPrivateKey(rk)
			pubEnc, err := asserts.EncodePublicKey(priv.PublicKey())
			if err != nil {
				panic(verifsim.HarnessError{Msg: "cannot encode public key: " + err.Error()})
			}
			k := &verifKey{label: verifKeyLabels[i], priv: priv, pub: priv.PublicKey(), id: priv.PublicKey().ID(), pubEnc: pubEnc}
			verifKeyring[k.label] = k
		}
		// one optional primary key header on a test type, the way the
		// package's own tests do it: exercises the "N:value" path
		// components of the filesystem backstore. Never restored: this
		// binary only runs TestVerifSim.
		// (asserts.MockOptionalPrimaryKey does exactly this but insists on
		// a binary path containing "go-build")
		asserts.TestOnly2Type.PrimaryKey = append(append([]string(nil), asserts.TestOnly2Type.PrimaryKey...), "opt1")
		asserts.TestOnly2Type.OptionalPrimaryKeyDefaults = map[string]string{"opt1": "o1-defl"}
	})
	return verifKeyring
}

// verifT0 is the instant every synctest bubble starts at.
var verifT0 = time.Date(2000, 1, 1, 0, 0, 0, 0, time.UTC)

func verifRFC(t time.Time) string { return t.UTC().Format(time.RFC3339) }

// verifOff renders an instant as seconds relative to verifT0 (for logs).
func verifOff(t time.Time) string {
	if t.IsZero() {
		return "never"
	}
	return strconv.FormatInt(int64(t.Sub(verifT0)/time.Second), 10) + "s"
}

// ---------------------------------------------------------------- ledger

// verifCons is one alternative of an account-key's signing constraints: the
// precise type plus regular expressions for string headers.
type verifCons struct {
	typ     string
	headers map[string]string
}

// verifSigned is one assertion the simulator signed.
type verifSigned struct {
	label     string
	a         asserts.Assertion
	enc       []byte
	content   []byte
	sig       []byte // encoded signature as signed
	sigDec    []byte // base64-decoded signature
	key       *verifKey
	typ       *asserts.AssertionType
	authority string
	id        string // identity: type name + primary key
	rev       int
	format    int
	hasTS     bool
	ts        time.Time
	// for account-key assertions: the key described and its validity
	akKey     *verifKey
	akAccount string
	akSince   time.Time
	akUntil   time.Time
	akCons    []verifCons
	// for account assertions
	acctID string
}

type verifLedger struct {
	byBytes   map[string]*verifSigned // content + decoded signature
	byContent map[string][]*verifSigned // the same content can be signed more than once (at different instants)
	list      []*verifSigned
}

func verifNewLedger() *verifLedger {
	return &verifLedger{byBytes: map[string]*verifSigned{}, byContent: map[string][]*verifSigned{}}
}

func verifBytesKey(content, sigDec []byte) string {
	return strconv.Itoa(len(content)) + ":" + string(content) + string(sigDec)
}

// verifDecodeSig base64-decodes an encoded signature the way any base64
// reader does (new lines ignored). ok=false if it is not base64 at all.
func verifDecodeSig(sig []byte) ([]byte, bool) {
	out, err := base64.StdEncoding.DecodeString(string(sig))
	if err != nil {
		return nil, false
	}
	return out, true
}

func verifIdentity(a asserts.Assertion) string {
	ref := a.Ref()
	return ref.Type.Name + "/" + strings.Join(ref.PrimaryKey, "/")
}

func (l *verifLedger) record(label string, a asserts.Assertion, k *verifKey) *verifSigned {
	content, sig := a.Signature()
	dec, ok := verifDecodeSig(sig)
	if !ok {
		panic(verifsim.HarnessError{Msg: "signer produced a signature that is not base64"})
	}
	e := &verifSigned{label: label, a: a, enc: asserts.Encode(a), content: content, sig: sig, sigDec: dec, key: k,
		typ: a.Type(), authority: a.AuthorityID(), id: verifIdentity(a), rev: a.Revision(), format: a.Format()}
	if ts, ok := a.(interface{ Timestamp() time.Time }); ok {
		e.hasTS = true
		e.ts = ts.Timestamp()
	}
	l.byBytes[verifBytesKey(content, dec)] = e
	l.byContent[string(content)] = append(l.byContent[string(content)], e)
	l.list = append(l.list, e)
	return e
}

// lookup returns the signed entry with exactly this content and decoded
// signature, and the entries with this content alone (none if never signed).
func (l *verifLedger) lookup(a asserts.Assertion) (exact *verifSigned, sameContent []*verifSigned) {
	content, sig := a.Signature()
	sameContent = l.byContent[string(content)]
	dec, ok := verifDecodeSig(sig)
	if !ok {
		return nil, sameContent
	}
	return l.byBytes[verifBytesKey(content, dec)], sameContent
}

// verifSignCache memoises signing: the result is a pure function of the key,
// the inputs and the (simulated) signing instant, which the OpenPGP signature
// embeds; worlds repeat a lot across runs and RSA signing dominates otherwise.
var verifSignCache = map[string]asserts.Assertion{}

func verifSign(k *verifKey, t *asserts.AssertionType, headers map[string]interface{}, body []byte) (asserts.Assertion, error) {
	ck := ""
	if len(body) < 4096 {
		ck = fmt.Sprintf("%s|%s|%d|%#v|%q", k.label, t.Name, time.Now().UnixNano(), headers, body)
		if a, ok := verifSignCache[ck]; ok {
			return a, nil
		}
	}
	a, err := asserts.AssembleAndSignInTest(t, headers, body, k.priv)
	if err == nil && ck != "" && len(ck) < 4096 {
		if len(verifSignCache) > 20000 {
			verifSignCache = map[string]asserts.Assertion{}
		}
		verifSignCache[ck] = a
	}
	return a, err
}

func verifMustSign(c *verifsim.Ctx, k *verifKey, t *asserts.AssertionType, headers map[string]interface{}, body []byte) asserts.Assertion {
	a, err := verifSign(k, t, headers, body)
	if err != nil {
		c.Fatalf("simulator cannot sign %s %v: %v", t.Name, headers, err)
	}
	return a
}

// ------------------------------------------------- signature packet parser

// verifSigFields are the fields of an OpenPGP v4 signature packet that are
// either covered by the signature hash or are the signature value itself.
// Everything else in the encoding (packet header form, declared lengths,
// the unhashed sub-packet area, the MPI bit count) is framing.
type verifSigFields struct {
	version, sigType, pubAlgo, hashAlgo byte
	hashed                              []byte
	hashTag                             [2]byte
	mpi                                 []byte // big-endian value, leading zeros stripped
	// informational
	headerForm string
	unhashed   []byte
	mpiBits    int
	declared   int
	available  int
}

// verifParseSig parses 0x01 || one OpenPGP signature packet. It is written
// from RFC 4880 (sections 4.2, 5.2.3, 3.2), not from snapd or x/crypto code.
func verifParseSig(dec []byte) (f verifSigFields, ok bool) {
	if len(dec) < 3 || dec[0] != 0x01 {
		return f, false
	}
	p := dec[1:]
	tagb := p[0]
	if tagb&0x80 == 0 {
		return f, false
	}
	var body []byte
	if tagb&0x40 == 0 { // old format
		if (tagb&0x3f)>>2 != 2 {
			return f, false
		}
		lt := tagb & 3
		switch lt {
		case 3:
			f.headerForm = "old-indeterminate"
			body = p[1:]
			f.declared = -1
		default:
			n := 1 << lt
			if len(p) < 1+n {
				return f, false
			}
			l := 0
			for i := 0; i < n; i++ {
				l = l<<8 | int(p[1+i])
			}
			f.headerForm = "old-" + strconv.Itoa(n)
			f.declared = l
			body = p[1+n:]
		}
	} else {
		if tagb&0x3f != 2 {
			return f, false
		}
		if len(p) < 2 {
			return f, false
		}
		o := p[1]
		switch {
		case o < 192:
			f.headerForm = "new-1"
			f.declared = int(o)
			body = p[2:]
		case o < 224:
			if len(p) < 3 {
				return f, false
			}
			f.headerForm = "new-2"
			f.declared = (int(o)-192)<<8 + int(p[2]) + 192
			body = p[3:]
		case o == 255:
			if len(p) < 6 {
				return f, false
			}
			f.headerForm = "new-5"
			f.declared = int(p[2])<<24 | int(p[3])<<16 | int(p[4])<<8 | int(p[5])
			body = p[6:]
		default:
			// partial body lengths: not reassembled here
			return f, false
		}
	}
	f.available = len(body)
	if f.declared >= 0 && f.declared < len(body) {
		body = body[:f.declared]
	}
	if len(body) < 6 {
		return f, false
	}
	f.version, f.sigType, f.pubAlgo, f.hashAlgo = body[0], body[1], body[2], body[3]
	if f.version != 4 {
		return f, false
	}
	hl := int(body[4])<<8 | int(body[5])
	rest := body[6:]
	if len(rest) < hl+2 {
		return f, false
	}
	f.hashed = rest[:hl]
	rest = rest[hl:]
	ul := int(rest[0])<<8 | int(rest[1])
	rest = rest[2:]
	if len(rest) < ul+2+2 {
		return f, false
	}
	f.unhashed = rest[:ul]
	rest = rest[ul:]
	f.hashTag = [2]byte{rest[0], rest[1]}
	rest = rest[2:]
	f.mpiBits = int(rest[0])<<8 | int(rest[1])
	rest = rest[2:]
	nb := (f.mpiBits + 7) / 8
	if len(rest) < nb {
		return f, false
	}
	f.mpi = bytes.TrimLeft(rest[:nb], "\x00")
	return f, true
}

// verifFramingOnly tells whether two decoded signatures differ although
// every hashed field and the signature value are equal.
func verifFramingOnly(signed, delivered []byte) (bool, string) {
	if bytes.Equal(signed, delivered) {
		return false, ""
	}
	a, ok1 := verifParseSig(signed)
	b, ok2 := verifParseSig(delivered)
	if !ok1 || !ok2 {
		return false, ""
	}
	if a.version != b.version || a.sigType != b.sigType || a.pubAlgo != b.pubAlgo || a.hashAlgo != b.hashAlgo ||
		!bytes.Equal(a.hashed, b.hashed) || a.hashTag != b.hashTag || !bytes.Equal(a.mpi, b.mpi) {
		return false, ""
	}
	var where []string
	if a.headerForm != b.headerForm {
		where = append(where, "packet header form "+a.headerForm+"->"+b.headerForm)
	}
	if a.declared != b.declared {
		where = append(where, fmt.Sprintf("declared packet length %d->%d (available %d)", a.declared, b.declared, b.available))
	}
	if !bytes.Equal(a.unhashed, b.unhashed) {
		where = append(where, fmt.Sprintf("unhashed sub-packet area %d->%d bytes", len(a.unhashed), len(b.unhashed)))
	}
	if a.mpiBits != b.mpiBits {
		where = append(where, fmt.Sprintf("MPI bit count %d->%d", a.mpiBits, b.mpiBits))
	}
	if len(where) == 0 {
		where = append(where, "other framing bytes")
	}
	return true, strings.Join(where, ", ")
}

// verifEncodeSig renders decoded signature bytes the way snapd does (base64,
// 76 columns, final new line).
func verifEncodeSig(dec []byte, width int) []byte {
	flat := base64.StdEncoding.EncodeToString(dec)
	var b bytes.Buffer
	for off := 0; off < len(flat); off += width {
		end := off + width
		if end > len(flat) {
			end = len(flat)
		}
		b.WriteString(flat[off:end])
		b.WriteByte('\n')
	}
	return b.Bytes()
}

// verifReframeNames lists the structural signature mutations; index 0..7 keep
// every hashed field and the signature value (pure re-framing), the others
// touch authenticated bytes or add garbage.
var verifReframeNames = []string{
	"longer-declared-length", "five-octet-length", "old-format-1", "old-format-2", "old-format-indeterminate",
	"unhashed-issuer-subpacket", "mpi-bit-count", "mpi-leading-zero",
	"trailing-garbage", "hashed-area-byte", "hash-tag-byte", "mpi-value-byte", "sig-type-byte", "hash-algo-byte",
}

// verifReframe applies structural mutation k to the decoded signature of a
// genuine assertion (new-format header, one-octet length as x/crypto writes
// it for 1024-bit keys). Returns nil if the shape is not the expected one.
func verifReframe(c *verifsim.Ctx, dec []byte, k int) []byte {
	if len(dec) < 24 || dec[0] != 1 || dec[1] != 0xC2 || dec[2] >= 192 || int(dec[2]) != len(dec)-3 {
		return nil
	}
	l := int(dec[2])
	body := append([]byte(nil), dec[3:]...)
	hl := int(body[4])<<8 | int(body[5])
	upos := 6 + hl // position of the unhashed length
	if len(body) < upos+2 {
		return nil
	}
	ul := int(body[upos])<<8 | int(body[upos+1])
	tagpos := upos + 2 + ul
	mpos := tagpos + 2 // MPI bit count
	if len(body) < mpos+2 {
		return nil
	}
	bits := int(body[mpos])<<8 | int(body[mpos+1])
	nb := (bits + 7) / 8
	hdr := func(h ...byte) []byte { return append([]byte{1}, h...) }
	switch verifReframeNames[k] {
	case "longer-declared-length":
		nl := l + 1 + c.Draw("extra-len", 191-l)
		return append(hdr(0xC2, byte(nl)), body...)
	case "five-octet-length":
		return append(hdr(0xC2, 0xFF, 0, 0, 0, byte(l)), body...)
	case "old-format-1":
		return append(hdr(0x88, byte(l)), body...)
	case "old-format-2":
		return append(hdr(0x89, 0, byte(l)), body...)
	case "old-format-indeterminate":
		return append(hdr(0x8B), body...)
	case "unhashed-issuer-subpacket":
		sub := []byte{9, 16, 1, 2, 3, 4, 5, 6, 7, byte(c.Draw("issuer-byte", 256))}
		nbdy := append([]byte(nil), body[:upos]...)
		nbdy = append(nbdy, byte((ul+len(sub))>>8), byte(ul+len(sub)))
		nbdy = append(nbdy, body[upos+2:upos+2+ul]...)
		nbdy = append(nbdy, sub...)
		nbdy = append(nbdy, body[tagpos:]...)
		if len(nbdy) >= 192 {
			return append(hdr(0xC2, byte((len(nbdy)-192)>>8)+192, byte(len(nbdy)-192)), nbdy...)
		}
		return append(hdr(0xC2, byte(len(nbdy))), nbdy...)
	case "mpi-bit-count":
		nbits := (nb-1)*8 + 1 + c.Draw("mpi-bits", 8)
		if nbits == bits {
			nbits--
			if (nbits+7)/8 != nb {
				nbits += 2
			}
		}
		body[mpos], body[mpos+1] = byte(nbits>>8), byte(nbits)
		return append(hdr(0xC2, byte(l)), body...)
	case "mpi-leading-zero":
		nbdy := append([]byte(nil), body[:mpos]...)
		nbdy = append(nbdy, byte((bits+8)>>8), byte(bits+8), 0)
		nbdy = append(nbdy, body[mpos+2:]...)
		if len(nbdy) >= 192 {
			return nil
		}
		return append(hdr(0xC2, byte(len(nbdy))), nbdy...)
	case "trailing-garbage":
		return append(append(hdr(0xC2, byte(l)), body...), byte(c.Draw("garbage", 256)))
	case "hashed-area-byte":
		body[6+c.Draw("hashed-pos", hl)] ^= byte(1 << uint(c.Draw("bit", 8)))
		return append(hdr(0xC2, byte(l)), body...)
	case "hash-tag-byte":
		body[tagpos+c.Draw("tag-pos", 2)] ^= byte(1 << uint(c.Draw("bit", 8)))
		return append(hdr(0xC2, byte(l)), body...)
	case "mpi-value-byte":
		body[mpos+2+c.Draw("mpi-pos", nb)] ^= byte(1 << uint(c.Draw("bit", 8)))
		return append(hdr(0xC2, byte(l)), body...)
	case "sig-type-byte":
		body[1] ^= byte(1 << uint(c.Draw("bit", 8)))
		return append(hdr(0xC2, byte(l)), body...)
	case "hash-algo-byte":
		body[3] ^= byte(1 << uint(c.Draw("bit", 8)))
		return append(hdr(0xC2, byte(l)), body...)
	}
	return nil
}

// ---------------------------------------------------------------- transport

// verifSplit cuts an encoding into signed content and encoded signature.
func verifSplit(enc []byte) (content, sig []byte) {
	i := bytes.LastIndex(enc, []byte("\n\n"))
	if i < 0 {
		return enc, nil
	}
	return enc[:i], enc[i+2:]
}

func verifJoin(content, sig []byte) []byte {
	out := make([]byte, 0, len(content)+2+len(sig))
	out = append(out, content...)
	out = append(out, '\n', '\n')
	return append(out, sig...)
}

var verifInsertBytes = []byte{' ', '\n', 'A', '=', 0, 0xff, ':', '-'}

// verifSimReader is the simulated transport: it hands out data in drawn
// chunk sizes and can stall, fail, or end early. It also bounds the number of
// Read calls so that a decoder that spins becomes a verdict, not a hang.
type verifSimReader struct {
	c       *verifsim.Ctx
	data    []byte
	pos     int
	chunk   int // 0: as much as asked; n>0: at most n; -1: drawn per call (1..64)
	failAt  int // -1: never; else I/O error once pos reaches it
	stallAt int // -1: never
	stallN  int // consecutive (0, nil) reads left at stallAt
	eofWith bool
	calls   int
	maxCall int
	spun    bool
}

var errVerifIO = errors.New("verif: simulated I/O error")
var errVerifSpin = errors.New("verif: reader called too often")

func verifNewReader(c *verifsim.Ctx, data []byte) *verifSimReader {
	return &verifSimReader{c: c, data: data, failAt: -1, stallAt: -1, maxCall: 4*len(data) + 2000}
}

func (r *verifSimReader) Read(p []byte) (int, error) {
	r.calls++
	if r.calls > r.maxCall {
		r.spun = true
		return 0, errVerifSpin
	}
	if len(p) == 0 {
		return 0, nil
	}
	if r.stallAt >= 0 && r.pos >= r.stallAt && r.stallN > 0 {
		r.stallN--
		return 0, nil
	}
	if r.failAt >= 0 && r.pos >= r.failAt {
		return 0, errVerifIO
	}
	if r.pos >= len(r.data) {
		return 0, io.EOF
	}
	n := len(p)
	switch {
	case r.chunk > 0 && n > r.chunk:
		n = r.chunk
	case r.chunk < 0:
		m := 1 + r.c.Draw("chunk", 64)
		if n > m {
			n = m
		}
	}
	if r.pos+n > len(r.data) {
		n = len(r.data) - r.pos
	}
	if r.failAt >= 0 && r.pos+n > r.failAt {
		n = r.failAt - r.pos
	}
	if r.stallAt >= 0 && r.stallN > 0 && r.pos < r.stallAt && r.pos+n > r.stallAt {
		n = r.stallAt - r.pos
	}
	copy(p, r.data[r.pos:r.pos+n])
	r.pos += n
	if r.eofWith && r.pos >= len(r.data) && r.failAt < 0 {
		return n, io.EOF
	}
	return n, nil
}

// ---------------------------------------------------------------- databases

// verifStores is the pair of databases every delivery goes to.
type verifStores struct {
	c     *verifsim.Ctx
	dir   string
	cfg   asserts.DatabaseConfig
	mem   *asserts.Database
	fs    *asserts.Database
	names []string
}

func verifOpenStores(c *verifsim.Ctx, trusted, predefined []asserts.Assertion) *verifStores {
	dir, err := os.MkdirTemp("", "verifasserts")
	if err != nil {
		c.Fatalf("mkdtemp: %v", err)
	}
	s := &verifStores{c: c, dir: dir, names: []string{"mem", "fs"}}
	s.cfg = asserts.DatabaseConfig{Trusted: trusted, OtherPredefined: predefined}
	cfg := s.cfg
	cfg.Backstore = asserts.NewMemoryBackstore()
	s.mem, err = asserts.OpenDatabase(&cfg)
	if err != nil {
		os.RemoveAll(dir)
		c.Fatalf("open memory database: %v", err)
	}
	s.reopenFS()
	return s
}

func (s *verifStores) reopenFS() {
	bs, err := asserts.OpenFSBackstore(s.dir)
	if err != nil {
		s.c.Fatalf("open fs backstore: %v", err)
	}
	cfg := s.cfg
	cfg.Backstore = bs
	s.fs, err = asserts.OpenDatabase(&cfg)
	if err != nil {
		s.c.Fatalf("open fs database: %v", err)
	}
}

func (s *verifStores) dbs() []*asserts.Database { return []*asserts.Database{s.mem, s.fs} }

func (s *verifStores) close() { os.RemoveAll(s.dir) }

// ---------------------------------------------------------------- panics

// verifRecover turns a panic out of snapd code into a <prop>/panic violation
// with a message that is the same in every execution: the simulator core's
// own catch-all prints the frames with their pointer arguments, which makes
// the event log differ between a run and its replay (exit 2 instead of a
// verdict). Deferred first thing in every Run.
func verifRecover(c *verifsim.Ctx, stage *string) {
	r := recover()
	if r == nil {
		return
	}
	if he, ok := r.(verifsim.HarnessError); ok {
		panic(he)
	}
	var frames []string
	for _, l := range strings.Split(string(debug.Stack()), "\n") {
		if !strings.HasPrefix(l, "github.com/snapcore/snapd/asserts") || strings.Contains(l, "asserts_test.") {
			continue
		}
		if i := strings.LastIndex(l, "("); i > 0 {
			l = l[:i]
		}
		frames = append(frames, strings.TrimPrefix(l, "github.com/snapcore/snapd/"))
		if len(frames) >= 8 {
			break
		}
	}
	c.Violate(c.Prop+"/panic", "panic in snapd code while %s: %v @ %s", *stage, r, strings.Join(frames, " < "))
}

// ---------------------------------------------------------------- misc

func verifSortedKeys(m map[string]bool) []string {
	ks := make([]string, 0, len(m))
	for k := range m {
		ks = append(ks, k)
	}
	sort.Strings(ks)
	return ks
}

func verifMin(a, b int) int {
	if a < b {
		return a
	}
	return b
}

func verifMax(a, b int) int {
	if a > b {
		return a
	}
	return b
}
