package asserts_test

// C20: assertions survive encoding and malformed input is rejected safely.
//
// The simulator signs assertions of several types with generated header
// values (strings, lists, maps, multi-line, long) and bodies, encodes them
// singly and as a stream, and reads them back through asserts.Decode and the
// stream asserts.Decoder over a simulated reader that chunks, stalls, fails,
// ends early, corrupts or exceeds the decoder's limits.

import (
	"bufio"
	"bytes"
	"fmt"
	"io"
	"reflect"
	"strconv"
	"strings"
	"time"

	"github.com/snapcore/snapd/asserts"
	"github.com/snapcore/snapd/internal/verifsim"
)

var verifEngineC20 = &verifsim.Engine{
	Name:   "asserts-C20",
	Bubble: true,
	Run:    verifRunC20,
	Real: []string{
		"asserts.Encode / asserts.Encoder, asserts.Decode, the stream asserts.Decoder (default, with per-type body limits, and with small limits through the package's NewDecoderStressed)",
		"header parsing and formatting (asserts/headers.go), per-type assemblers of test-only*, account, account-key, model, snap-build, snap-declaration, validation-set, system-user",
		"signing through asserts' assembleAndSign with a fixed 1024-bit RSA key",
	},
	Stubs: []string{
		"the reader under the stream decoder (chunk sizes, stalls, I/O errors, early end, corruption)",
		"no database: signatures are not verified here (that is C18)",
	},
}

const verifBufioClass = "valid-stream-rejected:decoder-given-the-callers-bufio-reader"

const verifBlankLineClass = "stream-decoder-accepts-empty-line-before-signature:result-does-not-reencode"

type verifC20 struct {
	c     *verifsim.Ctx
	key   *verifKey
	fired int
}

func (w *verifC20) fault(k string) { w.c.Count("fault:" + k); w.fired++ }

func (w *verifC20) violate(class, format string, args ...interface{}) {
	if w.c.Active("C20") {
		w.c.Violate("C20/"+class, format, args...)
	}
}

// ---- generation of header values

var verifLineMenu = []string{"l1", "", "  indented", "- dash", "key: v", "    four", "x:", "  - y", "tail "}
var verifMapKeys = []string{"a", "b-c", "x1", "key", "type", "z-9z"}

func (w *verifC20) genString(long bool) string {
	c := w.c
	switch c.Draw("str", 11) {
	default:
		return "v" + strconv.Itoa(c.Draw("tok", 10))
	case 1:
		return "two words"
	case 2:
		return "a: b"
	case 3:
		return " padded "
	case 4:
		return ""
	case 5:
		return "héllo ✓ 日本"
	case 6, 7:
		n := 2 + c.Draw("lines", 3)
		var ls []string
		for i := 0; i < n; i++ {
			ls = append(ls, verifLineMenu[c.Draw("line", len(verifLineMenu))])
		}
		s := strings.Join(ls, "\n")
		switch c.Draw("nl-edge", 4) {
		case 1:
			s = "\n" + s
		case 2:
			s += "\n"
		case 3:
			s = "\n"
		}
		return s
	case 8:
		if !long {
			return "  - looks like a list item"
		}
		n := []int{100, 4000, 4085 + c.Draw("near-buf", 24), 9000, 8180 + c.Draw("near-2buf", 24)}[c.Draw("long", 5)]
		w.c.Count("probe:long-header-value")
		return strings.Repeat("x", n)
	case 9:
		return []string{"-", "#", "\ttab", "{}", "[]", ":", "- "}[c.Draw("odd", 7)]
	case 10:
		return "ends with colon:"
	}
}

func (w *verifC20) genValue(depth int) interface{} {
	c := w.c
	k := c.Draw("val", 5)
	if depth >= 3 && k >= 3 {
		k = 0
	}
	switch k {
	default:
		return w.genString(depth == 0)
	case 3:
		n := 1 + c.Draw("list-n", 3)
		lst := make([]interface{}, 0, n)
		for i := 0; i < n; i++ {
			lst = append(lst, w.genValue(depth+1))
		}
		if depth > 0 {
			c.Count("probe:nested-container")
		}
		return lst
	case 4:
		n := 1 + c.Draw("map-n", 3)
		m := map[string]interface{}{}
		for i := 0; i < n; i++ {
			m[verifMapKeys[c.Draw("map-key", len(verifMapKeys))]] = w.genValue(depth + 1)
		}
		if depth > 0 {
			c.Count("probe:nested-container")
		}
		return m
	}
}

func (w *verifC20) genBody() []byte {
	c := w.c
	switch c.Draw("body", 8) {
	default:
		return nil
	case 1:
		return []byte("one line")
	case 2:
		return []byte("para 1\n\npara 2\n")
	case 3:
		return []byte("\n\nstarts and ends with blank lines\n\n")
	case 4:
		return []byte("ünï ✓\n")
	case 5:
		n := []int{1, 4000, 4085 + c.Draw("near-buf", 24), 20000}[c.Draw("body-len", 4)]
		b := bytes.Repeat([]byte("0123456789abcde\n"), n/16+1)[:n]
		c.Count("probe:long-body")
		return b
	case 6:
		return []byte("type: fake\nauthority-id: x\n\nlooks: like-an-assertion\n\nAXNpZw==\n")
	}
}

var verifValidPassword = "$6$salt$UHQbOANpsAtTLVpcGPUDM7dZ6Mo2I4qG5PAYqM7GDWRy4OdJeZ0gVLfvTFZ6hUqHYbN4dnG9Zw3iHuA8xmpsH1"

// genAssertion signs one assertion of a drawn type with extra generated headers.
func (w *verifC20) genAssertion(i int) (asserts.Assertion, string) {
	c := w.c
	ts := verifRFC(verifT0.Add(time.Duration(c.Draw("ts-h", 100)) * time.Hour))
	h := map[string]interface{}{"authority-id": "canonical"}
	var t *asserts.AssertionType
	var body []byte
	bodyOK := false
	typ := c.Draw("type", 10)
	switch typ {
	case 0:
		t = asserts.TestOnlyType
		h["primary-key"] = "k" + strconv.Itoa(c.Draw("pk", 5))
		if c.Chance("format1", 1, 4) {
			h["format"] = "1"
		}
		bodyOK = true
	case 1:
		t = asserts.TestOnly2Type
		h["pk1"], h["pk2"] = "p"+strconv.Itoa(c.Draw("pk", 5)), "q r"
		if c.Chance("opt1", 1, 3) {
			h["opt1"] = "o9"
		}
		bodyOK = true
	case 2:
		t = asserts.TestOnlySeqType
		h["n"], h["sequence"] = "s"+strconv.Itoa(c.Draw("pk", 3)), strconv.Itoa(1+c.Draw("seq", 9))
		if f := c.Draw("seq-format", 3); f > 0 {
			h["format"] = strconv.Itoa(f)
		}
		bodyOK = true
	case 3:
		t = asserts.AccountType
		h["account-id"] = "acct" + strconv.Itoa(c.Draw("pk", 5))
		h["display-name"] = w.genString(false)
		if h["display-name"] == "" {
			h["display-name"] = "N"
		}
		h["validation"] = "unproven"
		h["timestamp"] = ts
	case 4:
		t = asserts.AccountKeyType
		k := verifKeys()[verifKeyLabels[c.Draw("ak-key", len(verifKeyLabels))]]
		h["account-id"], h["name"], h["public-key-sha3-384"], h["since"] = "canonical", "name"+strconv.Itoa(c.Draw("pk", 5)), k.id, ts
		if c.Chance("ak-cons", 1, 3) {
			h["format"] = "1"
			h["constraints"] = []interface{}{map[string]interface{}{"headers": map[string]interface{}{"type": "model", "model": "m.*"}}}
		}
		body = k.pubEnc
	case 5:
		t = asserts.ModelType
		h["series"], h["brand-id"], h["model"], h["architecture"], h["timestamp"] = "16", "canonical", "m"+strconv.Itoa(c.Draw("pk", 5)), "amd64", ts
		if c.Chance("core20", 1, 2) {
			h["base"], h["grade"] = "core20", "dangerous"
			h["snaps"] = []interface{}{
				map[string]interface{}{"name": "pc", "id": strings.Repeat("a", 32), "type": "gadget", "default-channel": "20/stable"},
				map[string]interface{}{"name": "pc-kernel", "id": strings.Repeat("b", 32), "type": "kernel", "default-channel": "20/stable"},
				map[string]interface{}{"name": "core20", "id": strings.Repeat("c", 32), "type": "base"},
				map[string]interface{}{"name": "app", "id": strings.Repeat("d", 32), "modes": []interface{}{"run", "ephemeral"}, "presence": "optional"},
			}
		} else {
			h["gadget"], h["kernel"] = "pc", "pc-kernel"
			h["required-snaps"] = []interface{}{"foo", "bar"}
		}
	case 6:
		t = asserts.SnapBuildType
		h["snap-sha3-384"], h["snap-id"], h["grade"], h["snap-size"], h["timestamp"] = strings.Repeat("A", 63)+string("ABCD"[c.Draw("pk", 4)]), "snapid", "devel", "12345", ts
		bodyOK = true
	case 7:
		t = asserts.SnapDeclarationType
		h["series"], h["snap-id"], h["publisher-id"], h["snap-name"], h["timestamp"] = "16", "snapid"+strconv.Itoa(c.Draw("pk", 5)), "canonical", "foo", ts
		h["plugs"] = map[string]interface{}{
			"network": map[string]interface{}{"allow-installation": "true", "allow-auto-connection": map[string]interface{}{"plug-attributes": map[string]interface{}{"a": "b.*"}, "slot-snap-id": []interface{}{strings.Repeat("g", 32), strings.Repeat("h", 32)}}},
		}
		h["aliases"] = []interface{}{map[string]interface{}{"name": "al1", "target": "cmd1"}}
	case 8:
		t = asserts.ValidationSetType
		h["series"], h["account-id"], h["name"], h["sequence"], h["timestamp"] = "16", "canonical", "set"+strconv.Itoa(c.Draw("pk", 3)), strconv.Itoa(1+c.Draw("seq", 9)), ts
		h["snaps"] = []interface{}{
			map[string]interface{}{"name": "foo", "id": strings.Repeat("e", 32), "presence": "required", "revision": "7"},
			map[string]interface{}{"name": "bar", "id": strings.Repeat("f", 32), "presence": "invalid"},
		}
	case 9:
		t = asserts.SystemUserType
		h["brand-id"], h["email"], h["series"], h["models"] = "canonical", "u"+strconv.Itoa(c.Draw("pk", 5))+"@example.com", []interface{}{"16"}, []interface{}{"m1", "m2"}
		h["name"], h["username"], h["password"], h["since"], h["until"] = "User Name", "user", verifValidPassword, ts, verifRFC(verifT0.Add(1000*time.Hour))
		h["ssh-keys"] = []interface{}{"ssh-rsa AAAA one", "ssh-rsa BBBB two"}
	}
	if r := c.Draw("revision", 4); r > 1 {
		h["revision"] = strconv.Itoa(r * 7)
	}
	nx := c.Draw("extra-headers", 4)
	for j := 0; j < nx; j++ {
		h[[]string{"xa", "x-b", "xc9", "x-long-name"}[c.Draw("extra-name", 4)]] = w.genValue(0)
	}
	if bodyOK {
		body = w.genBody()
	}
	if f, err := asserts.SuggestFormat(t, h, body); err == nil && f > 0 {
		if cur, _ := strconv.Atoi(fmt.Sprint(h["format"])); cur < f {
			h["format"] = strconv.Itoa(f)
		}
	}
	a := verifMustSign(c, w.key, t, h, body)
	if c.Chance("pad-headers", 1, 6) {
		// make the header block exactly as long as one of the stream
		// decoder's look-ahead windows minus one (the "\n\n" after it then
		// straddles the window), or put it between 64 KiB and the 128 KiB
		// limit
		target := []int{4095, 8191, 4094, 4096, 16383, 8190, 65535, 65536 + c.Draw("pad-64k", 60000), asserts.MaxHeadersSize - 2, 32767}[c.Draw("pad-target", 10)]
		content, _ := a.Signature()
		n := target - verifHeadLen(content) - len("\nx-pad: ")
		if n >= 0 {
			h["x-pad"] = strings.Repeat("p", n)
			a = verifMustSign(c, w.key, t, h, body)
			content, _ = a.Signature()
			if verifHeadLen(content) != target {
				c.Fatalf("padding missed its target: %d != %d", verifHeadLen(content), target)
			}
			if target >= 65535 {
				c.Count("probe:headers-between-64k-and-the-limit")
			} else {
				c.Count("probe:headers-end-at-window-boundary")
			}
		}
	}
	return a, fmt.Sprintf("#%d %s extra=%d body=%d enc=%d", i, verifIdentity(a), nx, len(body), len(asserts.Encode(a)))
}

// ---- comparisons

// verifDiff says how d differs from a as far as the statement cares
// (headers, body, revision, signature and the encoding itself).
func verifDiff(a, d asserts.Assertion) string {
	ac, as := a.Signature()
	dc, ds := d.Signature()
	switch {
	case a.Type() != d.Type():
		return "type"
	case !reflect.DeepEqual(a.Headers(), d.Headers()):
		return "headers"
	case !bytes.Equal(a.Body(), d.Body()):
		return "body"
	case a.Revision() != d.Revision():
		return "revision"
	case a.Format() != d.Format():
		return "format"
	case !bytes.Equal(ac, dc):
		return "signed content"
	case !bytes.Equal(as, ds):
		return "signature"
	case a.AuthorityID() != d.AuthorityID() || a.SignKeyID() != d.SignKeyID():
		return "authority or sign key"
	case !reflect.DeepEqual(a.Ref().PrimaryKey, d.Ref().PrimaryKey):
		return "primary key"
	case !bytes.Equal(asserts.Encode(a), asserts.Encode(d)):
		return "encoding"
	}
	if ta, ok := a.(interface{ Timestamp() time.Time }); ok {
		if td, ok := d.(interface{ Timestamp() time.Time }); !ok || !ta.Timestamp().Equal(td.Timestamp()) {
			return "timestamp"
		}
	}
	if sa, ok := a.(asserts.SequenceMember); ok {
		if sd, ok := d.(asserts.SequenceMember); !ok || sa.Sequence() != sd.Sequence() {
			return "sequence"
		}
	}
	return ""
}

// stable checks that an assertion a decoder handed out re-encodes to
// something that decodes to itself.
func (w *verifC20) stable(x asserts.Assertion, from string) {
	y, err := asserts.Decode(asserts.Encode(x))
	if _, xs := x.Signature(); err != nil && len(xs) > 0 && xs[0] == '\n' {
		w.c.Count("newline-led-signature-handed-out") // plain counter: cannot happen on a tree with the repair
		w.violate(verifBlankLineClass, "the stream decoder accepted an assertion (%s) whose signature block starts with an empty line; asserts.Encode of it is rejected by asserts.Decode (%v), so the filesystem backstore cannot read back what Add stores", verifIdentity(x), err)
		return
	}
	if err != nil {
		w.violate("accepted-input-does-not-reencode", "an assertion accepted from %s re-encodes to something Decode rejects: %v; encoding %q", from, err, verifShortBytes(asserts.Encode(x), 700))
		return
	}
	if d := verifDiff(x, y); d != "" {
		w.violate("accepted-input-does-not-reencode", "an assertion accepted from %s changes its %s when encoded and decoded again", from, d)
	}
}

func verifShortBytes(b []byte, n int) string {
	if len(b) > n {
		return string(b[:n/2]) + "[...]" + string(b[len(b)-n/2:])
	}
	return string(b)
}

func verifHeadLen(content []byte) int {
	if i := bytes.Index(content, []byte("\n\n")); i >= 0 {
		return i
	}
	return len(content)
}

// ---- the run

func verifRunC20(c *verifsim.Ctx) {
	for _, p := range verifProbesC20 {
		c.Add(p, 0) // so that a probe that is never reached shows up as 0
	}
	w := &verifC20{c: c, key: verifKeys()["store"]}
	stage := "signing"
	defer verifRecover(c, &stage)
	faults := c.Draw("faults", 4) != 0
	n := 1 + c.Draw("n-assertions", 4)
	var sent []asserts.Assertion
	var labels []string
	for i := 0; i < n; i++ {
		a, label := w.genAssertion(i)
		sent = append(sent, a)
		labels = append(labels, label)
		c.Logf("signed %s", label)
	}

	stage = "decoding a valid encoding (asserts.Decode)"
	// single encodings
	for i, a := range sent {
		enc := asserts.Encode(a)
		d, err := asserts.Decode(enc)
		if err != nil {
			w.violate("valid-assertion-rejected", "Decode rejects the encoding of %s: %v", labels[i], err)
			continue
		}
		if diff := verifDiff(a, d); diff != "" {
			w.violate("round-trip-differs", "%s decodes back with a different %s", labels[i], diff)
		}
	}
	c.Count("single-round-trips")

	stage = "encoding the stream"
	// the stream
	var buf bytes.Buffer
	enc := asserts.NewEncoder(&buf)
	var starts, sigStarts, ends []int
	for _, a := range sent {
		var err error
		before := buf.Len()
		switch c.Draw("enc-how", 3) {
		case 0:
			err = enc.Encode(a)
		case 1:
			err = enc.WriteEncoded(asserts.Encode(a))
		case 2:
			err = enc.WriteContentSignature(a.Signature())
		}
		if err != nil {
			c.Fatalf("encoder: %v", err)
		}
		content, sig := a.Signature()
		end := buf.Len()
		ends = append(ends, end)
		sigStarts = append(sigStarts, end-len(sig))
		starts = append(starts, end-len(sig)-2-len(content))
		_ = before
	}
	stream := append([]byte(nil), buf.Bytes()...)

	scenario := "intact"
	if faults {
		scenario = []string{"intact", "truncate", "io-error", "stall", "bit-flip", "garbage", "small-limits", "type-body-limit", "arbitrary", "eof-with-data", "truncate", "io-error", "hostile-header-values", "hostile-header-values", "header-over-limit", "malformed-nesting", "truncate-everywhere"}[c.Draw("scenario", 17)]
	}
	data := stream
	rd := verifNewReader(c, nil)
	rd.chunk = []int{0, -1, 1, 3, 4096, 4095}[c.Draw("chunking", 6)]
	var mkDecoder func(r io.Reader) *asserts.Decoder = asserts.NewDecoder
	cutAt := -1
	stallN := 0 // as configured; the reader counts its own copy down
	limH, limB, limS := -1, -1, -1
	var typeLimit map[*asserts.AssertionType]int
	hostileAt, hostileHow := -1, ""
	switch scenario {
	case "malformed-nesting":
		// hand-shaped broken nested header lines inside an otherwise
		// well-formed assertion; judged like a hostile header value
		scenario = "hostile-header-values"
		hostileAt = c.Draw("hostile-which", n)
		var tampered []byte
		tampered, hostileHow = w.malformedNesting(stream[starts[hostileAt] : sigStarts[hostileAt]-2])
		data = append(append(append([]byte(nil), stream[:starts[hostileAt]]...), tampered...), stream[sigStarts[hostileAt]-2:]...)
		c.Logf("malformed nesting in #%d: %s", hostileAt, hostileHow)
		w.fault("malformed-nested-header-lines")
	case "truncate-everywhere":
		// every prefix of one assertion (chosen for its nested headers)
		// through both decoders; the stream itself is then read intact
		w.truncateEverywhere(sent, labels)
		scenario = "intact"
		w.fault("truncation-at-every-offset")
	case "hostile-header-values":
		hostileAt = c.Draw("hostile-which", n)
		var tampered []byte
		tampered, hostileHow = w.hostileHeaders(stream[starts[hostileAt]:sigStarts[hostileAt]-2], len(sent[hostileAt].Body()))
		data = append(append(append([]byte(nil), stream[:starts[hostileAt]]...), tampered...), stream[sigStarts[hostileAt]-2:]...)
		c.Logf("hostile header value in #%d: %s", hostileAt, hostileHow)
		w.fault("hostile-header-value")
	case "header-over-limit":
		// one more assertion whose header block is just over MaxHeadersSize
		over := asserts.MaxHeadersSize - 1 + c.Draw("over-by", 200)
		h := map[string]interface{}{"authority-id": "canonical", "primary-key": "big"}
		a0 := verifMustSign(c, w.key, asserts.TestOnlyType, h, nil)
		c0, _ := a0.Signature()
		h["x-pad"] = strings.Repeat("p", over-verifHeadLen(c0)-len("\nx-pad: "))
		big := verifMustSign(c, w.key, asserts.TestOnlyType, h, nil)
		if d, err := asserts.Decode(asserts.Encode(big)); err != nil || verifDiff(big, d) != "" {
			w.violate("valid-assertion-rejected", "Decode (which has no size limits) does not round-trip an assertion with %d bytes of headers: %v", over, err)
		}
		if err := enc.Encode(big); err != nil {
			c.Fatalf("encoder: %v", err)
		}
		data = append([]byte(nil), buf.Bytes()...)
		c.Logf("appended an assertion with %d bytes of headers (limit %d)", over, asserts.MaxHeadersSize)
		w.fault("headers-over-the-limit")
	case "truncate":
		cutAt = c.Draw("cut", len(stream))
		if c.Chance("cut-in-signature", 1, 2) {
			k := c.Draw("cut-which", n)
			cutAt = sigStarts[k] + c.Draw("cut-sig", ends[k]-sigStarts[k])
		}
		data = stream[:cutAt]
		w.fault("stream-ends-early")
	case "io-error":
		rd.failAt = c.Draw("fail-at", len(stream)+1)
		w.fault("reader-io-error")
	case "stall":
		rd.stallAt = c.Draw("stall-at", len(stream)+1)
		rd.stallN = []int{1, 50, 99, 100, 150}[c.Draw("stall-n", 5)]
		stallN = rd.stallN
		if stallN >= 100 {
			w.fault("reader-makes-no-progress")
		} else {
			w.fault("reader-stalls-briefly")
		}
	case "bit-flip":
		data = append([]byte(nil), stream...)
		p := c.Draw("flip-pos", len(data))
		data[p] ^= byte(1 << uint(c.Draw("bit", 8)))
		w.fault("stream-bit-flip")
	case "garbage":
		data = append([]byte(nil), stream...)
		p := c.Draw("garbage-pos", len(data))
		g := make([]byte, 1+c.Draw("garbage-len", 40))
		for i := range g {
			g[i] = byte(c.Draw("garbage-byte", 256))
		}
		if c.Chance("garbage-insert", 1, 2) {
			data = append(data[:p], append(g, data[p:]...)...)
		} else {
			copy(data[p:], g)
		}
		w.fault("stream-garbage")
	case "small-limits":
		k := c.Draw("limit-which", n)
		content, sig := sent[k].Signature()
		hl, bl, sl := verifHeadLen(content), len(sent[k].Body()), len(sig)
		pick := func(label string, size int) int {
			switch c.Draw(label, 5) {
			case 0:
				return 1 << 20
			case 1:
				return verifMax(size-1-c.Draw(label+"-under", 8), 4)
			case 2:
				return size
			case 3:
				return 2*(size+2) + c.Draw(label+"-over", 64)
			default:
				return size + 2 + c.Draw(label+"-near", 16)
			}
		}
		limH, limB, limS = pick("lim-headers", hl), pick("lim-body", bl), pick("lim-sig", sl)
		// buffer sizes include the two that put a "\n\n" delimiter across
		// the end of the decoder's first look-ahead window
		bufSize := verifMin([]int{16, 64, 512, 4096, hl + 1, sl, verifMax((hl+1)/2, 4)}[c.Draw("buf-size", 7)], verifMin(limH, limS))
		mkDecoder = func(r io.Reader) *asserts.Decoder {
			return asserts.NewDecoderStressed(r, bufSize, limH, limB, limS)
		}
		c.Logf("limits headers=%d body=%d signature=%d buffer=%d (around #%d: %d/%d/%d)", limH, limB, limS, bufSize, k, hl, bl, sl)
		w.fault("decoder-limits-near-sizes")
	case "type-body-limit":
		k := c.Draw("limit-which", n)
		lim := verifMax(len(sent[k].Body())-1+c.Draw("type-lim", 3), 1)
		typeLimit = map[*asserts.AssertionType]int{sent[k].Type(): lim}
		mkDecoder = func(r io.Reader) *asserts.Decoder { return asserts.NewDecoderWithTypeMaxBodySize(r, typeLimit) }
		c.Logf("body limit %d for type %s", lim, sent[k].Type().Name)
		w.fault("decoder-type-body-limit")
	case "arbitrary":
		data = w.genArbitrary(stream, sigStarts)
		w.fault("arbitrary-input")
	case "eof-with-data":
		rd.eofWith = true
		w.fault("reader-returns-data-with-eof")
	}
	rd.data = data
	rd.maxCall = 4*len(data) + 2000

	stage = "decoding damaged input (asserts.Decode), scenario " + scenario
	// arbitrary or damaged bytes also go to the single-assertion decoder
	if scenario == "bit-flip" || scenario == "garbage" || scenario == "arbitrary" || scenario == "truncate" {
		one := data
		if scenario != "arbitrary" && n > 1 {
			// the part of the damaged stream that holds the first assertion
			one = data[:verifMin(len(data), ends[0])]
		}
		x, err := asserts.Decode(one)
		if err == nil {
			c.Count("probe:damaged-input-accepted-by-decode")
			w.stable(x, "damaged input (Decode)")
			if scenario == "truncate" {
				sc, ss := sent[0].Signature()
				xc, xs := x.Signature()
				if !bytes.Equal(sc, xc) || !bytes.HasPrefix(ss, xs) {
					w.violate("truncated-input-accepted", "Decode accepts %d of %d bytes of %s and returns different signed content or a signature that is not a prefix of the sent one", len(one), ends[0], labels[0])
				}
			}
		} else {
			c.Count("probe:damaged-input-rejected-by-decode")
		}
	}

	if hostileAt >= 0 {
		stage = "decoding a tampered assertion (asserts.Decode): " + hostileHow
		lo := starts[hostileAt]
		hi := len(data) - (len(stream) - ends[hostileAt])
		if x, err := asserts.Decode(data[lo:hi]); err == nil {
			c.Count("probe:hostile-header-value-accepted-by-decode")
			w.stable(x, "an assertion with a hostile header value ("+hostileHow+", Decode)")
		}
	}

	// the caller may hand in its own *bufio.Reader (only done for streams
	// that must decode completely)
	var src io.Reader = rd
	wrapped := 0
	if scenario == "intact" || scenario == "eof-with-data" {
		switch c.Draw("reader-kind", 16) {
		case 14:
			wrapped = 8192
		case 15:
			wrapped = 4096
		}
		if wrapped > 0 {
			src = bufio.NewReaderSize(rd, wrapped)
			c.Count("probe:decoder-given-a-bufio-reader")
		}
	}

	stage = "reading the stream (asserts.Decoder), scenario " + scenario
	if hostileHow != "" {
		stage += ": " + hostileHow
	}
	dec := mkDecoder(src)
	var got []asserts.Assertion
	var derr error
	for i := 0; i < n+4; i++ {
		a, err := dec.Decode()
		if err != nil {
			derr = err
			break
		}
		got = append(got, a)
	}
	c.Logf("scenario %s chunk=%d bytes=%d/%d -> decoded %d of %d, then %s (reads %d)", scenario, rd.chunk, len(data), len(stream), len(got), n, verifStreamErr(derr), rd.calls)
	if rd.spun {
		w.violate("decoder-does-not-terminate", "the stream decoder called Read more than %d times for %d bytes (%s)", rd.maxCall, len(data), scenario)
		return
	}
	if derr == nil {
		w.violate("decoder-does-not-terminate", "the stream decoder returned %d assertions from a stream of %d and still no error (%s)", len(got), n, scenario)
		return
	}

	// intactPrefix: every returned assertion equals the sent one at its position
	intactPrefix := func(upto int) bool {
		for i := 0; i < upto; i++ {
			if i >= n {
				w.violate("stream-yields-unsent-assertion", "%s: the decoder returned %d assertions, only %d were sent", scenario, len(got), n)
				return false
			}
			if d := verifDiff(sent[i], got[i]); d != "" {
				w.violate("stream-round-trip-differs", "%s: assertion %s comes out of the stream with a different %s", scenario, labels[i], d)
				return false
			}
		}
		return true
	}

	switch scenario {
	case "intact", "eof-with-data":
		if derr != io.EOF || len(got) != n {
			class := "valid-stream-rejected"
			if wrapped > 0 {
				class = verifBufioClass
			}
			via := "plain reader"
			if wrapped > 0 {
				via = fmt.Sprintf("handed to NewDecoder as a *bufio.Reader with a %d byte buffer", wrapped)
			}
			w.violate(class, "%s stream of %d assertions (chunk %d, %s): decoded %d, then %v", scenario, n, rd.chunk, via, len(got), derr)
			return
		}
		intactPrefix(n)
		if n > 1 {
			c.Count("probe:several-assertions-streamed")
		}
	case "stall":
		if stallN < 100 {
			if derr != io.EOF || len(got) != n {
				w.violate("valid-stream-rejected", "stream with %d empty reads at %d: decoded %d of %d, then %v", stallN, rd.stallAt, len(got), n, derr)
				return
			}
			intactPrefix(n)
			break
		}
		// 100 or more empty reads in a row: the decoder may give up
		// (io.ErrNoProgress) or, if the reader recovers, carry on; it may
		// not hang (reader call bound above) nor lose data silently
		fallthrough
	case "io-error":
		if !intactPrefix(len(got)) {
			return
		}
		if derr == io.EOF && len(got) < n {
			w.violate("io-error-reported-as-end-of-stream", "%s at %d of %d bytes: the decoder returned %d of %d assertions and then a clean io.EOF", scenario, verifMax(rd.failAt, rd.stallAt), len(stream), len(got), n)
		}
		if derr != io.EOF {
			c.Count("probe:io-error-surfaced")
		} else {
			c.Count("probe:reader-recovered-after-long-stall")
		}
	case "truncate":
		if len(got) > 0 && !intactPrefix(len(got)-1) {
			return
		}
		if len(got) > 0 {
			k := len(got) - 1
			if k >= n {
				w.violate("stream-yields-unsent-assertion", "truncated stream: %d assertions returned, %d sent", len(got), n)
				return
			}
			if d := verifDiff(sent[k], got[k]); d != "" {
				sc, ss := sent[k].Signature()
				gc, gs := got[k].Signature()
				if bytes.Equal(sc, gc) && bytes.HasPrefix(ss, gs) && cutAt > sigStarts[k] && cutAt <= ends[k] {
					// the one case the decoder cannot know about: the stream
					// ended inside the final signature block
					c.Count("probe:truncated-signature-handed-out")
				} else {
					w.violate("truncated-input-accepted", "stream cut at %d (assertion %s spans %d..%d, signature from %d): the decoder hands out an assertion whose %s differs", cutAt, labels[k], starts[k], ends[k], sigStarts[k], d)
				}
			}
		}
		if len(got) < n && derr != io.EOF {
			c.Count("probe:truncation-reported")
		}
	case "hostile-header-values":
		// everything before the tampered assertion is valid and must come out
		if len(got) < hostileAt {
			w.violate("valid-stream-rejected", "hostile value in #%d (%s): the decoder stops after %d with %v", hostileAt, hostileHow, len(got), derr)
			return
		}
		if !intactPrefix(hostileAt) {
			return
		}
		for _, x := range got[hostileAt:] {
			c.Count("probe:hostile-header-value-accepted-by-stream-decoder")
			w.stable(x, "a stream with a hostile header value ("+hostileHow+")")
		}
	case "header-over-limit":
		if len(got) > n {
			content, _ := got[n].Signature()
			w.violate("size-limit-not-enforced", "the default decoder (MaxHeadersSize %d) hands out an assertion with %d bytes of headers", asserts.MaxHeadersSize, verifHeadLen(content))
			return
		}
		if len(got) < n || derr == io.EOF {
			w.violate("valid-stream-rejected", "stream of %d valid assertions followed by an oversized one: decoded %d, then %v", n, len(got), derr)
			return
		}
		intactPrefix(n)
		c.Count("probe:oversized-assertion-refused")
	case "bit-flip", "garbage", "arbitrary":
		for _, x := range got {
			w.stable(x, "a damaged stream")
		}
		if len(got) > 0 {
			c.Count("probe:damaged-stream-still-yields-assertions")
		}
	case "small-limits":
		for i, x := range got {
			content, sig := x.Signature()
			if hl := verifHeadLen(content); hl > limH {
				w.violate("size-limit-not-enforced", "decoder limited to %d header bytes hands out an assertion with %d", limH, hl)
			}
			if len(x.Body()) > limB {
				w.violate("size-limit-not-enforced", "decoder limited to %d body bytes hands out an assertion with %d", limB, len(x.Body()))
			}
			if len(sig) > limS {
				w.violate("size-limit-not-enforced", "decoder limited to %d signature bytes hands out an assertion with %d", limS, len(sig))
			}
			_ = i
		}
		if !intactPrefix(len(got)) {
			return
		}
		// everything comfortably inside the limits must come out
		for i := 0; i < n; i++ {
			content, sig := sent[i].Signature()
			hl, bl, sl := verifHeadLen(content), len(sent[i].Body()), len(sig)
			if hl > limH || bl > limB || sl > limS {
				c.Count("probe:oversized-assertion-refused")
				break
			}
			if 2*(hl+2) <= limH && bl <= limB && 2*(sl+2) <= limS {
				if len(got) <= i {
					w.violate("valid-stream-rejected", "limits %d/%d/%d: %s (%d/%d/%d) is inside them but the decoder stops after %d with %v", limH, limB, limS, labels[i], hl, bl, sl, len(got), derr)
				}
				continue
			}
			break // between the guaranteed and the forbidden size: either outcome
		}
	case "type-body-limit":
		if !intactPrefix(len(got)) {
			return
		}
		for i := 0; i < n; i++ {
			lim, limited := typeLimit[sent[i].Type()]
			if limited && len(sent[i].Body()) > lim {
				if len(got) > i {
					w.violate("size-limit-not-enforced", "decoder limited to %d body bytes for %s hands out one with %d", lim, sent[i].Type().Name, len(sent[i].Body()))
				}
				c.Count("probe:oversized-assertion-refused")
				break
			}
			if len(got) <= i {
				w.violate("valid-stream-rejected", "per-type body limit: %s is inside it but the decoder stops after %d with %v", labels[i], len(got), derr)
				break
			}
		}
	}
	if w.fired > 0 || (n > 1 && rd.chunk != 0) {
		c.Nontrivial()
	}
}

func verifStreamErr(err error) string {
	switch err {
	case nil:
		return "no error"
	case io.EOF:
		return "EOF"
	case io.ErrUnexpectedEOF:
		return "unexpected EOF"
	}
	s := err.Error()
	if len(s) > 80 {
		s = s[:80] + "..."
	}
	return "error(" + s + ")"
}

// genArbitrary produces input that was never an encoding of anything:
// random bytes, header-looking text, or a heavily edited valid stream.
func (w *verifC20) genArbitrary(stream []byte, sigStarts []int) []byte {
	c := w.c
	switch c.Draw("arbitrary", 6) {
	case 5:
		// white space that does not belong: an extra new line or blank
		// before a signature block or before the first header
		p := sigStarts[c.Draw("ws-which", len(sigStarts))]
		if c.Chance("ws-at-start", 1, 4) {
			p = 0
		}
		ws := []string{"\n", " ", "\n\n", "\r\n"}[c.Draw("ws", 4)]
		return append(append(append([]byte(nil), stream[:p]...), ws...), stream[p:]...)
	case 0:
		b := make([]byte, c.Draw("rand-len", 300))
		for i := range b {
			b[i] = byte(c.Draw("rand-byte", 256))
		}
		return b
	case 1:
		frag := []string{"type: test-only", "authority-id: canonical", "primary-key: k", "body-length: 5", "body-length: 99999999999999999999",
			"body-length: -3", "revision: x", "format: 9999", "sign-key-sha3-384: " + w.key.id, "novalue", "bad name: x", "l:", "  - a", "  -", "    text",
			"m:", "  k: v", "  k:", "", "AXNpZw==", "body-length: 3000000", "type: nonsense", "revision: -1"}
		var ls []string
		for i, n := 0, 1+c.Draw("frag-n", 14); i < n; i++ {
			ls = append(ls, frag[c.Draw("frag", len(frag))])
		}
		return []byte(strings.Join(ls, "\n"))
	case 2:
		// drop, duplicate or swap whole lines of a valid stream
		ls := strings.Split(string(stream), "\n")
		for i, n := 0, 1+c.Draw("edits", 4); i < n && len(ls) > 1; i++ {
			p := c.Draw("edit-line", len(ls))
			switch c.Draw("edit", 3) {
			case 0:
				ls = append(ls[:p], ls[p+1:]...)
			case 1:
				ls = append(ls[:p], append([]string{ls[p]}, ls[p:]...)...)
			case 2:
				q := c.Draw("edit-line2", len(ls))
				ls[p], ls[q] = ls[q], ls[p]
			}
		}
		return []byte(strings.Join(ls, "\n"))
	case 3:
		// a huge declared body
		return []byte("type: test-only\nauthority-id: canonical\nprimary-key: k\nbody-length: " + strconv.Itoa(asserts.MaxBodySize+1+c.Draw("over", 100)) + "\nsign-key-sha3-384: " + w.key.id + "\n\nshort body\n\nAXNpZw==\n")
	default:
		// valid stream with invalid UTF-8 spliced in
		d := append([]byte(nil), stream...)
		p := c.Draw("utf8-pos", len(d))
		d[p] = 0xff
		return d
	}
}

var verifProbesC20 = []string{"probe:every-prefix-of-a-nested-assertion-decoded", "probe:headers-between-64k-and-the-limit", "probe:headers-end-at-window-boundary", "probe:hostile-header-value-accepted-by-decode", "probe:hostile-header-value-accepted-by-stream-decoder", "probe:decoder-given-a-bufio-reader", "probe:damaged-input-accepted-by-decode", "probe:damaged-input-rejected-by-decode", "probe:damaged-stream-still-yields-assertions", "probe:io-error-surfaced", "probe:long-body", "probe:long-header-value", "probe:nested-container", "probe:oversized-assertion-refused", "probe:reader-recovered-after-long-stall", "probe:several-assertions-streamed", "probe:truncated-signature-handed-out", "probe:truncation-reported"}

var verifHostileInts = []string{"-1", "-1000000", "-9223372036854775808", "9223372036854775807", "9223372036854775808",
	"99999999999999999999", "2097152", "2097153", "+5", " 5", "5 ", "0x10", "1e3", "five", "", "٣", "0", "00", "-0", "1_000", "4294967296", "-2147483649"}

// hostileHeaders rewrites the header block of one well-formed assertion
// (content = headers [+ "\n\n" + body]) so that a meta header carries a
// value no signer would produce; everything else stays as it was.
func (w *verifC20) hostileHeaders(content []byte, bodyLen int) ([]byte, string) {
	c := w.c
	hl := verifHeadLen(content)
	lines := strings.Split(string(content[:hl]), "\n")
	rest := string(content[hl:])
	set := func(name, val string) {
		for i, l := range lines {
			if strings.HasPrefix(l, name+": ") || l == name+":" {
				lines[i] = name + ": " + val
				return
			}
		}
		// insert before the sign-key header (always the last line)
		lines = append(lines[:len(lines)-1], name+": "+val, lines[len(lines)-1])
	}
	val := func() string {
		k := c.Draw("hostile-value", len(verifHostileInts)+2)
		switch {
		case k == len(verifHostileInts):
			return strconv.Itoa(bodyLen + 1 + c.Draw("hostile-more", 3))
		case k == len(verifHostileInts)+1:
			return strconv.Itoa(bodyLen - 1 - c.Draw("hostile-less", 3))
		}
		return verifHostileInts[k]
	}
	how := ""
	switch c.Draw("hostile-how", 6) {
	case 0, 1, 2:
		v := val()
		set("body-length", v)
		how = fmt.Sprintf("body-length: %q (real body %d)", v, bodyLen)
	case 3:
		v := val()
		set("revision", v)
		how = fmt.Sprintf("revision: %q", v)
	case 4:
		v := val()
		set("format", v)
		how = fmt.Sprintf("format: %q", v)
	case 5:
		// a header given twice (top-level lines only)
		var tops []int
		for i, l := range lines {
			if l != "" && l[0] != ' ' {
				tops = append(tops, i)
			}
		}
		p := tops[c.Draw("dup-line", len(tops))]
		dup := lines[p]
		if c.Chance("dup-other-value", 1, 2) && strings.Contains(dup, ": ") {
			dup = dup[:strings.Index(dup, ": ")+2] + val()
		}
		at := tops[c.Draw("dup-at", len(tops))]
		lines = append(lines[:at], append([]string{dup}, lines[at:]...)...)
		how = fmt.Sprintf("duplicate header %q", verifShort(dup))
	}
	return []byte(strings.Join(lines, "\n") + rest), how
}

var verifNestFragments = []string{
	"foo:\n  ", "foo:\n  -", "foo:\n  -\n    ", "foo:\n  -\n      ", "foo:\n  k:\n    ", "foo:\n    ", "foo:\n  - a\n  ",
	"foo:\n  k: v\n  ", "foo:\n  -\n    -\n      ", "foo:\n  k:\n    -\n      ", "foo:\n  -\n    k:\n      ", "foo:", "foo:\n ",
	"foo:\n  -\n    k:\n        ", "foo:\n  k:\n      text\n    ", "foo:\n   x", "foo:\n  -x", "foo:\n  - \n  -", "foo:\n\tx",
}

// malformedNesting inserts one broken nested header (a line that is exactly
// the nesting prefix, the prefix plus "-", ...) into the header block of a
// well-formed assertion, in the middle or as its very last header.
func (w *verifC20) malformedNesting(content []byte) ([]byte, string) {
	c := w.c
	hl := verifHeadLen(content)
	lines := strings.Split(string(content[:hl]), "\n")
	rest := string(content[hl:])
	frag := verifNestFragments[c.Draw("nest-fragment", len(verifNestFragments))]
	var tops []int
	for i, l := range lines {
		if l != "" && l[0] != ' ' {
			tops = append(tops, i)
		}
	}
	at := len(lines) // after the last header: the fragment is followed by the blank line
	if c.Chance("nest-in-the-middle", 1, 2) {
		at = tops[c.Draw("nest-at", len(tops))]
	}
	nl := append(append(append([]string{}, lines[:at]...), frag), lines[at:]...)
	return []byte(strings.Join(nl, "\n") + rest), fmt.Sprintf("%q before header line %d of %d", frag, at, len(lines))
}

// truncateEverywhere gives every proper prefix of one encoding to
// asserts.Decode and to the stream decoder. Each must return an error, or -
// only once the cut lies inside the signature - the sent content with a
// prefix of the signature; a panic is a violation (C20/panic) that names
// the offset.
func (w *verifC20) truncateEverywhere(sent []asserts.Assertion, labels []string) {
	c := w.c
	// prefer an assertion with nested headers and a moderate size
	k, bestScore := 0, -1
	for i, a := range sent {
		content, _ := a.Signature()
		hl := verifHeadLen(content)
		if len(asserts.Encode(a)) > 3000 {
			continue
		}
		score := strings.Count(string(content[:hl]), "\n  ")
		if score > bestScore {
			k, bestScore = i, score
		}
	}
	a := sent[k]
	enc := asserts.Encode(a)
	if len(enc) > 3000 {
		enc = enc[:3000]
	}
	content, sig := a.Signature()
	sigStart := len(content) + 2
	accepted := 0
	try := func(off int, which string, f func() (asserts.Assertion, error)) bool {
		var x asserts.Assertion
		var err error
		panicked := func() (p interface{}) {
			defer func() { p = recover() }()
			x, err = f()
			return nil
		}()
		if panicked != nil {
			if c.Active("C20") {
				c.Violate("C20/panic", "%s panics on the first %d of %d bytes of %s (%q...): %v", which, off, len(enc), labels[k], verifTail(enc[:off], 24), panicked)
			}
			return false
		}
		if err != nil {
			return true
		}
		accepted++
		xc, xs := x.Signature()
		if off <= sigStart || !bytes.Equal(xc, content) || !bytes.HasPrefix(sig, xs) {
			w.violate("truncated-input-accepted", "%s accepts the first %d of %d bytes of %s (signature starts at %d) and returns different signed content or a signature that is not a prefix of the sent one", which, off, len(enc), labels[k], sigStart)
			return false
		}
		return true
	}
	for off := 0; off < len(enc); off++ {
		cut := enc[:off]
		if !try(off, "asserts.Decode", func() (asserts.Assertion, error) { return asserts.Decode(cut) }) {
			return
		}
		if !try(off, "the stream decoder", func() (asserts.Assertion, error) { return asserts.NewDecoder(bytes.NewReader(cut)).Decode() }) {
			return
		}
	}
	c.Logf("every prefix of %s (%d bytes, %d nested lines) decoded: %d accepted with a signature prefix", labels[k], len(enc), bestScore, accepted)
	c.Count("probe:every-prefix-of-a-nested-assertion-decoded")
	c.Add("prefixes-decoded", int64(2*len(enc)))
}

func verifTail(b []byte, n int) string {
	if len(b) > n {
		b = b[len(b)-n:]
	}
	return string(b)
}
