package asserts_test

// C18: only correctly signed, currently valid assertions are accepted.
//
// The simulator is the only signer. It creates accounts and account-keys
// (valid, expired, not yet valid, constrained, of another authority, never
// delivered), signs assertions with them, and delivers the encodings to a
// memory-backed and a filesystem-backed asserts.Database through a transport
// that may alter them, while the (synctest) clock is stepped across the
// validity boundaries of the keys.

import (
	"bytes"
	"fmt"
	"regexp"
	"sort"
	"strconv"
	"strings"
	"time"

	"github.com/snapcore/snapd/asserts"
	"github.com/snapcore/snapd/internal/verifsim"
)

var verifEngineC18 = &verifsim.Engine{
	Name:   "asserts-C18",
	Bubble: true,
	Run:    verifRunC18,
	Real: []string{
		"asserts.Database Check/Add/Find with the default checkers (key expiry, signature, timestamp vs key validity, cross consistency)",
		"asserts.Decode and the stream asserts.Decoder",
		"account-key validity windows and signing constraints (asserts/account_key.go)",
		"signature decoding and RSA verification (asserts/crypto.go, x/crypto openpgp)",
		"memory backstore and filesystem backstore on real files",
		"databases stacked on both of them ((*Database).WithStackedBackstore) with their own deliveries",
		"signing through asserts' assembleAndSign with fixed 1024-bit RSA keys",
	},
	Stubs: []string{
		"the clock (testing/synctest fake clock, stepped by the simulator)",
		"the transport between signer and database (byte/structural mutations, truncation, chunked reads, reuse of the read buffer before and after Check/Add)",
		"the store/brand signing infrastructure: the simulator holds every private key",
	},
}

const verifF4Class = "C18/altered-signature-accepted:parsed-fields-equal-only-framing-or-unhashed-differs"

type verifKeyView struct {
	since, until time.Time
	cons         []verifCons
	account      string
}

// verifView is what one database is known to hold (from the simulator's
// deliveries that it accepted).
type verifView struct {
	name     string
	keys     map[string]*verifKeyView // key id -> current account-key
	accounts map[string]bool
	cur      map[string]int  // identity -> highest revision accepted
	builtin  map[string]bool // identities of trusted assertions
	framed   map[string]bool // bytes keys accepted by Add with a re-framed signature
	// base is set for the view of a database stacked on another one
	// ((*Database).WithStackedBackstore): it finds in its own backstore
	// first, then in the base database's.
	base *verifView
}

func verifNewView(name string, base *verifView) *verifView {
	return &verifView{name: name, base: base, keys: map[string]*verifKeyView{}, accounts: map[string]bool{},
		cur: map[string]int{}, builtin: map[string]bool{}, framed: map[string]bool{}}
}

// key: the account-key revision this database itself finds for a key id.
func (v *verifView) key(id string) *verifKeyView {
	if kv := v.keys[id]; kv != nil {
		return kv
	}
	if v.base != nil {
		return v.base.key(id)
	}
	return nil
}

func (v *verifView) hasAccount(id string) bool {
	return v.accounts[id] || (v.base != nil && v.base.hasAccount(id))
}

func (v *verifView) isBuiltin(id string) bool {
	return v.builtin[id] || (v.base != nil && v.base.isBuiltin(id))
}

// maxRev: the highest revision of an identity in this database or the ones
// below it (an Add must exceed all of them).
func (v *verifView) maxRev(id string) (int, bool) {
	r, have := v.cur[id]
	if v.base != nil {
		if br, bhave := v.base.maxRev(id); bhave && (!have || br > r) {
			r, have = br, true
		}
	}
	return r, have
}

func (v *verifView) wasFramed(bk string) bool {
	return v.framed[bk] || (v.base != nil && v.base.wasFramed(bk))
}

// verifTarget is one database deliveries go to.
type verifTarget struct {
	v  *verifView
	db func() *asserts.Database
}

type verifC18 struct {
	c        *verifsim.Ctx
	keys     map[string]*verifKey
	led      *verifLedger
	st       *verifStores
	views    []*verifView // base views (mem, fs), then the stacked ones
	targets  []verifTarget
	stackBS  []asserts.Backstore // own backstores of the stacked databases
	stacked  []*asserts.Database
	faults   bool
	forceKey *verifKey // when set genAssertion signs with this key for its owner
	forceAll bool      // when set the next delivery goes to every database
	owner    map[string]string       // key label -> account id
	akLatest map[string]*verifSigned // key label -> latest account-key signed for it
	signedTo map[string]int          // identity -> highest revision ever signed
	accepted int
	rejected int
	fired    int
	// last verdict per (db, bytes key) to observe flips across clock steps
	lastVerdict map[string]bool
}

func (w *verifC18) now() time.Time { return time.Now().UTC() }

// restack (re)creates the stacked databases over the current base ones,
// keeping their own backstores.
func (w *verifC18) restack() {
	for i, bs := range w.stackBS {
		w.stacked[i] = w.st.dbs()[i].WithStackedBackstore(bs)
	}
}

// stop: a run ends at its first violation, except for the re-framed
// signature shape (finding F4), which the model follows exactly (the stored
// content is authentic), so that the rest of the run stays meaningful.
func (w *verifC18) stop() bool {
	for _, v := range w.c.Violations {
		if v.Class != verifF4Class {
			return true
		}
	}
	return false
}

func (w *verifC18) fault(kind string) {
	w.c.Count("fault:" + kind)
	w.fired++
}

// ---- world

var verifSinceMenu = []time.Duration{-30 * 24 * time.Hour, -30 * 24 * time.Hour, -2 * time.Hour, 6 * time.Hour, -30 * 24 * time.Hour, 48 * time.Hour}
var verifUntilMenu = []time.Duration{0, 0, 12 * time.Hour, 72 * time.Hour, 0, -24 * time.Hour, 30 * time.Hour}

func (w *verifC18) drawWindow(label string) (since, until time.Time) {
	c := w.c
	since = verifT0.Add(verifSinceMenu[c.Draw("since:"+label, len(verifSinceMenu))])
	u := verifUntilMenu[c.Draw("until:"+label, len(verifUntilMenu))]
	if u != 0 {
		until = verifT0.Add(u)
		if until.Before(since) {
			until = time.Time{}
		}
	}
	return since, until
}

var verifConsMenu = [][]verifCons{
	nil,
	{{typ: "test-only", headers: map[string]string{"primary-key": "k[0-1]"}}},
	{{typ: "snap-build", headers: map[string]string{}}, {typ: "test-only-2", headers: map[string]string{"pk1": "a.*"}}},
	{{typ: "test-only", headers: map[string]string{"primary-key": "k2|k3"}}, {typ: "account", headers: map[string]string{}}},
}

func (w *verifC18) signAccountKey(k *verifKey, signer *verifKey, since, until time.Time, cons []verifCons, rev int) *verifSigned {
	h := map[string]interface{}{
		"authority-id":        "canonical",
		"account-id":          w.owner[k.label],
		"name":                k.label,
		"public-key-sha3-384": k.id,
		"since":               verifRFC(since),
	}
	if !until.IsZero() {
		h["until"] = verifRFC(until)
	}
	if rev > 0 {
		h["revision"] = strconv.Itoa(rev)
	}
	if len(cons) > 0 {
		h["format"] = "1"
		var lst []interface{}
		for _, alt := range cons {
			hm := map[string]interface{}{"type": alt.typ}
			for hk, hv := range alt.headers {
				hm[hk] = hv
			}
			lst = append(lst, map[string]interface{}{"headers": hm})
		}
		h["constraints"] = lst
	}
	a := verifMustSign(w.c, signer, asserts.AccountKeyType, h, k.pubEnc)
	e := w.led.record(fmt.Sprintf("account-key[%s of %s rev%d since=%s until=%s cons=%d] by %s", k.label, w.owner[k.label], rev, verifOff(since), verifOff(until), len(cons), signer.label), a, signer)
	e.akKey, e.akAccount, e.akSince, e.akUntil, e.akCons = k, w.owner[k.label], since, until, cons
	w.akLatest[k.label] = e
	if rev > w.signedTo[e.id] {
		w.signedTo[e.id] = rev
	}
	return e
}

func (w *verifC18) signAccount(acct string, signer *verifKey, ts time.Time, rev int) *verifSigned {
	h := map[string]interface{}{
		"authority-id": "canonical",
		"account-id":   acct,
		"display-name": "Acct " + acct,
		"validation":   "unproven",
		"timestamp":    verifRFC(ts),
	}
	if rev > 0 {
		h["revision"] = strconv.Itoa(rev)
	}
	a := verifMustSign(w.c, signer, asserts.AccountType, h, nil)
	e := w.led.record(fmt.Sprintf("account[%s rev%d ts=%s] by %s", acct, rev, verifOff(ts), signer.label), a, signer)
	e.acctID = acct
	if rev > w.signedTo[e.id] {
		w.signedTo[e.id] = rev
	}
	return e
}

func verifRunC18(c *verifsim.Ctx) {
	for _, p := range verifProbesC18 {
		c.Add(p, 0) // so that a probe that is never reached shows up as 0
	}
	stage := "running"
	defer verifRecover(c, &stage)
	keys := verifKeys()
	w := &verifC18{c: c, keys: keys, led: verifNewLedger(),
		owner: map[string]string{"root": "canonical", "store": "canonical", "trusted2": "canonical",
			"dev1a": "dev1", "dev1b": "dev1", "dev2": "dev2", "stray": "dev1", "spare": "dev2"},
		akLatest: map[string]*verifSigned{}, signedTo: map[string]int{}, lastVerdict: map[string]bool{}}
	if !verifT0.Equal(time.Now()) {
		c.Fatalf("bubble clock does not start at %v but at %v", verifT0, time.Now().UTC())
	}
	w.faults = c.Draw("faults", 4) != 0
	c.Logf("faults=%v", w.faults)

	root := keys["root"]
	rootSince := verifT0.Add(-365 * 24 * time.Hour)
	acctCanonical := w.signAccount("canonical", root, rootSince, 0)
	akRoot := w.signAccountKey(root, root, rootSince, time.Time{}, nil, 0)
	t2since, t2until := w.drawWindow("trusted2")
	akT2 := w.signAccountKey(keys["trusted2"], root, t2since, t2until, nil, 0)

	w.st = verifOpenStores(c, []asserts.Assertion{acctCanonical.a, akRoot.a, akT2.a}, nil)
	defer w.st.close()
	for _, n := range w.st.names {
		v := verifNewView(n, nil)
		v.accounts["canonical"] = true
		for _, e := range []*verifSigned{akRoot, akT2} {
			v.keys[e.akKey.id] = &verifKeyView{since: e.akSince, until: e.akUntil, cons: e.akCons, account: e.akAccount}
			v.builtin[e.id] = true
		}
		v.builtin[acctCanonical.id] = true
		w.views = append(w.views, v)
	}
	w.targets = []verifTarget{
		{w.views[0], func() *asserts.Database { return w.st.mem }},
		{w.views[1], func() *asserts.Database { return w.st.fs }},
	}
	// in half of the runs each database also has one stacked on it
	// (WithStackedBackstore over a fresh memory backstore), which later
	// gets deliveries - key re-issues in particular - the base never sees
	if c.Draw("stacked", 2) == 1 {
		for i := range w.st.names {
			w.stackBS = append(w.stackBS, asserts.NewMemoryBackstore())
			w.stacked = append(w.stacked, nil)
			sv := verifNewView(w.st.names[i]+"+stacked", w.views[i])
			w.views = append(w.views, sv)
			i := i
			w.targets = append(w.targets, verifTarget{sv, func() *asserts.Database { return w.stacked[i] }})
		}
		w.restack()
		c.Logf("stacked databases on mem and fs")
	}

	// initial population, delivered like everything else
	for _, lbl := range []string{"store", "dev1a", "dev1b", "dev2", "spare"} {
		k := keys[lbl]
		since, until := w.drawWindow(lbl)
		var cons []verifCons
		if lbl == "dev1b" || lbl == "spare" {
			cons = verifConsMenu[c.Draw("cons:"+lbl, len(verifConsMenu))]
		}
		w.signAccountKey(k, root, since, until, cons, 0)
	}
	// "stray" belongs to dev1 but its account-key is only signed, delivered late or never
	ssince, suntil := w.drawWindow("stray")
	w.signAccountKey(keys["stray"], root, ssince, suntil, nil, 0)
	for _, acct := range []string{"dev1", "dev2"} {
		e := w.signAccount(acct, root, verifT0.Add(-24*time.Hour), 0)
		w.deliver(e, "setup")
	}
	for _, lbl := range []string{"store", "dev1a", "dev1b", "dev2", "spare"} {
		if lbl != "store" && c.Chance("late:"+lbl, 1, 6) {
			c.Logf("account-key of %s not delivered at setup", lbl)
			continue
		}
		w.deliver(w.akLatest[lbl], "setup")
	}

	nops := c.Range("nops", 4, 28)
	for i := 0; i < nops && !w.stop(); i++ {
		switch c.Draw("op", 10) {
		case 0, 1, 2, 3, 4:
			e := w.genAssertion()
			w.deliver(e, "new")
		case 5, 6:
			e := w.led.list[c.Draw("redeliver", len(w.led.list))]
			w.deliver(e, "again")
		case 7:
			w.clockStep()
		case 8:
			switch c.Draw("admin", 3) {
			case 0:
				w.reissueKey()
			case 1:
				c.Logf("restart fs database")
				w.st.reopenFS()
				w.restack()
				w.fault("restart")
			case 2:
				w.findStored()
			}
		case 9:
			w.clockStep()
			e := w.led.list[c.Draw("redeliver", len(w.led.list))]
			w.deliver(e, "again")
		}
	}
	if !w.stop() {
		w.findStored()
	}
	c.SimTime = time.Since(verifT0)
	if w.accepted > 0 && w.rejected > 0 && w.fired > 0 {
		c.Nontrivial()
	}
}

// ---- workload

func (w *verifC18) keysOf(acct string) []string {
	var out []string
	for _, l := range verifKeyLabels {
		if w.owner[l] == acct {
			out = append(out, l)
		}
	}
	return out
}

func (w *verifC18) genAssertion() *verifSigned {
	c := w.c
	typ := c.Draw("type", 4)
	authority := []string{"dev1", "canonical", "dev2"}[c.Draw("authority", 3)]
	if typ == 3 {
		authority = "canonical"
	}
	var signer *verifKey
	if w.forceKey != nil {
		signer = w.forceKey
		authority = w.owner[signer.label]
		if typ == 3 && authority != "canonical" {
			typ = 0
		}
	} else if c.Draw("signer-right", 4) != 3 {
		own := w.keysOf(authority)
		signer = w.keys[own[c.Draw("own-key", len(own))]]
	} else {
		signer = w.keys[verifKeyLabels[c.Draw("any-key", len(verifKeyLabels))]]
	}
	// the timestamp of timestamped types, relative to the signer's window
	ts := w.now()
	if lk := w.akLatest[signer.label]; lk != nil {
		switch c.Draw("ts", 6) {
		case 1:
			ts = lk.akSince
		case 2:
			ts = lk.akSince.Add(-time.Second)
		case 3:
			if !lk.akUntil.IsZero() {
				ts = lk.akUntil.Add(-time.Second)
			}
		case 4:
			if !lk.akUntil.IsZero() {
				ts = lk.akUntil
			}
		case 5:
			ts = w.now().Add(-time.Duration(c.Draw("ts-back", 72)) * time.Hour)
		}
	}
	pk := c.Draw("pk", 4)
	h := map[string]interface{}{"authority-id": authority}
	var t *asserts.AssertionType
	var idGuess string
	switch typ {
	case 0:
		t = asserts.TestOnlyType
		h["primary-key"] = "k" + strconv.Itoa(pk)
		idGuess = "test-only/k" + strconv.Itoa(pk)
	case 1:
		t = asserts.SnapBuildType
		dg := strings.Repeat("A", 63) + string("ABCD"[pk])
		h["snap-sha3-384"] = dg
		h["snap-id"] = "snapid" + strconv.Itoa(pk)
		h["grade"] = "stable"
		h["snap-size"] = "10"
		h["timestamp"] = verifRFC(ts)
		idGuess = "snap-build/" + dg
	case 2:
		t = asserts.TestOnly2Type
		h["pk1"] = []string{"a", "ab", "b", "c"}[pk]
		h["pk2"] = "x"
		idGuess = "test-only-2/" + h["pk1"].(string) + "/x/o1-defl"
	case 3:
		acct := []string{"dev3", "dev4", "dev1", "dev2"}[pk]
		rev := w.nextRev("account/" + acct)
		return w.signAccount(acct, signer, ts, rev)
	}
	rev := w.nextRev(idGuess)
	if rev > 0 {
		h["revision"] = strconv.Itoa(rev)
	}
	if c.Chance("extra-header", 1, 3) {
		h["note"] = []interface{}{"x", map[string]interface{}{"y": "multi\nline"}}
	}
	var body []byte
	if c.Chance("body", 1, 3) {
		body = []byte("body of " + idGuess + "\n\nsecond paragraph")
	}
	a := verifMustSign(c, signer, t, h, body)
	tsNote := ""
	if typ == 1 {
		tsNote = " ts=" + verifOff(ts)
	}
	e := w.led.record(fmt.Sprintf("%s[rev%d%s auth=%s] by %s", idGuess, rev, tsNote, authority, signer.label), a, signer)
	if e.id != idGuess {
		c.Fatalf("identity model wrong: %q vs %q", e.id, idGuess)
	}
	if rev > w.signedTo[e.id] {
		w.signedTo[e.id] = rev
	}
	return e
}

func (w *verifC18) nextRev(id string) int {
	cur, have := w.signedTo[id]
	switch w.c.Draw("rev", 4) {
	case 0, 1:
		if !have {
			w.signedTo[id] = 0
			return 0
		}
		return cur + 1
	case 2:
		return cur
	default:
		return cur + 1 + w.c.Draw("rev-jump", 3)
	}
}

func (w *verifC18) reissueKey() {
	c := w.c
	lbl := []string{"dev1a", "dev1b", "store", "spare", "dev2", "stray"}[c.Draw("reissue", 6)]
	prev := w.akLatest[lbl]
	since, until := prev.akSince, prev.akUntil
	switch c.Draw("reissue-how", 4) {
	case 0: // revoke now
		until = w.now()
		if until.Before(since) {
			until = since
		}
	case 1: // extend / remove the end
		until = time.Time{}
	case 2: // end shortly
		until = w.now().Add(time.Duration(1+c.Draw("until-in-h", 30)) * time.Hour)
		if until.Before(since) {
			until = since
		}
	case 3:
		since, until = w.drawWindow("re-" + lbl)
	}
	cons := prev.akCons
	if c.Chance("re-cons", 1, 3) {
		if len(prev.akCons) > 0 && c.Chance("drop-cons", 1, 2) {
			// back to an unconstrained key: the new revision has a LOWER
			// format than the one it supersedes
			cons = nil
			c.Count("probe:account-key-reissued-in-a-lower-format")
		} else {
			cons = verifConsMenu[c.Draw("cons:"+lbl, len(verifConsMenu))]
		}
	}
	e := w.signAccountKey(w.keys[lbl], w.keys["root"], since, until, cons, w.signedTo[prev.id]+1)
	w.fault("account-key-reissued")
	w.deliver(e, "reissue")
	if !w.stop() && c.Chance("use-reissued-key", 1, 2) {
		// and straight away something signed with that key
		w.forceKey = w.keys[lbl]
		x := w.genAssertion()
		w.forceKey = nil
		w.forceAll = true // to every database, so that base and stacked ones look the key up in turn
		w.deliver(x, "new")
		w.forceAll = false
	}
}

func (w *verifC18) boundaries() []time.Time {
	seen := map[int64]bool{}
	var out []time.Time
	now := w.now()
	for _, v := range w.views {
		for _, kv := range v.keys {
			for _, t := range []time.Time{kv.since, kv.until} {
				if !t.IsZero() && t.After(now.Add(-2*time.Second)) && !seen[t.Unix()] {
					seen[t.Unix()] = true
					out = append(out, t)
				}
			}
		}
	}
	sort.Slice(out, func(i, j int) bool { return out[i].Before(out[j]) })
	return out
}

func (w *verifC18) clockStep() {
	c := w.c
	now := w.now()
	var target time.Time
	bs := w.boundaries()
	how := c.Draw("clock", 5)
	// the first boundary strictly relevant for the chosen landing point
	pick := func(delta time.Duration) bool {
		for _, b := range bs {
			if b.Add(delta).After(now) {
				target = b.Add(delta)
				return true
			}
		}
		return false
	}
	switch how {
	case 0:
		target = now.Add(time.Duration(1+c.Draw("hours", 12)) * time.Hour)
	case 1:
		if !pick(0) {
			target = now.Add(24 * time.Hour)
		} else {
			c.Count("probe:clock-lands-exactly-on-boundary")
		}
	case 2:
		if !pick(-time.Second) {
			target = now.Add(time.Second)
		}
	case 3:
		if !pick(time.Second) {
			target = now.Add(time.Minute)
		}
	case 4:
		target = now.Add(time.Duration(1+c.Draw("days", 3)) * 24 * time.Hour)
	}
	crossed := 0
	for _, b := range bs {
		if b.After(now) && !b.After(target) {
			crossed++
		}
	}
	time.Sleep(target.Sub(now))
	if crossed > 0 {
		w.fault("clock-crosses-key-boundary")
	}
	c.Logf("clock -> T0+%s (crossed %d boundaries)", verifOff(w.now()), crossed)
}

// ---- transport

// mutate returns the bytes to deliver for e and a description.
func (w *verifC18) mutate(e *verifSigned, why string) ([]byte, string) {
	c := w.c
	enc := append([]byte(nil), e.enc...)
	if !w.faults || why == "setup" {
		return enc, "intact"
	}
	kind := c.Draw("transport", 30) - 6
	content, sig := verifSplit(enc)
	switch kind {
	default: // 0..9
		return enc, "intact"
	case 10:
		pos := c.Draw("flip-pos", len(enc))
		bit := c.Draw("bit", 8)
		enc[pos] ^= byte(1 << uint(bit))
		if pos < len(content) {
			w.fault("bit-flip-content")
		} else {
			w.fault("bit-flip-signature-text")
		}
		return enc, fmt.Sprintf("bit-flip@%d.%d/%d", pos, bit, len(enc))
	case 11:
		pos := c.Draw("set-pos", len(enc))
		val := byte(c.Draw("set-val", 256))
		enc[pos] = val
		w.fault("byte-set")
		return enc, fmt.Sprintf("byte-set@%d=%d", pos, val)
	case 12:
		pos := c.Draw("del-pos", len(enc))
		enc = append(enc[:pos], enc[pos+1:]...)
		w.fault("byte-delete")
		return enc, fmt.Sprintf("byte-delete@%d", pos)
	case 13:
		pos := c.Draw("ins-pos", len(enc)+1)
		b := verifInsertBytes[c.Draw("ins-val", len(verifInsertBytes))]
		enc = append(enc[:pos], append([]byte{b}, enc[pos:]...)...)
		w.fault("byte-insert")
		return enc, fmt.Sprintf("byte-insert@%d=%d", pos, b)
	case 14:
		pos := c.Draw("cut-pos", len(enc))
		if c.Chance("cut-in-sig", 1, 2) {
			pos = len(content) + 2 + c.Draw("cut-sig-pos", len(sig))
		}
		w.fault("truncate")
		return enc[:pos], fmt.Sprintf("truncate@%d/%d", pos, len(enc))
	case 15: // signature of another signed assertion
		o := w.led.list[c.Draw("splice-from", len(w.led.list))]
		w.fault("splice-foreign-signature")
		return verifJoin(content, o.sig), "signature-of(" + o.label + ")"
	case 16: // rewrite one header line, keep the signature
		lines := strings.Split(string(content), "\n")
		li := c.Draw("hdr-line", len(lines))
		repl := ""
		switch c.Draw("hdr-how", 4) {
		case 0:
			for i, l := range lines {
				if strings.HasPrefix(l, "authority-id: ") {
					li = i
					repl = "authority-id: " + []string{"canonical", "dev1", "dev2"}[c.Draw("hdr-auth", 3)]
				}
			}
		case 1:
			for i, l := range lines {
				if strings.HasPrefix(l, "sign-key-sha3-384: ") {
					li = i
					repl = "sign-key-sha3-384: " + w.keys[verifKeyLabels[c.Draw("hdr-key", len(verifKeyLabels))]].id
				}
			}
		case 2:
			for i, l := range lines {
				if strings.HasPrefix(l, "revision: ") {
					li = i
					repl = "revision: " + strconv.Itoa(1+c.Draw("hdr-rev", 9))
				}
			}
		case 3:
			for i, l := range lines {
				if strings.HasPrefix(l, "until: ") || strings.HasPrefix(l, "timestamp: ") || strings.HasPrefix(l, "since: ") {
					li = i
					repl = l[:strings.Index(l, ": ")+2] + verifRFC(w.now().Add(time.Duration(c.Draw("hdr-h", 200)-100)*time.Hour))
				}
			}
		}
		if repl == "" {
			repl = lines[li] + "x"
		}
		lines[li] = repl
		w.fault("header-rewrite")
		return verifJoin([]byte(strings.Join(lines, "\n")), sig), fmt.Sprintf("header-rewrite line %d -> %q", li, verifShort(repl))
	case 17, 18: // one bit of the decoded signature
		dec := append([]byte(nil), e.sigDec...)
		pos := c.Draw("sigdec-pos", len(dec))
		if c.Chance("sigdec-head", 1, 2) {
			pos = c.Draw("sigdec-head-pos", verifMin(24, len(dec)))
		}
		bit := c.Draw("bit", 8)
		dec[pos] ^= byte(1 << uint(bit))
		w.fault("bit-flip-decoded-signature")
		return verifJoin(content, verifEncodeSig(dec, 76)), fmt.Sprintf("decoded-signature-bit-flip@%d.%d", pos, bit)
	case 19, 20, 21: // structural re-framing of the signature packet
		k := c.Draw("reframe", len(verifReframeNames))
		dec := verifReframe(c, e.sigDec, k)
		if dec == nil {
			return enc, "intact"
		}
		if k < 8 {
			w.fault("signature-reframed")
		} else {
			w.fault("signature-structure-tampered")
		}
		return verifJoin(content, verifEncodeSig(dec, 76)), "signature-" + verifReframeNames[k]
	case 22: // same decoded bytes, different base64 layout: not an alteration
		width := []int{64, 4, 76 * 4, 60}[c.Draw("rewrap", 4)]
		c.Count("rewrapped-signature")
		return verifJoin(content, verifEncodeSig(e.sigDec, width)), fmt.Sprintf("signature-rewrapped@%d", width)
	case 23: // whole content of another assertion under this signature
		o := w.led.list[c.Draw("splice-content-from", len(w.led.list))]
		w.fault("splice-foreign-content")
		return verifJoin(o.content, sig), "content-of(" + o.label + ")"
	}
}

func verifShort(s string) string {
	if len(s) > 48 {
		return s[:45] + "..."
	}
	return s
}

// ---- delivery and oracle

func (w *verifC18) deliver(e *verifSigned, why string) {
	c := w.c
	data, how := w.mutate(e, why)
	mode := c.Draw("mode", 3) // 0 add, 1 check, 2 check then add
	if why == "setup" || why == "reissue" {
		mode = 0
	}
	var d asserts.Assertion
	var derr error
	route := "decode"
	if c.Chance("via-stream", 1, 4) {
		route = "stream"
		rd := verifNewReader(c, data)
		rd.chunk = []int{0, -1, 1, 7}[c.Draw("chunking", 4)]
		d, derr = asserts.NewDecoder(rd).Decode()
		if rd.spun {
			c.Fatalf("stream decoder spun on a %d byte delivery", len(data))
		}
	} else {
		d, derr = asserts.Decode(data)
	}
	if derr != nil {
		c.Logf("deliver(%s) %s %s via %s -> undecodable", why, e.label, how, route)
		if how == "intact" {
			// (C20's business, but an intact delivery that cannot be read
			// makes this run meaningless)
			if c.Active("C18") {
				c.Violate("C18/valid-refused", "intact %s does not decode: %v", e.label, derr)
			}
		} else {
			w.rejected++
			c.Count("rejected-at-decode")
		}
		return
	}
	// what was delivered, fixed at the moment of decoding
	dl := &verifDelivered{d: d, how: how}
	dl.exact, dl.same = w.led.lookup(d)
	dcontent, dsig := d.Signature()
	dl.sigDec, _ = verifDecodeSig(dsig)
	dl.bk = verifBytesKey(dcontent, dl.sigDec)

	// the caller reuses its read buffer: the very slice that was decoded
	// is overwritten before (or after) the database sees the assertion
	reuse, reuseAfter := "", false
	if w.faults && why != "setup" {
		switch c.Draw("buffer-reuse", 6) {
		case 1: // the genuine encoding the delivery was derived from
			copy(data, e.enc)
			reuse = "genuine-twin"
		case 2: // some other signed assertion
			o := w.led.list[c.Draw("reuse-with", len(w.led.list))]
			copy(data, o.enc)
			reuse = "other-assertion"
		case 3:
			for i := range data {
				data[i] = 'X'
			}
			reuse = "garbage"
		case 4:
			reuseAfter = true
		}
		if reuse != "" {
			w.fault("read-buffer-reused-before-check")
		}
	}

	modeName := []string{"add", "check", "check+add"}[mode]
	targets := w.pickTargets(why)
	var results []string
	for _, t := range targets {
		db, v := t.db(), t.v
		if mode != 0 {
			err := db.Check(d)
			w.judge(v, dl, "check", err)
			results = append(results, v.name+".check="+verifErrClass(err))
		}
		if mode != 1 {
			err := db.Add(d)
			w.judge(v, dl, "add", err)
			results = append(results, v.name+".add="+verifErrClass(err))
		}
	}
	if reuseAfter {
		copy(data, bytes.Repeat([]byte("Y"), len(data)))
		reuse = "garbage-after-the-calls"
		w.fault("read-buffer-reused-after-add")
	}
	if reuse != "" {
		how += " buffer-reused(" + reuse + ")"
	}
	c.Logf("deliver(%s) %s %s via %s %s at T0+%s -> %s", why, e.label, how, route, modeName, verifOff(w.now()), strings.Join(results, " "))
}

// verifDelivered is one decoded delivery with the oracle's view of its
// bytes, taken when it was decoded.
type verifDelivered struct {
	d           asserts.Assertion
	how         string
	exact  *verifSigned
	same   []*verifSigned
	sigDec []byte
	bk          string
}

// pickTargets: which databases a delivery goes to and in which order.
func (w *verifC18) pickTargets(why string) []verifTarget {
	c := w.c
	if len(w.stacked) == 0 {
		return w.targets
	}
	base, stacked := w.targets[:2], w.targets[2:]
	if why == "setup" {
		return base
	}
	scope := c.Draw("scope", 4)
	if w.forceAll {
		scope = []int{0, 3}[c.Draw("scope-order", 2)]
	}
	if why == "reissue" && scope == 3 {
		scope = 1
	}
	switch scope {
	case 1:
		w.c.Count("probe:delivered-to-stacked-database-only")
		return stacked
	case 2:
		return base
	case 3:
		return append(append([]verifTarget{}, stacked...), base...)
	}
	return w.targets
}

// verifErrClass keeps logs independent of scratch paths.
func verifErrClass(err error) string {
	if err == nil {
		return "ok"
	}
	s := err.Error()
	if i := strings.Index(s, "/"); i >= 0 && strings.Contains(s, "verifasserts") {
		s = s[:i] + "<path>"
	}
	if len(s) > 90 {
		s = s[:90] + "..."
	}
	return "refused(" + s + ")"
}

func verifAdmits(cons []verifCons, e *verifSigned) bool {
	if len(cons) == 0 {
		return true
	}
	for _, alt := range cons {
		if alt.typ != e.typ.Name {
			continue
		}
		ok := true
		for h, re := range alt.headers {
			val, isStr := e.a.Header(h).(string)
			if !isStr || !regexp.MustCompile("^(?:" + re + ")$").MatchString(val) {
				ok = false
			}
		}
		if ok {
			return true
		}
	}
	return false
}

func verifValidAt(kv *verifKeyView, t time.Time) bool {
	if t.Before(kv.since) {
		return false
	}
	if !kv.until.IsZero() && !t.Before(kv.until) {
		return false
	}
	return true
}

// invalidity says why the statement forbids accepting authentic e in the
// database described by v right now ("" if it does not).
func (w *verifC18) invalidity(v *verifView, e *verifSigned) string {
	kv := v.key(e.key.id)
	if kv == nil {
		return "unknown-key"
	}
	if kv.account != e.authority {
		return "key-of-another-authority"
	}
	now := w.now()
	if !verifValidAt(kv, now) {
		if now.Before(kv.since) {
			return "key-not-yet-valid"
		}
		return "key-expired"
	}
	if e.hasTS && !verifValidAt(kv, e.ts) {
		return "timestamp-outside-key-validity"
	}
	if !verifAdmits(kv.cons, e) {
		return "key-constraints-do-not-admit"
	}
	return ""
}

func (w *verifC18) judge(v *verifView, dl *verifDelivered, op string, err error) {
	c := w.c
	accepted := err == nil
	exact, same, how, dec, bk := dl.exact, dl.same, dl.how, dl.sigDec, dl.bk
	if exact == nil {
		// not something the simulator signed
		if !accepted {
			w.rejected++
			c.Count("probe:altered-rejected")
			return
		}
		w.accepted++
		for _, same := range same {
			framing, where := verifFramingOnly(same.sigDec, dec)
			if framing {
				c.Count("probe:reframed-signature-accepted")
				c.Count("accepted-reframing:" + strings.SplitN(how, "@", 2)[0])
				if op == "add" {
					v.framed[bk] = true
					w.applyAccepted(v, same)
				}
				if c.Active("C18") {
					c.Violate(verifF4Class, "%s: %s accepted %s (%s): the signed content is authentic and every hashed signature field and the signature value are those signed, but the decoded signature differs in %s", v.name, op, same.label, how, where)
				}
				return
			}
		}
		if c.Active("C18") {
			what := "content never signed"
			if len(same) > 0 {
				what = "content of " + same[0].label + " with a different signature"
			}
			c.Violate("C18/altered-accepted", "%s: %s accepted a delivery that was altered in transit (%s; %s)", v.name, op, how, what)
		}
		return
	}
	e := exact
	reason := w.invalidity(v, e)
	vk := v.name + "|" + bk
	if prev, ok := w.lastVerdict[vk]; ok && op == "check" {
		if prev && !accepted && reason != "" {
			c.Count("probe:same-assertion-accepted-then-rejected")
		}
		if !prev && accepted {
			c.Count("probe:same-assertion-rejected-then-accepted")
		}
	}
	if op == "check" {
		w.lastVerdict[vk] = accepted
	}
	if reason != "" {
		w.fault("delivery:" + reason)
		if kv := v.key(e.key.id); kv != nil {
			now := w.now()
			if now.Equal(kv.until) {
				c.Count("probe:checked-exactly-at-until")
			}
			if e.hasTS && e.ts.Equal(kv.until) {
				c.Count("probe:timestamp-exactly-at-until")
			}
		}
	}
	if accepted {
		w.accepted++
		if reason != "" {
			if c.Active("C18") {
				kv := v.key(e.key.id)
				win := "none held"
				if kv != nil {
					win = fmt.Sprintf("key of %s valid [T0+%s, T0+%s) constraints=%d", kv.account, verifOff(kv.since), verifOff(kv.until), len(kv.cons))
				}
				c.Violate("C18/"+reason+"-accepted", "%s: %s accepted %s at T0+%s (%s)", v.name, op, e.label, verifOff(w.now()), win)
			}
			return
		}
		c.Count("probe:valid-accepted")
		if kv := v.key(e.key.id); kv != nil {
			if w.now().Equal(kv.since) {
				c.Count("probe:accepted-exactly-at-since")
			}
			if len(kv.cons) > 0 {
				c.Count("probe:accepted-under-constraints")
			}
		}
		if op == "add" {
			w.applyAccepted(v, e)
		}
		return
	}
	w.rejected++
	if reason != "" {
		c.Count("probe:invalid-rejected")
		return
	}
	// refused although nothing in the statement forbids it: decide whether
	// something outside C18 explains it
	if !w.expectAccept(v, e, op) {
		c.Count("refused-for-other-reasons")
		return
	}
	if c.Active("C18") {
		c.Violate("C18/valid-refused", "%s: %s refused %s at T0+%s although its key belongs to %s, is valid now%s and admits it: %v", v.name, op, e.label, verifOff(w.now()), e.authority, map[bool]string{true: " and at the timestamp", false: ""}[e.hasTS], err)
	}
}

// expectAccept: the remaining, non-C18 reasons a database may refuse an
// authentic, validly signed assertion (known from the simulator's own
// deliveries): missing prerequisites of the cross checks, revision order,
// clashes with built-in assertions.
func (w *verifC18) expectAccept(v *verifView, e *verifSigned, op string) bool {
	switch e.typ {
	case asserts.AccountType:
		if e.authority != "canonical" {
			return false
		}
	case asserts.AccountKeyType:
		if e.authority != "canonical" || !v.hasAccount(e.akAccount) {
			return false
		}
	}
	if op == "add" {
		if v.isBuiltin(e.id) {
			return false
		}
		if cur, have := v.maxRev(e.id); have && e.rev <= cur {
			return false
		}
	}
	return true
}

func (w *verifC18) applyAccepted(v *verifView, e *verifSigned) {
	v.cur[e.id] = e.rev
	if e.akKey != nil {
		old := v.key(e.akKey.id)
		if v.base != nil {
			w.c.Count("probe:account-key-revision-only-in-stacked-database")
		}
		v.keys[e.akKey.id] = &verifKeyView{since: e.akSince, until: e.akUntil, cons: e.akCons, account: e.akAccount}
		if old != nil && (!old.since.Equal(e.akSince) || !old.until.Equal(e.akUntil)) {
			w.c.Count("probe:account-key-revision-changed-window")
		}
	}
	if e.acctID != "" {
		v.accounts[e.acctID] = true
	}
}

// findStored looks a signed assertion up again: whatever a database hands
// out must be bytes the simulator signed.
func (w *verifC18) findStored() {
	c := w.c
	e := w.led.list[c.Draw("find", len(w.led.list))]
	for _, t := range w.targets {
		v := t.v
		got, err := e.a.Ref().Resolve(t.db().Find)
		if err != nil {
			c.Logf("find %s in %s -> %s", e.id, v.name, verifErrClass(err))
			continue
		}
		exact, same := w.led.lookup(got)
		c.Logf("find %s in %s -> rev %d", e.id, v.name, got.Revision())
		c.Count("probe:find-after-deliveries")
		if exact != nil {
			if _, have := v.maxRev(e.id); !have && !v.isBuiltin(e.id) {
				if c.Active("C18") {
					c.Violate("C18/stored-but-never-accepted", "%s: Find returns %s which no Add accepted", v.name, exact.label)
				}
			}
			continue
		}
		content, sig := got.Signature()
		dec, _ := verifDecodeSig(sig)
		if v.wasFramed(verifBytesKey(content, dec)) && len(same) > 0 {
			if c.Active("C18") {
				c.Violate(verifF4Class, "%s: Find returns the re-framed encoding of %s that Add accepted earlier", v.name, same[0].label)
			}
			continue
		}
		if c.Active("C18") {
			c.Violate("C18/stored-never-signed", "%s: Find(%s) returns bytes the simulator never signed", v.name, e.id)
		}
	}
}


var verifProbesC18 = []string{"probe:account-key-reissued-in-a-lower-format", "probe:accepted-exactly-at-since", "probe:accepted-under-constraints", "probe:account-key-revision-changed-window", "probe:altered-rejected", "probe:checked-exactly-at-until", "probe:clock-lands-exactly-on-boundary", "probe:find-after-deliveries", "probe:invalid-rejected", "probe:reframed-signature-accepted", "probe:same-assertion-accepted-then-rejected", "probe:same-assertion-rejected-then-accepted", "probe:timestamp-exactly-at-until", "probe:valid-accepted"}
