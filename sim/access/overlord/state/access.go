//go:build verif

package state

import (
	"sync/atomic"
)

// Accessors used by the simulator (added through the build overlay; not part
// of the tree).

// VerifLockHeld reports whether some goroutine currently holds the state
// lock. A simulated I/O call uses it to decide whether it may park: a
// goroutine must never be parked while it holds the state lock.
func (s *State) VerifLockHeld() bool {
	return atomic.LoadInt32(&s.muC) > 0
}

// VerifWrapHandlers replaces every registered handler (do, undo, cleanup
// and optional ones) by wrap(kind, which, handler), which is one of "do",
// "undo", "cleanup".
func (r *TaskRunner) VerifWrapHandlers(wrap func(kind, which string, h HandlerFunc) HandlerFunc) {
	r.mu.Lock()
	defer r.mu.Unlock()
	for kind, hp := range r.handlers {
		if hp.do != nil {
			hp.do = wrap(kind, "do", hp.do)
		}
		if hp.undo != nil {
			hp.undo = wrap(kind, "undo", hp.undo)
		}
		r.handlers[kind] = hp
	}
	for i := range r.optional {
		k := "optional"
		if r.optional[i].do != nil {
			r.optional[i].do = wrap(k, "do", r.optional[i].do)
		}
		if r.optional[i].undo != nil {
			r.optional[i].undo = wrap(k, "undo", r.optional[i].undo)
		}
	}
	for kind, h := range r.cleanups {
		r.cleanups[kind] = wrap(kind, "cleanup", h)
	}
}

// VerifKinds lists the registered task kinds.
func (r *TaskRunner) VerifKinds() []string {
	r.mu.Lock()
	defer r.mu.Unlock()
	var ks []string
	for k := range r.handlers {
		ks = append(ks, k)
	}
	return ks
}

// VerifBackend returns the backend the state checkpoints to.
func (s *State) VerifBackend() Backend { return s.backend }

// VerifSetBackend replaces the backend (to record what reaches the disk).
// Must be called with the state lock held.
func (s *State) VerifSetBackend(b Backend) { s.backend = b }
