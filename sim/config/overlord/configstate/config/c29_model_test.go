package config_test

// Reference model for C29: JSON documents decoded with UseNumber
// (map[string]interface{}, []interface{}, json.Number, string, bool), paths
// are []string{snap, key1, key2, ...}; the "document" is {snap: {options}}.

import (
	"bytes"
	"encoding/json"
	"sort"
	"strings"
)

type verifDoc = map[string]interface{}

// verifWrite is one successful Set of a transaction (val == nil: unset).
type verifWrite struct {
	path []string
	val  interface{}
}

func verifDecode(b []byte) (interface{}, error) {
	d := json.NewDecoder(bytes.NewReader(b))
	d.UseNumber()
	var v interface{}
	err := d.Decode(&v)
	return v, err
}

// verifCanon is the canonical text of a value (encoding/json sorts map keys;
// json.Number is written literally).
func verifCanon(v interface{}) string {
	b, err := json.Marshal(v)
	if err != nil {
		return "!" + err.Error()
	}
	// encoding/json escapes <,>,& and leaves other text alone; both sides of
	// every comparison went through the same encoder after a decode, so the
	// text is canonical
	return string(b)
}

func verifCopy(v interface{}) interface{} {
	switch x := v.(type) {
	case map[string]interface{}:
		m := make(map[string]interface{}, len(x))
		for k, e := range x {
			m[k] = verifCopy(e)
		}
		return m
	case []interface{}:
		l := make([]interface{}, len(x))
		for i, e := range x {
			l[i] = verifCopy(e)
		}
		return l
	}
	return v
}

func verifCopyDoc(d verifDoc) verifDoc { return verifCopy(d).(map[string]interface{}) }

// verifPurge removes null members of (nested) maps: "null writes remove
// options". Lists are left alone (the generator never puts nulls in lists).
func verifPurge(v interface{}) interface{} {
	if m, ok := v.(map[string]interface{}); ok {
		for k, x := range m {
			if x == nil {
				delete(m, k)
			} else {
				m[k] = verifPurge(x)
			}
		}
	}
	return v
}

func verifSortedKeys(m map[string]interface{}) []string {
	ks := make([]string, 0, len(m))
	for k := range m {
		ks = append(ks, k)
	}
	sort.Strings(ks)
	return ks
}

// verifGetAt looks path up: found, or absent, or "nonmap" when the path
// leads through a value that is not a map.
func verifGetAt(doc verifDoc, path []string) (val interface{}, found, nonmap bool) {
	var cur interface{} = doc
	for _, k := range path {
		m, ok := cur.(map[string]interface{})
		if !ok {
			return nil, false, true
		}
		cur, ok = m[k]
		if !ok {
			return nil, false, false
		}
	}
	return cur, true, false
}

// verifApply merges one written option into doc. Writing below a value that
// is not a map replaces that value by a map (the only way to merge the
// option in). through reports that this happened. Removing an option below
// a value that is not a map has nothing to remove; what happens to that
// value is not determined by the statement: its path is returned as taint
// and left out of document comparisons.
func verifApply(doc verifDoc, path []string, val interface{}) (through bool, taint []string) {
	cur := doc
	for i, k := range path {
		if i == len(path)-1 {
			if val == nil {
				delete(cur, k)
			} else {
				cur[k] = verifPurge(verifCopy(val))
			}
			return through, nil
		}
		nxt, present := cur[k]
		m, ok := nxt.(map[string]interface{})
		if !ok {
			if val == nil {
				if present {
					return through, append([]string(nil), path[:i+1]...)
				}
				return through, nil
			}
			if present {
				through = true
			}
			m = map[string]interface{}{}
			cur[k] = m
		}
		cur = m
	}
	return through, nil
}

// verifRemoveAt deletes path from doc if present (used to leave tainted
// locations out of comparisons).
func verifRemoveAt(doc verifDoc, path []string) {
	cur := doc
	for i, k := range path {
		if i == len(path)-1 {
			delete(cur, k)
			return
		}
		m, ok := cur[k].(map[string]interface{})
		if !ok {
			return
		}
		cur = m
	}
}

func verifRelated(p, q []string) bool {
	n := len(p)
	if len(q) < n {
		n = len(q)
	}
	for i := 0; i < n; i++ {
		if p[i] != q[i] {
			return false
		}
	}
	return true
}

func verifIsPrefix(p, q []string) bool { return len(p) <= len(q) && verifRelated(p, q) }

func verifLastRelated(writes []verifWrite, p []string) int {
	last := -1
	for i, w := range writes {
		if verifRelated(w.path, p) {
			last = i
		}
	}
	return last
}

// verifNorm drops empty maps (recursively): the statement does not say
// whether removing the last option below a path, or removing an option below
// a path that does not exist, leaves empty maps behind.
func verifNorm(v interface{}, present bool) (interface{}, bool) {
	if !present {
		return nil, false
	}
	m, ok := v.(map[string]interface{})
	if !ok {
		return v, true
	}
	out := map[string]interface{}{}
	for k, e := range m {
		if ne, ok := verifNorm(e, true); ok {
			out[k] = ne
		}
	}
	if len(out) == 0 {
		return nil, false
	}
	return out, true
}

// verifDiff returns the first path (sorted key order) at which two
// normalised values differ.
func verifDiff(x interface{}, xok bool, y interface{}, yok bool, at []string) ([]string, bool) {
	if !xok && !yok {
		return nil, false
	}
	xm, xIsMap := x.(map[string]interface{})
	ym, yIsMap := y.(map[string]interface{})
	if xok != yok {
		// one side has nothing here: name the first option of the other side
		// rather than the common parent
		switch {
		case xok && xIsMap:
			ym, yIsMap = map[string]interface{}{}, true
		case yok && yIsMap:
			xm, xIsMap = map[string]interface{}{}, true
		default:
			return append([]string(nil), at...), true
		}
	}
	if xIsMap && yIsMap {
		keys := map[string]interface{}{}
		for k := range xm {
			keys[k] = nil
		}
		for k := range ym {
			keys[k] = nil
		}
		for _, k := range verifSortedKeys(keys) {
			xv, xo := xm[k]
			yv, yo := ym[k]
			if p, d := verifDiff(xv, xo, yv, yo, append(at, k)); d {
				return p, true
			}
		}
		return nil, false
	}
	if verifCanon(x) != verifCanon(y) {
		return append([]string(nil), at...), true
	}
	return nil, false
}

// verifExpect is the per-path obligation of the statement for reading p
// given the committed document snap the reader started from and its ordered
// successful writes. determined=false: the last related write is below p
// (p is a composite of older and newer parts; judged only by the
// document-level comparison).
func verifExpect(snap verifDoc, writes []verifWrite, p []string) (val interface{}, found, nonmap, determined bool, last int) {
	last = verifLastRelated(writes, p)
	if last < 0 {
		v, f, nm := verifGetAt(snap, p)
		return v, f, nm, true, last
	}
	w := writes[last]
	if !verifIsPrefix(w.path, p) {
		return nil, false, false, false, last
	}
	if w.val == nil {
		// the option, or one above it, was removed
		return nil, false, false, true, last
	}
	root := verifDoc{"x": verifPurge(verifCopy(w.val))}
	v, f, nm := verifGetAt(root, append([]string{"x"}, p[len(w.path):]...))
	return v, f, nm, true, last
}

func verifPathStr(p []string) string {
	if len(p) == 0 {
		return "<all>"
	}
	if len(p) == 1 {
		return p[0] + ":<root>"
	}
	return p[0] + ":" + strings.Join(p[1:], ".")
}

func verifShow(v interface{}, found bool) string {
	if !found {
		return "<absent>"
	}
	return verifCanon(v)
}
