package config_test

// C29: config transactions are isolated, read their own writes and never lose
// updates; per-revision snapshots restore exactly what was saved.
//
// One run = one seeded interleaving of the operations of 2-4 logical clients
// (each owning one real config.Transaction) and of "outside" writers
// (revision save/restore/discard, SetSnapConfig/DeleteSnapConfig, restart)
// on one real state.State. Every operation is atomic (snapd calls this API
// with the state lock held), so a schedule is an interleaving of operations
// and the reference model is stepped operation by operation.

import (
	"bytes"
	"encoding/json"
	"errors"
	"fmt"
	"sort"
	"strconv"
	"strings"
	"time"

	"github.com/snapcore/snapd/internal/verifsim"
	"github.com/snapcore/snapd/overlord/configstate/config"
	"github.com/snapcore/snapd/overlord/state"
	"github.com/snapcore/snapd/snap"
)

type verifCfgBackend struct {
	c        *verifsim.Ctx
	last     []byte
	failNext int
	saves    int
}

func (b *verifCfgBackend) Checkpoint(d []byte) error {
	if b.failNext > 0 {
		b.failNext--
		b.c.Count("fault:checkpoint-error")
		return errors.New("verif: injected checkpoint failure")
	}
	b.last = append([]byte(nil), d...)
	b.saves++
	return nil
}
func (b *verifCfgBackend) EnsureBefore(time.Duration) {}

// verifClient is one logical client with its transaction and the reference
// bookkeeping for it.
type verifClient struct {
	id     int
	tr     *config.Transaction
	snap   verifDoc     // committed document the transaction started from
	view   verifDoc     // snap with the successful writes merged in, in order
	writes []verifWrite // successful writes since the snapshot was taken
	taints [][]string
	gen    int // committed generation of snap
}

type verifRevEntry struct {
	doc         interface{}
	determinate bool
}

type verifC29 struct {
	c       *verifsim.Ctx
	st      *state.State
	be      *verifCfgBackend
	snaps   []string
	clients []*verifClient
	// committed is the reference for the committed configuration: adopted
	// from the real state after every committing operation, after that
	// operation has been judged against the previous reference.
	committed verifDoc
	sig       string // canonical text of config + revision-config in the state
	gen       int
	revs      map[string]map[string]*verifRevEntry // snap -> revision -> what was saved
	known     [][]string                           // paths written so far (path generation bias)
	faults    bool
}

var verifKeys = []string{"a", "b", "c"}

// ---- reading the real system -------------------------------------------

// verifStateEntry returns the canonical text of a top-level state entry
// ("" if absent). State lock must be held.
func (e *verifC29) stateEntry(key string) (interface{}, string) {
	var raw json.RawMessage
	err := e.st.Get(key, &raw)
	if errors.Is(err, state.ErrNoState) {
		return nil, ""
	}
	if err != nil {
		e.c.Fatalf("cannot read state entry %q: %v", key, err)
	}
	v, err := verifDecode(raw)
	if err != nil {
		e.c.Fatalf("cannot decode state entry %q: %v", key, err)
	}
	return v, verifCanon(v)
}

// readCommitted reads the committed configuration document and the
// signature (config + revision-config) from the state. Lock held.
func (e *verifC29) readCommitted() (verifDoc, string) {
	v, s1 := e.stateEntry("config")
	_, s2 := e.stateEntry("revision-config")
	doc, _ := v.(map[string]interface{})
	if doc == nil {
		doc = verifDoc{}
	}
	for k, x := range doc {
		if x == nil {
			delete(doc, k)
		}
	}
	return doc, s1 + "|" + s2
}

type verifOutcome struct {
	val    interface{}
	found  bool
	absent bool // *NoOptionError (or GetMaybe leaving the result untouched)
	err    error
}

func (o verifOutcome) String() string {
	switch {
	case o.found:
		return verifCanon(o.val)
	case o.absent:
		return "<absent>"
	}
	return "<error: " + o.err.Error() + ">"
}

const (
	verifModeGet = iota
	verifModeGetMaybe
	verifModePristine
	verifModePristineMaybe
)

var verifModeNames = []string{"get", "get-maybe", "get-pristine", "get-pristine-maybe"}

func verifRealGet(tr *config.Transaction, p []string, mode int) verifOutcome {
	key := strings.Join(p[1:], ".")
	var got interface{}
	var err error
	switch mode {
	case verifModeGet:
		err = tr.Get(p[0], key, &got)
	case verifModeGetMaybe:
		err = tr.GetMaybe(p[0], key, &got)
		if err == nil && got == nil {
			return verifOutcome{absent: true}
		}
	case verifModePristine:
		err = tr.GetPristine(p[0], key, &got)
	case verifModePristineMaybe:
		err = tr.GetPristineMaybe(p[0], key, &got)
		if err == nil && got == nil {
			return verifOutcome{absent: true}
		}
	}
	if err != nil {
		if config.IsNoOption(err) {
			return verifOutcome{absent: true, err: err}
		}
		return verifOutcome{err: err}
	}
	return verifOutcome{val: got, found: true}
}

// ---- comparisons -----------------------------------------------------------

// exact compares a real outcome against a determined expectation.
func verifExactOK(o verifOutcome, want interface{}, found, nonmap bool, root bool) bool {
	switch {
	case nonmap:
		// the path leads through a value that is not a map: there is no such
		// option; any refusal is accepted, a value is not
		return !o.found
	case !found:
		return o.absent
	}
	if root {
		// the whole configuration of a snap: "no configuration" and the
		// empty document are the same thing
		if m, ok := want.(map[string]interface{}); ok && len(m) == 0 && o.absent {
			return true
		}
	}
	return o.found && verifCanon(o.val) == verifCanon(want)
}

// modelDiff compares a real outcome against the model document at p modulo
// empty maps and tainted locations; returns the first differing path.
func verifModelDiff(o verifOutcome, model verifDoc, taints [][]string, p []string) (diff []string, bad bool, skipped bool) {
	for _, t := range taints {
		if verifIsPrefix(t, p) {
			return nil, false, true
		}
	}
	want, found, nonmap := verifGetAt(model, p)
	if nonmap {
		if o.found {
			return append([]string(nil), p...), true, false
		}
		return nil, false, false
	}
	if !o.found && !o.absent {
		// an error where the model has a value or nothing
		return append([]string(nil), p...), true, false
	}
	var got interface{}
	if o.found {
		got = verifCopy(o.val)
	}
	wantC := verifCopy(want)
	if len(taints) > 0 {
		for _, t := range taints {
			if verifIsPrefix(p, t) {
				rel := t[len(p):]
				if gm, ok := got.(map[string]interface{}); ok {
					verifRemoveAt(gm, rel)
				}
				if wm, ok := wantC.(map[string]interface{}); ok {
					verifRemoveAt(wm, rel)
				}
			}
		}
	}
	gn, gok := verifNorm(got, o.found)
	wn, wok := verifNorm(wantC, found)
	d, isDiff := verifDiff(gn, gok, wn, wok, append([]string(nil), p...))
	return d, isDiff, false
}

func (e *verifC29) related(writes []verifWrite, p []string) bool {
	return verifLastRelated(writes, p) >= 0
}

// ---- clients ---------------------------------------------------------------

func (e *verifC29) newTx(cl *verifClient) {
	cl.tr = config.NewTransaction(e.st)
	cl.snap = verifCopyDoc(e.committed)
	cl.view = verifCopyDoc(e.committed)
	cl.writes = nil
	cl.taints = nil
	cl.gen = e.gen
}

// afterOutsideWrite adopts the real committed state as the new reference
// after an operation that legitimately changes it.
func (e *verifC29) adopt() {
	doc, sig := e.readCommitted()
	if sig != e.sig {
		e.gen++
	}
	e.committed, e.sig = doc, sig
}

// checkNoLeak: an operation that is not a commit must not change what is
// committed ("nothing written is visible elsewhere until commit").
func (e *verifC29) checkNoLeak(what string) {
	_, sig := e.readCommitted()
	if sig != e.sig {
		e.c.Violate("C29/uncommitted-visible", "%s changed the committed state without a commit: %s -> %s", what, e.sig, sig)
		e.sig = sig
		e.committed, _ = e.readCommitted()
	}
}

func (e *verifC29) remember(p []string) {
	if len(e.known) < 24 {
		e.known = append(e.known, p)
	} else {
		e.known[e.c.Draw("known-slot", len(e.known))] = p
	}
}

// ---- generators ------------------------------------------------------------

func (e *verifC29) genKey() string { return verifKeys[e.c.Draw("key", len(verifKeys))] }

func (e *verifC29) genPath(minLen int) []string {
	c := e.c
	mode := c.Draw("path-mode", 4)
	if mode > 0 && len(e.known) > 0 {
		base := e.known[c.Draw("known", len(e.known))]
		switch mode {
		case 1:
			return append([]string(nil), base...)
		case 2:
			n := minLen + c.Draw("prefix", len(base)-minLen+1)
			if n > len(base) {
				n = len(base)
			}
			return append([]string(nil), base[:n]...)
		default:
			p := append([]string(nil), base...)
			next := 1 + c.Draw("ext", 2)
			for i := 0; i < next && len(p) < 5; i++ {
				p = append(p, e.genKey())
			}
			return p
		}
	}
	p := []string{e.snaps[c.Draw("snap", len(e.snaps))]}
	n := 1 + c.Draw("depth", 4)
	for i := 0; i < n; i++ {
		p = append(p, e.genKey())
	}
	return p
}

func (e *verifC29) genScalar() interface{} {
	c := e.c
	switch c.Draw("scalar", 7) {
	case 0:
		return json.Number(strconv.Itoa(c.Draw("int", 50)))
	case 1:
		return "s" + strconv.Itoa(c.Draw("str", 10))
	case 2:
		return c.Draw("bool", 2) == 1
	case 3:
		return json.Number("9007199254740993")
	case 4:
		return json.Number("1.5")
	case 5:
		return "<&>\"é"
	default:
		n := c.Draw("list-n", 3)
		l := []interface{}{}
		for i := 0; i < n; i++ {
			l = append(l, json.Number(strconv.Itoa(c.Draw("int", 50))))
		}
		return l
	}
}

// genVal never returns nil at the top (unset is its own operation); maps may
// contain nulls when withNulls.
func (e *verifC29) genVal(depth int, withNulls bool) interface{} {
	c := e.c
	if depth >= 3 || c.Draw("val-kind", 3) == 0 {
		return e.genScalar()
	}
	m := map[string]interface{}{}
	n := c.Draw("map-n", 4)
	for i := 0; i < n; i++ {
		k := e.genKey()
		if withNulls && c.Draw("null?", 4) == 3 {
			m[k] = nil
		} else {
			m[k] = e.genVal(depth+1, withNulls)
		}
	}
	return m
}

// ---- operations ------------------------------------------------------------

func (e *verifC29) opRead(cl *verifClient, p []string, mode int) {
	c := e.c
	o := verifRealGet(cl.tr, p, mode)
	c.Count("reads")
	if o.found {
		c.Count("reads-returning-a-value")
	}
	if mode == verifModePristine || mode == verifModePristineMaybe {
		want, found, nonmap := verifGetAt(cl.snap, p)
		c.Logf("c%d %s %s -> %s (snapshot %s)", cl.id, verifModeNames[mode], verifPathStr(p), o, verifShow(want, found))
		if !verifExactOK(o, want, found, nonmap, len(p) == 1) {
			c.Violate("C29/isolation-pristine", "client %d %s %s returned %s but the configuration committed when the transaction started had %s (nonmap=%v)", cl.id, verifModeNames[mode], verifPathStr(p), o, verifShow(want, found), nonmap)
		}
		return
	}
	want, found, nonmap, determined, last := verifExpect(cl.snap, cl.writes, p)
	c.Logf("c%d %s %s -> %s", cl.id, verifModeNames[mode], verifPathStr(p), o)
	// probes: was this read discriminating?
	if last < 0 {
		lv, lf, _ := verifGetAt(e.committed, p)
		if verifShow(lv, lf) != verifShow(want, found) {
			c.Count("probe:isolated-read-differs-from-latest-committed")
		}
	} else if determined {
		w := cl.writes[last]
		switch {
		case w.val == nil:
			c.Count("probe:read-of-removed-option")
		case len(w.path) < len(p):
			c.Count("probe:read-below-own-written-map")
		default:
			c.Count("probe:read-own-write")
		}
	} else {
		c.Count("probe:composite-read-over-own-nested-writes")
	}
	// (A) exact per-path obligation
	if determined && len(p) >= 2 {
		c.Count("obligations-exact")
		if !verifExactOK(o, want, found, nonmap, false) {
			cls := "C29/read-own-write"
			switch {
			case last < 0:
				cls = "C29/isolation"
			case !found && !nonmap && o.found:
				cls = "C29/null-not-removed"
			}
			c.Violate(cls, "client %d %s %s returned %s, expected %s (nonmap=%v; last related write #%d of %d; snapshot generation %d, committed generation %d)", cl.id, verifModeNames[mode], verifPathStr(p), o, verifShow(want, found), nonmap, last, len(cl.writes), cl.gen, e.gen)
			return
		}
	}
	// (B) whole-value comparison against the merged view, modulo empty maps
	d, bad, skipped := verifModelDiff(o, cl.view, cl.taints, p)
	if skipped {
		return
	}
	c.Count("obligations-merged-view")
	if bad {
		mv, mf, _ := verifGetAt(cl.view, d)
		cls := "C29/read-own-write"
		if !e.related(cl.writes, d) {
			cls = "C29/isolation"
		} else if !mf {
			cls = "C29/null-not-removed"
		}
		c.Violate(cls, "client %d %s %s returned %s; differs at %s from snapshot+own writes, which has %s there", cl.id, verifModeNames[mode], verifPathStr(p), o, verifPathStr(d), verifShow(mv, mf))
	}
}

// cause tells whether a refusal of a write to p is explained by something
// the statement's quantifier mentions: a value that is not a map on the way
// in the snapshot or in the transaction's own view.
func (e *verifC29) refusalHasCause(cl *verifClient, p []string) bool {
	for n := 2; n < len(p); n++ {
		for _, d := range []verifDoc{cl.snap, cl.view} {
			v, found, nonmap := verifGetAt(d, p[:n])
			if nonmap {
				return true
			}
			if found {
				if _, ok := v.(map[string]interface{}); !ok {
					return true
				}
			}
		}
	}
	return false
}

func (e *verifC29) recordWrite(cl *verifClient, p []string, val interface{}) {
	cl.writes = append(cl.writes, verifWrite{path: p, val: verifCopy(val)})
	_, taint := verifApply(cl.view, p, val)
	if taint != nil {
		cl.taints = append(cl.taints, taint)
	}
}

func (e *verifC29) opSet(cl *verifClient, p []string, val interface{}) {
	c := e.c
	key := strings.Join(p[1:], ".")
	// re-set below something removed earlier in the same transaction?
	if val != nil {
		if last := verifLastRelated(cl.writes, p); last >= 0 && cl.writes[last].val == nil && verifIsPrefix(cl.writes[last].path, p) {
			c.Count("probe:set-after-unset-in-same-transaction")
		}
	}
	err := cl.tr.Set(p[0], key, val)
	c.Count("writes")
	if err != nil {
		c.Logf("c%d set %s = %s -> refused: %v", cl.id, verifPathStr(p), verifShow(val, val != nil), err)
		c.Count("probe:set-refused-through-non-map")
		if !e.refusalHasCause(cl, p) {
			c.Violate("C29/set-refused-without-cause", "client %d set %s = %s refused (%v) although no value on the way is a non-map, neither in its snapshot nor in its own view", cl.id, verifPathStr(p), verifShow(val, val != nil), err)
		}
		e.checkRefusedWroteNothing(cl, p)
		return
	}
	c.Logf("c%d set %s = %s -> ok", cl.id, verifPathStr(p), verifShow(val, val != nil))
	if val == nil {
		c.Count("unsets")
	}
	e.recordWrite(cl, p, val)
	e.remember(p)
}

// a refused write writes nothing: the whole view of the snap is unchanged.
func (e *verifC29) checkRefusedWroteNothing(cl *verifClient, p []string) {
	root := p[:1]
	o := verifRealGet(cl.tr, root, verifModeGet)
	d, bad, skipped := verifModelDiff(o, cl.view, cl.taints, root)
	if !skipped && bad {
		mv, mf, _ := verifGetAt(cl.view, d)
		if !verifRelated(d, p) {
			// not the doing of the refused write
			cls := "C29/read-own-write"
			if !e.related(cl.writes, d) {
				cls = "C29/isolation"
			} else if !mf {
				cls = "C29/null-not-removed"
			}
			e.c.Violate(cls, "client %d reads %s for %s; differs at %s from snapshot+own writes, which has %s there", cl.id, o, verifPathStr(root), verifPathStr(d), verifShow(mv, mf))
			return
		}
		e.c.Violate("C29/refused-set-wrote", "after the refused write to %s client %d reads %s for the snap; differs at %s from snapshot+accepted writes (%s)", verifPathStr(p), cl.id, o, verifPathStr(d), verifShow(mv, mf))
	}
}

func (e *verifC29) opSetInvalid(cl *verifClient) {
	c := e.c
	bad := []string{"A", "a..b", "-a", "a.b-", "a.B.c", "a b"}[c.Draw("bad-key", 6)]
	sn := e.snaps[c.Draw("snap", len(e.snaps))]
	err := cl.tr.Set(sn, bad, "x")
	c.Logf("c%d set %s:%q -> err=%v", cl.id, sn, bad, err != nil)
	if err == nil {
		// not a statement matter by itself; what matters is that nothing
		// readable changed
		// (the model cannot follow an option it cannot name: start over)
		c.Count("invalid-key-accepted")
		e.newTx(cl)
		return
	}
	c.Count("probe:invalid-key-refused")
	e.checkRefusedWroteNothing(cl, []string{sn, "a"})
}

func (e *verifC29) opPatch(cl *verifClient) {
	c := e.c
	sn := e.snaps[c.Draw("snap", len(e.snaps))]
	n := 2 + c.Draw("patch-n", 2)
	patch := map[string]interface{}{}
	var paths [][]string
	for i := 0; i < n; i++ {
		p := e.genPath(2)
		p[0] = sn
		k := strings.Join(p[1:], ".")
		if _, dup := patch[k]; dup {
			continue
		}
		if c.Draw("patch-null?", 4) == 3 {
			patch[k] = nil
		} else {
			patch[k] = e.genVal(len(p)-1, true)
		}
		paths = append(paths, p)
	}
	// config.Patch applies keys top-down by depth; keys of equal depth are
	// different paths of equal length, hence unrelated, so their order does
	// not matter for the result
	sort.SliceStable(paths, func(i, j int) bool {
		if len(paths[i]) != len(paths[j]) {
			return len(paths[i]) < len(paths[j])
		}
		return strings.Join(paths[i], ".") < strings.Join(paths[j], ".")
	})
	err := config.Patch(cl.tr, sn, patch)
	c.Count("patches")
	var desc []string
	for _, p := range paths {
		v := patch[strings.Join(p[1:], ".")]
		desc = append(desc, verifPathStr(p)+"="+verifShow(v, v != nil))
	}
	if err != nil {
		// which keys were applied before the failing one depends on
		// sort.Slice over map order: the client gives the transaction up,
		// like snapd's callers do on error
		c.Logf("c%d patch %v -> failed, transaction abandoned", cl.id, desc)
		c.Count("probe:patch-failed-transaction-abandoned")
		e.newTx(cl)
		return
	}
	c.Logf("c%d patch %v -> ok", cl.id, desc)
	for _, p := range paths {
		e.recordWrite(cl, p, patch[strings.Join(p[1:], ".")])
		e.remember(p)
	}
}

func (e *verifC29) opCommit(cl *verifClient) {
	c := e.c
	before, beforeSig := e.committed, e.sig
	writes := cl.writes
	stale := cl.gen != e.gen
	changes := cl.tr.Changes()
	cl.tr.Commit()
	after, afterSig := e.readCommitted()
	c.Count("commits")
	c.Logf("c%d commit (%d writes, stale=%v, changes=%v): %s -> %s", cl.id, len(writes), stale, changes, verifCanon(before), verifCanon(after))
	if len(writes) == 0 {
		if afterSig != beforeSig {
			c.Violate("C29/empty-commit-changed-config", "client %d committed a transaction without writes and the committed state changed: %s -> %s", cl.id, beforeSig, afterSig)
			e.adopt()
		}
		if stale {
			c.Count("probe:commit-without-writes-on-stale-snapshot")
		}
		// statement is silent on whether the snapshot moves here; the
		// unchanged tree keeps it (DESIGN.md C29): later reads are judged
		// against whichever of the two the transaction shows consistently
		e.resyncAfterEmptyCommit(cl)
		return
	}
	// merge: the written options, and only those, go into the LATEST
	// committed configuration
	model := verifCopyDoc(before)
	var taints [][]string
	for _, w := range writes {
		through, taint := verifApply(model, w.path, w.val)
		if through {
			c.Count("probe:commit-through-value-that-was-not-a-map")
		}
		if taint != nil {
			taints = append(taints, taint)
			c.Count("probe:unset-below-foreign-non-map(unjudged)")
		}
	}
	if stale {
		c.Count("probe:commit-on-stale-snapshot")
		c.Nontrivial()
	}
	afterC := verifCopyDoc(after)
	modelC := verifCopyDoc(model)
	for _, t := range taints {
		verifRemoveAt(afterC, t)
		verifRemoveAt(modelC, t)
	}
	an, aok := verifNorm(afterC, true)
	mn, mok := verifNorm(modelC, true)
	if verifCanon(after) != verifCanon(model) && verifCanon(an) == verifCanon(mn) {
		c.Count("probe:empty-map-residue-after-commit")
	}
	c.Count("obligations-commit-document")
	if d, bad := verifDiff(an, aok, mn, mok, nil); bad {
		bv, bf, _ := verifGetAt(before, d)
		av, af, _ := verifGetAt(after, d)
		mv, mf, _ := verifGetAt(model, d)
		var cls string
		switch {
		case e.related(writes, d) && !mf && af:
			cls = "C29/null-not-removed-on-commit"
		case e.related(writes, d):
			cls = "C29/commit-not-applied"
		case !bf && af && len(d) > 0 && !verifHas(before, d[0]):
			// the whole configuration of the snap had been deleted
			cls = verifClassResurrect
		case !bf && af:
			cls = "C29/lost-update:removed-option-resurrected"
		default:
			cls = "C29/lost-update:foreign-option-changed"
		}
		c.Violate(cls, "commit of client %d (snapshot generation %d, committed generation %d): at %s the configuration had %s just before the commit, has %s after it, merge of the %d written options gives %s", cl.id, cl.gen, e.gen, verifPathStr(d), verifShow(bv, bf), verifShow(av, af), len(writes), verifShow(mv, mf))
	}
	// exact obligations at the written paths, read through a fresh transaction
	fresh := config.NewTransaction(e.st)
	seen := map[string]bool{}
	for _, w := range writes {
		k := strings.Join(w.path, "\x00")
		if seen[k] {
			continue
		}
		seen[k] = true
		want, found, nonmap, determined, _ := verifExpect(before, writes, w.path)
		if !determined {
			continue
		}
		o := verifRealGet(fresh, w.path, verifModeGet)
		c.Count("obligations-exact")
		if !verifExactOK(o, want, found, nonmap, false) {
			cls := "C29/commit-not-applied"
			if !found && o.found {
				cls = "C29/null-not-removed-on-commit"
			}
			c.Violate(cls, "after the commit of client %d a fresh transaction reads %s at %s, written value gives %s (nonmap=%v)", cl.id, o, verifPathStr(w.path), verifShow(want, found), nonmap)
		}
	}
	// a fresh transaction sees exactly what is committed
	for _, sn := range e.snaps {
		o := verifRealGet(fresh, []string{sn}, verifModeGet)
		want, found := after[sn]
		if !verifExactOK(o, want, found, false, true) {
			c.Violate("C29/fresh-read-differs-from-committed", "fresh transaction reads %s for %s, the state holds %s", o, sn, verifShow(want, found))
		}
	}
	e.gen++
	e.committed, e.sig = after, afterSig
	// the transaction continues from the result of the commit
	cl.snap = verifCopyDoc(after)
	cl.view = verifCopyDoc(after)
	cl.writes, cl.taints = nil, nil
	cl.gen = e.gen
}

// resyncAfterEmptyCommit: after Commit of a transaction without writes the
// statement does not say whether it keeps reading its old snapshot or the
// latest committed configuration. Decide by observation, once, at the
// document level, and hold the transaction to that afterwards.
func (e *verifC29) resyncAfterEmptyCommit(cl *verifClient) {
	if cl.gen == e.gen {
		return
	}
	old, latest := true, true
	for _, sn := range e.snaps {
		o := verifRealGet(cl.tr, []string{sn}, verifModeGet)
		if _, bad, _ := verifModelDiff(o, cl.snap, nil, []string{sn}); bad {
			old = false
		}
		if _, bad, _ := verifModelDiff(o, e.committed, nil, []string{sn}); bad {
			latest = false
		}
	}
	switch {
	case old:
		e.c.Count("probe:empty-commit-kept-old-snapshot")
	case latest:
		e.c.Count("probe:empty-commit-moved-to-latest")
		cl.snap = verifCopyDoc(e.committed)
		cl.view = verifCopyDoc(e.committed)
		cl.gen = e.gen
	default:
		e.c.Violate("C29/isolation", "after a commit without writes client %d reads neither its snapshot (generation %d) nor the latest committed configuration (generation %d)", cl.id, cl.gen, e.gen)
	}
}

const verifClassResurrect = "C29/lost-update:deleted-snap-config-resurrected"

func verifHas(d verifDoc, k string) bool { _, ok := d[k]; return ok }

// stop tells whether the run should end: after any violation except the
// one class after which the reference can simply follow the real state.
func (e *verifC29) stop() bool {
	for _, v := range e.c.Violations {
		if v.Class != verifClassResurrect {
			return true
		}
	}
	return false
}

func (e *verifC29) openTxWithWrites() int {
	n := 0
	for _, cl := range e.clients {
		if len(cl.writes) > 0 {
			n++
		}
	}
	return n
}

// ---- revision snapshots --------------------------------------------------

func (e *verifC29) opRevision() {
	c := e.c
	sn := e.snaps[c.Draw("snap", len(e.snaps))]
	rev := snap.R(1 + c.Draw("rev", 3))
	rs := rev.String()
	if e.revs[sn] == nil {
		e.revs[sn] = map[string]*verifRevEntry{}
	}
	before := e.committed
	beforeCfgSig := verifCanon(before)
	switch c.Draw("rev-op", 4) {
	case 0, 1: // save
		err := config.SaveRevisionConfig(e.st, sn, rev)
		cur, present := before[sn]
		c.Logf("save %s rev %s (config %s) err=%v", sn, rs, verifShow(cur, present), err)
		c.Count("revision-saves")
		if err != nil {
			c.Violate("C29/revision-save-failed", "SaveRevisionConfig(%s,%s): %v", sn, rs, err)
		}
		if present {
			e.revs[sn][rs] = &verifRevEntry{doc: verifCopy(cur), determinate: true}
		} else if ent := e.revs[sn][rs]; ent != nil {
			// saving when the snap has no configuration at all: the
			// statement does not say whether an older snapshot of the same
			// revision survives
			ent.determinate = false
			c.Count("probe:save-without-config-over-older-snapshot(unjudged)")
		}
		after, _ := e.readCommitted()
		if verifCanon(after) != beforeCfgSig {
			c.Violate("C29/revision-save-changed-config", "saving %s rev %s changed the configuration: %s -> %s", sn, rs, beforeCfgSig, verifCanon(after))
		}
		e.adopt()
		e.auditRevisions("save")
	case 2: // restore
		err := config.RestoreRevisionConfig(e.st, sn, rev)
		after, _ := e.readCommitted()
		ent := e.revs[sn][rs]
		c.Logf("restore %s rev %s err=%v: %s -> %s", sn, rs, err, verifCanon(before), verifCanon(after))
		c.Count("revision-restores")
		if err != nil {
			c.Violate("C29/revision-restore-failed", "RestoreRevisionConfig(%s,%s): %v", sn, rs, err)
		}
		for _, other := range e.snaps {
			if other == sn {
				continue
			}
			bv, bf := before[other]
			av, af := after[other]
			if verifShow(bv, bf) != verifShow(av, af) {
				c.Violate("C29/revision-restore-touched-other-snap", "restoring %s rev %s changed %s: %s -> %s", sn, rs, other, verifShow(bv, bf), verifShow(av, af))
			}
		}
		av, af := after[sn]
		switch {
		case ent == nil:
			bv, bf := before[sn]
			if verifShow(bv, bf) != verifShow(av, af) {
				c.Violate("C29/revision-restore-of-unsaved-revision", "nothing is saved for %s rev %s, restoring it changed the configuration: %s -> %s", sn, rs, verifShow(bv, bf), verifShow(av, af))
			}
			c.Count("probe:restore-of-unsaved-or-discarded-revision")
		case !ent.determinate:
		default:
			c.Count("probe:restore-judged")
			if bv, bf := before[sn]; verifShow(bv, bf) != verifCanon(ent.doc) {
				c.Count("probe:restore-changed-config")
			}
			if e.openTxWithWrites() > 0 {
				c.Count("probe:restore-under-open-transactions")
			}
			if !af || verifCanon(av) != verifCanon(ent.doc) {
				c.Violate("C29/revision-restore-mismatch", "restoring %s rev %s gives %s, saved was %s", sn, rs, verifShow(av, af), verifCanon(ent.doc))
			}
		}
		e.adopt()
	default: // discard
		err := config.DiscardRevisionConfig(e.st, sn, rev)
		c.Logf("discard %s rev %s err=%v", sn, rs, err)
		c.Count("revision-discards")
		if err != nil {
			c.Violate("C29/revision-discard-failed", "DiscardRevisionConfig(%s,%s): %v", sn, rs, err)
		}
		if e.revs[sn][rs] != nil {
			c.Count("probe:discard-of-existing-snapshot")
		}
		delete(e.revs[sn], rs)
		after, _ := e.readCommitted()
		if verifCanon(after) != beforeCfgSig {
			c.Violate("C29/revision-discard-changed-config", "discarding %s rev %s changed the configuration: %s -> %s", sn, rs, beforeCfgSig, verifCanon(after))
		}
		e.adopt()
		e.auditRevisions("discard")
	}
}

// auditRevisions restores every (snap, revision) on a scratch copy of the
// state (serialised and read back) and compares with what was saved:
// "discard removes only that revision", "restore exactly what was saved".
func (e *verifC29) auditRevisions(after string) {
	c := e.c
	data, err := json.Marshal(e.st)
	if err != nil {
		c.Fatalf("cannot marshal state: %v", err)
	}
	for _, sn := range e.snaps {
		for r := 1; r <= 3; r++ {
			rs := strconv.Itoa(r)
			ent := e.revs[sn][rs]
			if ent != nil && !ent.determinate {
				continue
			}
			scratch, err := state.ReadState(nil, bytes.NewReader(data))
			if err != nil {
				c.Fatalf("cannot read state back: %v", err)
			}
			scratch.Lock()
			rerr := config.RestoreRevisionConfig(scratch, sn, snap.R(r))
			var raw json.RawMessage
			var got interface{}
			present := false
			if gerr := scratch.Get("config", &raw); gerr == nil {
				v, _ := verifDecode(raw)
				if m, ok := v.(map[string]interface{}); ok {
					got, present = m[sn]
					if got == nil {
						present = false
					}
				}
			}
			scratch.Unlock()
			if rerr != nil {
				c.Violate("C29/revision-restore-failed", "RestoreRevisionConfig(%s,%s) on a copy of the state: %v", sn, rs, rerr)
				continue
			}
			c.Count("obligations-revision-audit")
			if ent == nil {
				cv, cf := e.committed[sn]
				if verifShow(cv, cf) != verifShow(got, present) {
					c.Violate("C29/revision-discard", "after %s: nothing should be saved for %s rev %s, yet restoring it turns %s into %s", after, sn, rs, verifShow(cv, cf), verifShow(got, present))
				}
				continue
			}
			if !present || verifCanon(got) != verifCanon(ent.doc) {
				c.Violate("C29/revision-snapshot-lost", "after %s: restoring %s rev %s gives %s, saved was %s", after, sn, rs, verifShow(got, present), verifCanon(ent.doc))
			}
		}
	}
}

// ---- outside writers -------------------------------------------------------

func (e *verifC29) opDirect() {
	c := e.c
	sn := e.snaps[c.Draw("snap", len(e.snaps))]
	before := e.committed
	var want interface{}
	wantPresent := false
	var err error
	switch c.Draw("direct-op", 4) {
	case 0, 1:
		doc := e.genVal(0, false)
		if _, ok := doc.(map[string]interface{}); !ok {
			doc = map[string]interface{}{e.genKey(): doc}
		}
		raw := json.RawMessage(verifCanon(doc))
		err = config.SetSnapConfig(e.st, sn, &raw)
		want, wantPresent = doc, true
		c.Logf("set-snap-config %s = %s err=%v", sn, verifCanon(doc), err)
	case 2:
		err = config.DeleteSnapConfig(e.st, sn)
		c.Logf("delete-snap-config %s err=%v", sn, err)
		c.Count("probe:snap-config-deleted")
	default:
		err = config.SetSnapConfig(e.st, sn, nil)
		c.Logf("set-snap-config %s = nil err=%v", sn, err)
		c.Count("probe:snap-config-deleted")
	}
	c.Count("direct-writes")
	if e.openTxWithWrites() > 0 {
		c.Count("probe:config-replaced-under-open-transactions")
	}
	after, _ := e.readCommitted()
	if err != nil {
		c.Violate("C29/direct-replace", "replacing the configuration of %s failed: %v", sn, err)
	}
	for _, other := range e.snaps {
		bv, bf := before[other]
		av, af := after[other]
		if other == sn {
			if verifShow(av, af) != verifShow(want, wantPresent) {
				c.Violate("C29/direct-replace", "configuration of %s replaced by %s, state holds %s", sn, verifShow(want, wantPresent), verifShow(av, af))
			}
			raw, gerr := config.GetSnapConfig(e.st, sn)
			var gv interface{}
			if gerr == nil && raw != nil {
				gv, _ = verifDecode(*raw)
			}
			if gerr != nil || verifShow(gv, raw != nil) != verifShow(av, af) {
				c.Violate("C29/direct-replace", "GetSnapConfig(%s) gives %s (err %v), state holds %s", sn, verifShow(gv, raw != nil), gerr, verifShow(av, af))
			}
		} else if verifShow(bv, bf) != verifShow(av, af) {
			c.Violate("C29/direct-replace", "replacing the configuration of %s changed %s: %s -> %s", sn, other, verifShow(bv, bf), verifShow(av, af))
		}
	}
	e.adopt()
}

// restart: the state is reloaded from the last checkpoint; open
// transactions die with the process, nothing of them may survive.
func (e *verifC29) opRestart() {
	c := e.c
	c.Count("fault:restart")
	lost := e.openTxWithWrites()
	if lost > 0 {
		c.Count("probe:restart-with-uncommitted-writes")
	}
	c.Nontrivial()
	e.st.Unlock()
	var st2 *state.State
	if e.be.last == nil {
		st2 = state.New(e.be)
	} else {
		var err error
		st2, err = state.ReadState(e.be, bytes.NewReader(e.be.last))
		if err != nil {
			c.Fatalf("cannot reload state: %v", err)
		}
	}
	e.st = st2
	e.st.Lock()
	doc, sig := e.readCommitted()
	c.Logf("restart (open transactions with writes: %d): committed %s", lost, verifCanon(doc))
	if sig != e.sig {
		c.Violate("C29/restart-changed-committed-config", "committed configuration before the restart %s, after reloading the checkpoint %s", e.sig, sig)
		e.committed, e.sig = doc, sig
		e.gen++
	}
	for _, cl := range e.clients {
		e.newTx(cl)
	}
	e.auditRevisions("restart")
}

// guarded runs one step and turns a panic out of snapd code into a
// C29/panic violation with a message that is a function of the tape only
// (the core's own recover adds a stack with pointer values to the message,
// which makes the event log differ between a run and its replay).
func (e *verifC29) guarded(f func()) {
	defer func() {
		if r := recover(); r != nil {
			if he, ok := r.(verifsim.HarnessError); ok {
				panic(he)
			}
			e.c.Violate("C29/panic", "panic in snapd code: %v", r)
		}
	}()
	f()
}

// ---- the run ---------------------------------------------------------------

func verifRunC29(c *verifsim.Ctx) {
	t0 := time.Now()
	be := &verifCfgBackend{c: c}
	e := &verifC29{c: c, be: be, revs: map[string]map[string]*verifRevEntry{}}
	e.st = state.New(be)
	nclients := 2 + c.Draw("clients", 3)
	e.snaps = []string{"s1", "s2"}[:1+c.Draw("snaps", 2)]
	e.faults = c.Draw("faults", 4) != 0
	maxOps := 90
	if c.Tier == "thorough" {
		maxOps = 240
	}
	nops := c.Draw("nops", maxOps)
	c.Logf("config: clients=%d snaps=%v faults=%v ops=%d", nclients, e.snaps, e.faults, nops)

	e.st.Lock()
	e.committed, e.sig = e.readCommitted()
	// some committed configuration to start from
	e.guarded(func() {
		setup := &verifClient{id: 0}
		e.newTx(setup)
		for i, n := 0, c.Draw("init", 6); i < n; i++ {
			e.opSet(setup, e.genPath(2), e.genVal(0, false))
		}
		if len(setup.writes) > 0 {
			e.opCommit(setup)
		}
		for i := 0; i < nclients; i++ {
			cl := &verifClient{id: i + 1}
			e.newTx(cl)
			e.clients = append(e.clients, cl)
		}
	})
	e.st.Unlock()
	if len(e.clients) != nclients {
		return
	}

	for i := 0; i < nops && !e.stop(); i++ {
		cl := e.clients[c.Draw("client", nclients)]
		op := c.Draw("op", 40) - 4
		if op < 0 {
			op = 0
		}
		e.st.Lock()
		leakCheck := ""
		e.guarded(func() {
			switch {
			case op < 8:
				e.opRead(cl, e.genPath(1), c.Draw("read-mode", 4))
				leakCheck = "a read"
			case op < 16:
				e.opSet(cl, e.genPath(2), e.genVal(0, true))
				leakCheck = "an uncommitted write"
			case op < 19:
				e.opSet(cl, e.genPath(2), nil)
				leakCheck = "an uncommitted unset"
			case op < 24:
				e.opCommit(cl)
			case op < 25:
				e.opRead(cl, []string{e.snaps[c.Draw("snap", len(e.snaps))]}, c.Draw("read-mode", 4))
				leakCheck = "a read"
			case op < 26:
				c.Logf("c%d abandons its transaction (%d writes)", cl.id, len(cl.writes))
				if len(cl.writes) > 0 {
					c.Count("probe:transaction-with-writes-abandoned")
				}
				e.newTx(cl)
				leakCheck = "abandoning a transaction"
			case op < 28:
				e.opPatch(cl)
				leakCheck = "an uncommitted patch"
			case op < 31:
				e.opRevision()
			case op < 33:
				e.opDirect()
			case op < 34:
				e.opSetInvalid(cl)
				leakCheck = "a refused write"
			case op < 35:
				if e.faults {
					e.opRestart()
				} else {
					e.opRead(cl, e.genPath(1), 0)
				}
			default:
				if e.faults {
					be.failNext = 1 + c.Draw("checkpoint-failures", 3)
					c.Logf("next %d checkpoints fail", be.failNext)
					// make sure there is something to checkpoint
					e.st.Set("verif-dirty", i)
				} else {
					e.opRead(cl, e.genPath(1), 0)
				}
			}
			if leakCheck != "" {
				e.checkNoLeak(leakCheck)
			}
		})
		e.st.Unlock()
	}

	// everybody commits what is still open
	e.st.Lock()
	e.guarded(func() {
		for _, cl := range e.clients {
			if e.stop() {
				break
			}
			if len(cl.writes) > 0 {
				e.opCommit(cl)
			}
		}
	})
	e.st.Unlock()
	if be.failNext > 0 {
		be.failNext = 0
	}
	c.SimTime = time.Since(t0)
	_ = fmt.Sprint
}

var verifEngineC29 = &verifsim.Engine{
	Name:   "T/C29: config transactions of several clients interleaved on one state",
	Bubble: true,
	Run:    verifRunC29,
	Real: []string{
		"overlord/configstate/config: Transaction (NewTransaction, Set, Get, GetMaybe, GetPristine, GetPristineMaybe, Changes, Commit), PatchConfig, Patch, purgeNulls, commitChange/applyChanges, getFromConfig, ParseKey",
		"overlord/configstate/config: SaveRevisionConfig, RestoreRevisionConfig, DiscardRevisionConfig, SetSnapConfig, GetSnapConfig, DeleteSnapConfig",
		"overlord/state: State (Get/Set, lock, checkpoint on Unlock with its retry loop, ReadState on restart)",
		"time (synctest fake clock; only the checkpoint retry sleeps use it)",
	},
	Stubs: []string{
		"state.Backend: in-memory checkpoint store that can fail a drawn number of consecutive checkpoints",
		"clients: drawn operation sequences instead of hooks/API handlers; external (virtual) configuration is not registered",
	},
}
