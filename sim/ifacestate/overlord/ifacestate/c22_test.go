package ifacestate_test

// Engine F: interface connections (C22).
//
// One run = one simulated snapd lifetime over a scratch root: a real
// state.State (own checkpoint backend that keeps the last persisted JSON), a
// real hookstate.HookManager, a real ifacestate.InterfaceManager with its
// real interfaces.Repository and a real TaskRunner, driven by the simulator
// (StateEngine.Ensure + synctest.Wait, never Overlord.Settle). The security
// backend and the hook runner are stubs which can park, fail and record.
// A history of connect / disconnect / forget / install (auto-connect) /
// remove (auto-disconnect) / restart operations is generated from the tape;
// each change may carry one failure point.

import (
	"bytes"
	"encoding/json"
	"errors"
	"fmt"
	"os"
	"path/filepath"
	"runtime/debug"
	"sort"
	"strconv"
	"strings"
	"sync"
	"testing"
	"testing/synctest"
	"time"

	"gopkg.in/tomb.v2"

	"github.com/snapcore/snapd/asserts"
	"github.com/snapcore/snapd/asserts/assertstest"
	"github.com/snapcore/snapd/asserts/sysdb"
	"github.com/snapcore/snapd/dirs"
	"github.com/snapcore/snapd/interfaces"
	"github.com/snapcore/snapd/interfaces/ifacetest"
	"github.com/snapcore/snapd/internal/verifsim"
	"github.com/snapcore/snapd/logger"
	"github.com/snapcore/snapd/osutil"
	"github.com/snapcore/snapd/overlord"
	"github.com/snapcore/snapd/overlord/assertstate"
	"github.com/snapcore/snapd/overlord/hookstate"
	"github.com/snapcore/snapd/overlord/ifacestate"
	"github.com/snapcore/snapd/overlord/snapstate"
	"github.com/snapcore/snapd/overlord/snapstate/snapstatetest"
	"github.com/snapcore/snapd/overlord/state"
	seccomp_compiler "github.com/snapcore/snapd/sandbox/seccomp"
	"github.com/snapcore/snapd/snap"
	"github.com/snapcore/snapd/timings"
)

// ---------------------------------------------------------------------------
// the fixed universe of snaps, plugs and slots

type verifPair struct{ ps, pn, ss, sn string }

func (p verifPair) id() string { return p.ps + ":" + p.pn + " " + p.ss + ":" + p.sn }

// pairs 0..4 are connectable (pair 4 shares no snap with the others, so a
// request about it passes the conflict checks while a change about one of the
// others is in progress); pair 5 mismatches interfaces: its connect task
// fails on its own inside the repository ("natural" failure).
var verifPairs = []verifPair{
	{"consumer", "plug", "producer", "slot"},   // test  (auto-connects)
	{"consumer", "mplug", "producer", "mslot"}, // test2 (manual only)
	{"consumer", "mplug", "relay", "rslot"},    // test2 (manual only)
	{"relay", "aplug", "producer", "aslot"},    // test3 (auto-connects)
	{"alpha", "xplug", "beta", "xslot"},        // test4 (manual only)
	{"consumer", "plug", "producer", "mslot"},  // test vs test2: cannot connect
}

const verifNGood = 5 // connectable pairs

var verifPairIfaces = []string{"test", "test2", "test2", "test3", "test4"}

var verifSnapNames = []string{"consumer", "producer", "relay", "alpha", "beta"}

// the task kinds the statement of C07 calls interface-manipulating; used
// only for the reach probes
var verifIfaceKinds = map[string]bool{"connect": true, "disconnect": true, "setup-profiles": true, "remove-profiles": true,
	"discard-conns": true, "auto-connect": true, "auto-disconnect": true}

func verifHooksYaml(side string, names ...string) string {
	s := "hooks:\n"
	for _, n := range names {
		for _, k := range []string{"prepare", "unprepare", "connect", "disconnect"} {
			s += " " + k + "-" + side + "-" + n + ":\n"
		}
	}
	return s
}

func verifSnapYaml(name string, hooks bool) string {
	switch name {
	case "consumer":
		y := "name: consumer\nversion: 1\nplugs:\n plug:\n  interface: test\n  attr1: value1\n mplug:\n  interface: test2\n"
		if hooks {
			y += verifHooksYaml("plug", "plug", "mplug")
		}
		return y
	case "producer":
		y := "name: producer\nversion: 1\nslots:\n slot:\n  interface: test\n  attr2: value2\n mslot:\n  interface: test2\n aslot:\n  interface: test3\n"
		if hooks {
			y += verifHooksYaml("slot", "slot", "mslot")
		}
		return y
	case "relay":
		y := "name: relay\nversion: 1\nplugs:\n aplug:\n  interface: test3\nslots:\n rslot:\n  interface: test2\n"
		if hooks {
			y += "hooks:\n prepare-plug-aplug:\n connect-plug-aplug:\n disconnect-plug-aplug:\n connect-slot-rslot:\n disconnect-slot-rslot:\n"
		}
		return y
	case "alpha":
		y := "name: alpha\nversion: 1\nplugs:\n xplug:\n  interface: test4\n"
		if hooks {
			y += verifHooksYaml("plug", "xplug")
		}
		return y
	case "beta":
		y := "name: beta\nversion: 1\nslots:\n xslot:\n  interface: test4\n"
		if hooks {
			y += "hooks:\n connect-slot-xslot:\n disconnect-slot-xslot:\n"
		}
		return y
	}
	panic("unknown snap " + name)
}

// ---------------------------------------------------------------------------
// stubs: checkpoint backend, security backend

type verifCkptBackend struct {
	last    []byte
	n       int
	discard bool
}

func (b *verifCkptBackend) Checkpoint(data []byte) error {
	if b.discard {
		return nil
	}
	b.last = append([]byte(nil), data...)
	b.n++
	return nil
}
func (b *verifCkptBackend) EnsureBefore(d time.Duration) {}

type verifProfile struct {
	seen    string // connection ids of the snap at the time of the last Setup attempt
	ok      bool   // false: the last attempt was failed by injection
	removed bool
}

type verifSecBackend struct{ e *verifEnv }

func (b *verifSecBackend) Initialize(*interfaces.SecurityBackendOptions) error { return nil }
func (b *verifSecBackend) Name() interfaces.SecuritySystem                     { return "verif" }
func (b *verifSecBackend) NewSpecification(*interfaces.SnapAppSet, interfaces.ConfinementOptions) interfaces.Specification {
	return &ifacetest.Specification{}
}
func (b *verifSecBackend) SandboxFeatures() []string { return nil }

func (b *verifSecBackend) Setup(appSet *interfaces.SnapAppSet, opts interfaces.ConfinementOptions, repo *interfaces.Repository, tm timings.Measurer) error {
	e := b.e
	name := appSet.InstanceName()
	cur := e.cur
	fail := false
	var plan *verifPlan
	if cur != nil {
		plan = e.plans[cur.chg]
	}
	if plan != nil {
		plan.setupTouched[name] = true
		if cur.which == "do" {
			n := plan.setupSeen
			plan.setupSeen++
			if plan.kind == verifFaultSetup && !plan.fired && n == plan.at {
				fail = true
			}
		}
	}
	// park (only from a task handler, never while somebody holds the state lock)
	if cur != nil && e.parkOn && !e.in.st.VerifLockHeld() {
		e.park("setup", "setup "+name+" in "+cur.which+" "+cur.label, cur, nil)
	}
	refs, _ := repo.Connections(name)
	ids := make([]string, 0, len(refs))
	for _, r := range refs {
		ids = append(ids, r.ID())
	}
	sort.Strings(ids)
	seen := strings.Join(ids, ",")
	e.c.Add("backend-setup-calls", 1)
	if cur == nil {
		// outside a task (profile regeneration on startup): snapd walks
		// the snaps in map order; logged sorted by the caller
		e.profiles[name] = &verifProfile{seen: seen, ok: true}
		e.startup = append(e.startup, fmt.Sprintf("  backend setup %s [%s] (startup)", name, seen))
		return nil
	}
	if fail {
		plan.fired = true
		e.c.Count("fault:backend-setup-error")
		e.profiles[name] = &verifProfile{seen: seen, ok: false}
		e.c.Logf("  backend setup %s [%s] -> injected error", name, seen)
		return errors.New("verif: injected security backend failure")
	}
	e.profiles[name] = &verifProfile{seen: seen, ok: true}
	e.c.Logf("  backend setup %s [%s]", name, seen)
	return nil
}

func (b *verifSecBackend) Remove(snapName string) error {
	b.e.profiles[snapName] = &verifProfile{removed: true, ok: true}
	b.e.c.Logf("  backend remove %s", snapName)
	return nil
}

// ---------------------------------------------------------------------------
// fault plan of one change

const (
	verifFaultNone = iota
	verifFaultTask
	verifFaultHook
	verifFaultSetup
	verifFaultAbort
)

var verifFaultNames = []string{"none", "task-error", "hook-error", "setup-error", "abort"}

type verifPlan struct {
	op        string // connect | disconnect | forget | install | remove
	kind      int
	at        int
	fired     bool
	restartAt int // scheduler step at which snapd is restarted (0: never)
	dyn       int // prepare hooks set a dynamic attribute (0: no)

	doSeen, hookSeen, setupSeen int
	setupTouched                map[string]bool
	restarted                   bool
	pre                         *verifSnapshot
}

func (p *verifPlan) faultName() string {
	if p.fired {
		return verifFaultNames[p.kind]
	}
	return "natural"
}

// verifCur identifies the task whose handler goroutine is the one running:
// exactly one goroutine of the system under test runs between two quiescent
// points (the scheduler releases one parked goroutine and waits), so a single
// variable, set at release time from the released gate, is enough for the
// backend stub to know who is calling.
type verifCur struct{ chg, which, kind, label string }

// a parked goroutine: before the body of a handler ("start"), inside the
// hook runner ("hook"), inside a backend Setup call ("setup")
type verifGate struct {
	kind  string
	label string
	cur   *verifCur
	ch    chan struct{}
}

// ---------------------------------------------------------------------------
// one snapd "process"

type verifInst struct {
	o      *overlord.Overlord
	st     *state.State
	be     *verifCkptBackend
	mgr    *ifacestate.InterfaceManager
	runner *state.TaskRunner
}

type verifEnv struct {
	c        *verifsim.Ctx
	in       *verifInst
	db       *asserts.Database
	parkOn   bool
	hooks    map[string]bool
	mu       sync.Mutex
	gates    []*verifGate
	killed   []string // labels of hook goroutines that woke up because their tomb is dying
	plans    map[string]*verifPlan
	cur      *verifCur
	profiles map[string]*verifProfile
	restarts int
	sysKey   int
	startup  []string
	progress bool // a handler started since the flag was cleared

	ifaceRunning int             // interface-manipulating handlers past their start gate
	heldSeen     map[string]bool // interface tasks already counted as held back
}

// park blocks the calling goroutine (which must hold neither the state lock
// nor the runner's lock) until the scheduler releases it; false: snapd is
// stopping. Nothing is logged or counted on the way in: several goroutines
// may arrive here between two quiescent points, in any order.
func (e *verifEnv) park(kind, label string, cur *verifCur, dying <-chan struct{}) bool {
	g := &verifGate{kind: kind, label: label, cur: cur, ch: make(chan struct{})}
	e.mu.Lock()
	e.gates = append(e.gates, g)
	e.mu.Unlock()
	select {
	case <-g.ch:
		return true
	case <-dying:
		e.mu.Lock()
		for i, x := range e.gates {
			if x == g {
				e.gates = append(e.gates[:i], e.gates[i+1:]...)
				break
			}
		}
		e.killed = append(e.killed, label)
		e.mu.Unlock()
		return false
	}
}

func (e *verifEnv) drainKilled() []string {
	e.mu.Lock()
	killed := e.killed
	e.killed = nil
	e.mu.Unlock()
	sort.Strings(killed)
	return killed
}

// parked returns the parked goroutines in canonical (label) order.
func (e *verifEnv) parked() []*verifGate {
	e.mu.Lock()
	defer e.mu.Unlock()
	sort.Slice(e.gates, func(i, j int) bool { return e.gates[i].label < e.gates[j].label })
	return append([]*verifGate(nil), e.gates...)
}

// release lets one parked goroutine run until it parks again or finishes.
func (e *verifEnv) release(g *verifGate) {
	e.mu.Lock()
	for i, x := range e.gates {
		if x == g {
			e.gates = append(e.gates[:i], e.gates[i+1:]...)
			break
		}
	}
	e.mu.Unlock()
	e.cur = g.cur
	close(g.ch)
	synctest.Wait()
}

// runHook stands in for "snap run --hook".
func (e *verifEnv) runHook(ctx *hookstate.Context, tb *tomb.Tomb) ([]byte, error) {
	ctx.Lock()
	t, _ := ctx.Task()
	which := "do"
	if s := t.Status(); s == state.UndoingStatus || s == state.UndoStatus {
		which = "undo"
	}
	chgID := ctx.ChangeID()
	ctx.Unlock()
	name := ctx.HookName()
	snapName := ctx.InstanceName()
	plan := e.plans[chgID]
	fail := false
	if plan != nil && which == "do" {
		n := plan.hookSeen
		plan.hookSeen++
		if plan.kind == verifFaultHook && !plan.fired && n == plan.at {
			fail = true
		}
	}
	e.c.Add("hooks-run", 1)
	e.c.Logf("  hook(%s) %s of %s", which, name, snapName)
	if plan != nil && plan.dyn > 0 && which == "do" && strings.HasPrefix(name, "prepare-") {
		// what "snapctl set :<plug|slot> dyn=..." does
		key := "plug-dynamic"
		if strings.HasPrefix(name, "prepare-slot-") {
			key = "slot-dynamic"
		}
		ctx.Lock()
		var id string
		if err := ctx.Get("attrs-task", &id); err == nil {
			if at := ctx.State().Task(id); at != nil {
				attrs := map[string]interface{}{}
				at.Get(key, &attrs)
				if attrs == nil {
					attrs = map[string]interface{}{}
				}
				attrs["dyn"] = "v" + strconv.Itoa(plan.dyn)
				at.Set(key, attrs)
				e.c.Count("probe:hook-set-dynamic-attr")
			}
		}
		ctx.Unlock()
	}
	if e.parkOn {
		if !e.park("hook", "hook "+name+" of "+snapName+" in "+e.cur.which+" "+e.cur.label, e.cur, tb.Dying()) {
			// (logged and counted by restart(): several goroutines wake up at once)
			return nil, errors.New("verif: hook killed")
		}
	}
	if fail {
		plan.fired = true
		e.c.Count("fault:hook-error")
		e.c.Logf("  hook %s of %s -> injected failure", name, snapName)
		return []byte("verif: hook failed"), errors.New("exit status 1")
	}
	return nil, nil
}

func verifTaskSnapst(t *state.Task) (*snapstate.SnapSetup, *snapstate.SnapState, error) {
	snapsup, err := snapstate.TaskSnapSetup(t)
	if err != nil {
		return nil, nil, err
	}
	var snapst snapstate.SnapState
	err = snapstate.Get(t.State(), snapsup.InstanceName(), &snapst)
	if err != nil && !errors.Is(err, state.ErrNoState) {
		return nil, nil, err
	}
	return snapsup, &snapst, nil
}

// the pieces of snapstate the interface manager cooperates with, reduced to
// what they do to the snap's entry in the state
func verifAddSnapstateHandlers(r *state.TaskRunner) {
	locked := func(f func(t *state.Task) error) state.HandlerFunc {
		return func(t *state.Task, _ *tomb.Tomb) error {
			st := t.State()
			st.Lock()
			defer st.Unlock()
			return f(t)
		}
	}
	r.AddHandler("link-snap", locked(func(t *state.Task) error {
		snapsup, snapst, err := verifTaskSnapst(t)
		if err != nil {
			return err
		}
		snapst.Active = true
		snapst.Current = snapsup.SideInfo.Revision
		snapst.Sequence = snapstatetest.NewSequenceFromSnapSideInfos([]*snap.SideInfo{snapsup.SideInfo})
		snapst.SnapType = "app"
		snapstate.Set(t.State(), snapsup.InstanceName(), snapst)
		return ifacestate.OnSnapLinkageChanged(t.State(), snapsup)
	}), locked(func(t *state.Task) error {
		snapsup, _, err := verifTaskSnapst(t)
		if err != nil {
			return err
		}
		snapstate.Set(t.State(), snapsup.InstanceName(), nil)
		return ifacestate.OnSnapLinkageChanged(t.State(), snapsup)
	}))
	setActive := func(active bool) state.HandlerFunc {
		return locked(func(t *state.Task) error {
			snapsup, snapst, err := verifTaskSnapst(t)
			if err != nil {
				return err
			}
			snapst.Active = active
			snapstate.Set(t.State(), snapsup.InstanceName(), snapst)
			return ifacestate.OnSnapLinkageChanged(t.State(), snapsup)
		})
	}
	r.AddHandler("unlink-snap", setActive(false), setActive(true))
	r.AddHandler("discard-snap", locked(func(t *state.Task) error {
		snapsup, snapst, err := verifTaskSnapst(t)
		if err != nil {
			return err
		}
		t.Set("verif-old-snapst", snapst)
		snapstate.Set(t.State(), snapsup.InstanceName(), nil)
		return nil
	}), locked(func(t *state.Task) error {
		snapsup, err := snapstate.TaskSnapSetup(t)
		if err != nil {
			return err
		}
		var old snapstate.SnapState
		if err := t.Get("verif-old-snapst", &old); err != nil {
			return err
		}
		snapstate.Set(t.State(), snapsup.InstanceName(), &old)
		return nil
	}))
}

func (e *verifEnv) newInstance(data []byte) *verifInst {
	c := e.c
	be := &verifCkptBackend{}
	var st *state.State
	if data == nil {
		st = state.New(be)
	} else {
		var err error
		st, err = state.ReadState(be, bytes.NewReader(data))
		if err != nil {
			c.Fatalf("cannot read back the persisted state: %v", err)
		}
		be.last = data
	}
	st.Lock()
	assertstate.ReplaceDB(st, e.db)
	st.Unlock()
	o := overlord.MockWithState(st)
	in := &verifInst{o: o, st: st, be: be, runner: o.TaskRunner()}
	hookMgr, err := hookstate.Manager(st, in.runner)
	if err != nil {
		c.Fatalf("hookstate.Manager: %v", err)
	}
	o.AddManager(hookMgr)
	mgr, err := ifacestate.Manager(st, hookMgr, in.runner, []interfaces.Interface{
		&ifacetest.TestInterface{InterfaceName: "test"},
		&ifacetest.TestInterface{InterfaceName: "test2", AutoConnectCallback: func(*snap.PlugInfo, *snap.SlotInfo) bool { return false }},
		&ifacetest.TestInterface{InterfaceName: "test3"},
		&ifacetest.TestInterface{InterfaceName: "test4", AutoConnectCallback: func(*snap.PlugInfo, *snap.SlotInfo) bool { return false }},
	}, nil)
	if err != nil {
		c.Fatalf("ifacestate.Manager: %v", err)
	}
	mgr.DisableUDevMonitor()
	in.mgr = mgr
	o.AddManager(mgr)
	verifAddSnapstateHandlers(in.runner)
	o.AddManager(in.runner)
	// No blocking predicate of the simulator's own: which tasks may run
	// together is decided by the real predicates (interface manager, hook
	// manager) alone. Every handler parks before its body; the scheduler
	// releases one parked goroutine at a time.
	in.runner.VerifWrapHandlers(func(_, which string, h state.HandlerFunc) state.HandlerFunc {
		if which == "cleanup" {
			return h
		}
		return func(t *state.Task, tb *tomb.Tomb) error {
			st.Lock()
			chgID := ""
			if chg := t.Change(); chg != nil {
				chgID = chg.ID()
			}
			kind := t.Kind()
			id := verifTaskLabel(t)
			st.Unlock()
			cur := &verifCur{chg: chgID, which: which, kind: kind, label: id}
			// A handler body that has not begun is not interrupted by anything
			// (the runner kills the tomb of an aborted task and of every task
			// when stopping; real handler bodies start regardless): the gate
			// opens only when the scheduler says so.
			e.park("start", "start "+which+" "+id, cur, nil)
			plan := e.plans[chgID]
			c.Logf(" %s %s", which, id)
			if which == "undo" {
				switch kind {
				case "connect":
					c.Count("probe:undo-connect")
				case "disconnect":
					c.Count("probe:undo-disconnect")
					if plan != nil && plan.op == "forget-inactive" {
						c.Count("probe:undo-of-forget-of-inactive-connection")
					}
				case "setup-profiles", "remove-profiles":
					c.Count("probe:undo-profiles")
				case "discard-conns":
					c.Count("probe:undo-discard-conns")
				}
			}
			if plan != nil && which == "do" && kind == "connect" && plan.op == "install" {
				c.Count("probe:auto-connect-connects")
			}
			if plan != nil && which == "do" && kind == "disconnect" && plan.op == "remove" {
				c.Count("probe:auto-disconnect-disconnects")
			}
			if plan != nil && which == "do" {
				n := plan.doSeen
				plan.doSeen++
				if plan.kind == verifFaultTask && !plan.fired && n == plan.at {
					plan.fired = true
					c.Count("fault:task-error")
					c.Logf("  -> injected failure before the body of %s", id)
					return errors.New("verif: injected task failure")
				}
			}
			e.progress = true
			if verifIfaceKinds[kind] {
				e.ifaceRunning++
				if e.ifaceRunning > 1 {
					c.Count("two-interface-handlers-in-flight")
					c.Logf("  (another interface handler is in flight)")
				}
			}
			err := h(t, tb)
			// from here on only the goroutine's own bookkeeping: when snapd
			// is stopping several killed goroutines get here at once
			e.mu.Lock()
			if verifIfaceKinds[kind] {
				e.ifaceRunning--
			}
			e.mu.Unlock()
			select {
			case <-tb.Dying():
				return err
			default:
			}
			if _, ok := err.(*state.Retry); ok {
				c.Count("probe:task-asked-for-retry")
				c.Logf("  -> retry later")
			}
			return err
		}
	})
	e.in = in
	e.startup = nil
	e.cur = nil
	e.ifaceRunning = 0
	if err := o.StartUp(); err != nil {
		c.Fatalf("StartUp: %v", err)
	}
	sort.Strings(e.startup)
	for _, l := range e.startup {
		c.Logf("%s", l)
	}
	return in
}

// ---------------------------------------------------------------------------
// observation

type verifSnapshot struct {
	conns  map[string]string // persisted "conns": id -> canonical JSON
	active map[string]string // persisted, not undesired / hotplug-gone: id -> iface + dynamic attrs
	repo   map[string]string // in memory: id -> iface + dynamic attrs
	repoSt map[string]string // in memory: id -> static attrs
}

func verifCanon(v interface{}) string {
	if v == nil {
		return "{}"
	}
	if m, ok := v.(map[string]interface{}); ok && len(m) == 0 {
		return "{}"
	}
	b, _ := json.Marshal(v)
	return string(b)
}

func (e *verifEnv) snapshot() *verifSnapshot {
	s := &verifSnapshot{conns: map[string]string{}, active: map[string]string{}, repo: map[string]string{}, repoSt: map[string]string{}}
	if e.in.be.last != nil {
		var top struct {
			Data map[string]json.RawMessage `json:"data"`
		}
		if err := json.Unmarshal(e.in.be.last, &top); err != nil {
			e.c.Fatalf("persisted state does not parse: %v", err)
		}
		if raw, ok := top.Data["conns"]; ok {
			var m map[string]map[string]interface{}
			if err := json.Unmarshal(raw, &m); err != nil {
				e.c.Fatalf("persisted conns do not parse: %v", err)
			}
			for id, v := range m {
				s.conns[id] = verifCanon(v)
				und, _ := v["undesired"].(bool)
				gone, _ := v["hotplug-gone"].(bool)
				if !und && !gone {
					s.active[id] = fmt.Sprintf("%v plug-dynamic=%s slot-dynamic=%s", v["interface"], verifCanon(v["plug-dynamic"]), verifCanon(v["slot-dynamic"]))
				}
			}
		}
	}
	repo := e.in.mgr.Repository()
	for _, ref := range repo.Interfaces().Connections {
		conn, err := repo.Connection(ref)
		if err != nil {
			e.c.Fatalf("repository lists %s but: %v", ref.ID(), err)
		}
		s.repo[ref.ID()] = fmt.Sprintf("%v plug-dynamic=%s slot-dynamic=%s", conn.Interface(), verifCanon(conn.Plug.DynamicAttrs()), verifCanon(conn.Slot.DynamicAttrs()))
		s.repoSt[ref.ID()] = fmt.Sprintf("plug-static=%s slot-static=%s", verifCanon(conn.Plug.StaticAttrs()), verifCanon(conn.Slot.StaticAttrs()))
	}
	return s
}

func verifMapDiff(a, b map[string]string) string {
	keys := map[string]bool{}
	for k := range a {
		keys[k] = true
	}
	for k := range b {
		keys[k] = true
	}
	ks := make([]string, 0, len(keys))
	for k := range keys {
		ks = append(ks, k)
	}
	sort.Strings(ks)
	for _, k := range ks {
		x, okx := a[k]
		y, oky := b[k]
		switch {
		case !okx:
			return fmt.Sprintf("%q: absent vs %s", k, y)
		case !oky:
			return fmt.Sprintf("%q: %s vs absent", k, x)
		case x != y:
			return fmt.Sprintf("%q: %s vs %s", k, x, y)
		}
	}
	return ""
}

func verifKeys(m map[string]string) string {
	ks := make([]string, 0, len(m))
	for k := range m {
		ks = append(ks, k)
	}
	sort.Strings(ks)
	return "[" + strings.Join(ks, ", ") + "]"
}

// checkSync is the second sentence of the statement.
func (e *verifEnv) checkSync(s *verifSnapshot, when, op, fault string) {
	e.c.Add("sync-evaluations", 1)
	if d := verifMapDiff(s.active, s.repo); d != "" {
		cls := fmt.Sprintf("C22/persisted-vs-memory.%s.%s.%s", when, op, fault)
		if strings.HasSuffix(fault, ".overlapped") {
			// one root cause whatever the operations and the failure point were: a
			// change connected (or, undoing a disconnect, re-connected) one of its
			// snaps to a snap that an overlapping change then took away again (the
			// undo of its installation, or its removal), which cleans memory only
			gone := ""
			ks := make([]string, 0, len(s.active))
			for k := range s.active {
				ks = append(ks, k)
			}
			sort.Strings(ks)
			for _, k := range ks {
				if _, ok := s.repo[k]; ok {
					continue
				}
				for _, side := range strings.Fields(k) {
					if name := strings.SplitN(side, ":", 2)[0]; !e.installed(name) {
						gone = name
					}
				}
				break
			}
			if gone != "" {
				cls = fmt.Sprintf("C22/persisted-vs-memory.%s.overlapped:connection-to-a-snap-an-overlapping-change-took-away", when)
			}
		}
		e.c.Violate(cls,
			"%s (%s, %s): active persisted connections %s, in-memory connections %s; first difference (persisted vs memory) %s",
			when, op, fault, verifKeys(s.active), verifKeys(s.repo), d)
	}
}

func (e *verifEnv) installed(name string) bool {
	st := e.in.st
	st.Lock()
	defer st.Unlock()
	var snapst snapstate.SnapState
	return snapstate.Get(st, name, &snapst) == nil && snapst.IsInstalled()
}

func verifSystemKey(n int) string {
	return fmt.Sprintf(`{"build-id": "7a94e9736c091b3984bd63f5aebfc883c4d859%02x", "apparmor-features": ["caps", "dbus"]}`, n)
}

// ---------------------------------------------------------------------------
// restart: stop the managers (in-flight hooks are killed, an in-flight
// backend call is allowed to finish), read the last checkpoint back into a
// new State, build new managers, StartUp.
func verifRebase(pre, before, after map[string]string) {
	keys := map[string]bool{}
	for k := range before {
		keys[k] = true
	}
	for k := range after {
		keys[k] = true
	}
	for k := range keys {
		b, okb := before[k]
		a, oka := after[k]
		if okb == oka && a == b {
			continue
		}
		// the startup itself changed this entry; if the change under
		// test had not touched it, "as it was before" moves along
		p, okp := pre[k]
		if okp == okb && p == b {
			if oka {
				pre[k] = a
			} else {
				delete(pre, k)
			}
		}
	}
}

func (e *verifEnv) restart(op, fault string, pres []*verifSnapshot) {
	c := e.c
	// Stop() waits for every handler: a body that was about to begin runs, a
	// backend call cannot be interrupted (the handler may go on to further
	// backend calls); only goroutines inside the hook runner see their tomb
	// dying and give up
	for i := 0; ; i++ {
		var g *verifGate
		for _, x := range e.parked() {
			if x.kind != "hook" {
				g = x
				break
			}
		}
		if g == nil {
			break
		}
		if i > 200 {
			c.Fatalf("handlers do not finish before the restart: %s", g.label)
		}
		c.Logf("  release %s (snapd stopping)", g.label)
		e.release(g)
	}
	old := e.in
	old.o.Stop()
	synctest.Wait()
	if gs := e.parked(); len(gs) > 0 {
		c.Fatalf("a handler is still parked after Stop: %s", gs[0].label)
	}
	for _, l := range e.drainKilled() {
		c.Logf("  killed by stop: %s", l)
		c.Count("probe:hook-killed-by-stop")
	}
	before := e.snapshot()
	old.be.discard = true
	data := old.be.last
	e.restarts++
	c.Count("probe:restart")
	// (neither the size nor the number of checkpoints is logged: task ids are
	// handed out in map order inside auto-connect, so the JSON differs in
	// length between executions of the same tape)
	c.Add("checkpoints-written", int64(old.be.n))
	c.Logf("RESTART #%d", e.restarts)
	if c.Chance("restart.new-snapd-build", 1, 4) {
		// as after a snapd refresh: the system key changes and all
		// profiles are regenerated on startup
		e.sysKey++
		interfaces.MockSystemKey(verifSystemKey(e.sysKey))
		c.Count("probe:restart-regenerates-profiles")
		c.Logf("  (new snapd build: system key changes)")
	}
	e.newInstance(data)
	s := e.snapshot()
	c.Logf("  after restart: conns=%s repo=%s", verifKeys(s.conns), verifKeys(s.repo))
	for i, pre := range pres {
		// what startup housekeeping (stale connections of removed snaps,
		// refreshed static attributes) changed is not the doing of the
		// change in progress
		if d := verifMapDiff(before.conns, s.conns); d != "" && i == 0 {
			c.Count("probe:startup-changed-conns-mid-change")
			c.Logf("  startup changed persisted conns: %s", d)
		}
		verifRebase(pre.conns, before.conns, s.conns)
		verifRebase(pre.repo, before.repo, s.repo)
		verifRebase(pre.repoSt, before.repoSt, s.repoSt)
	}
	e.checkSync(s, "after-restart", op, fault)
}

// ---------------------------------------------------------------------------
// Task ids are handed out in the order handlers create tasks, which for
// auto-connect / auto-disconnect is Go map order. Everything that orders or
// names tasks therefore goes by (change, kind, summary): the summaries name
// the plug, slot, hook and snap.
//
// Two hook tasks of one change can carry the same summary (the
// disconnect-plug hook runs once per connection of the plug), so hook tasks
// are further told apart by the connect/disconnect task they belong to.
// Labels never change; they are cached per run (all callers hold the state
// lock).
var verifLabels = map[string]string{}

func verifTaskLabel(t *state.Task) string {
	if l, ok := verifLabels[t.ID()]; ok {
		return l
	}
	l := t.Kind() + "<" + t.Summary() + ">"
	if t.Kind() == "run-hook" {
		var hctx map[string]interface{}
		if err := t.Get("hook-context", &hctx); err == nil {
			if id, ok := hctx["attrs-task"].(string); ok {
				if at := t.State().Task(id); at != nil {
					l += "@<" + at.Summary() + ">"
				}
			}
		}
	}
	verifLabels[t.ID()] = l
	return l
}

func verifTaskLess(a, b *state.Task) bool {
	ca, cb := 0, 0
	if c := a.Change(); c != nil {
		ca, _ = strconv.Atoi(c.ID())
	}
	if c := b.Change(); c != nil {
		cb, _ = strconv.Atoi(c.ID())
	}
	if ca != cb {
		return ca < cb
	}
	la, lb := verifTaskLabel(a), verifTaskLabel(b)
	if la != lb {
		return la < lb
	}
	x, _ := strconv.Atoi(a.ID())
	y, _ := strconv.Atoi(b.ID())
	return x < y
}

// ---------------------------------------------------------------------------
// generating and driving changes

type verifChange struct {
	id, summary string
	plan        *verifPlan
	targets     []string // connection ids a connect/disconnect/forget change is about
	snap        string   // the snap an install/remove change is about
	born        int      // simulator step at which it was created
	status      state.Status
}

// touches: may this change legitimately alter the entry of connection id?
func (ch *verifChange) touches(id string) bool {
	for _, t := range ch.targets {
		if t == id {
			return true
		}
	}
	return ch.snap != "" && (strings.HasPrefix(id, ch.snap+":") || strings.Contains(id, " "+ch.snap+":"))
}

func (ch *verifChange) failed() bool { return ch.status != state.DoneStatus }

func (ch *verifChange) fault() string {
	if !ch.failed() {
		return "none"
	}
	return ch.plan.faultName()
}

// withLock runs f with the state lock held and releases it also when snapd
// code panics inside (the panic becomes a <prop>/panic violation; a lock left
// behind would hang the tear-down).
func (e *verifEnv) withLock(f func()) {
	st := e.in.st
	st.Lock()
	defer st.Unlock()
	f()
}

func (e *verifEnv) statusLine(chgID string) string {
	st := e.in.st
	st.Lock()
	defer st.Unlock()
	chg := st.Change(chgID)
	if chg == nil {
		return "<gone>"
	}
	ts := chg.Tasks()
	sort.Slice(ts, func(i, j int) bool { return verifTaskLess(ts[i], ts[j]) })
	var sb strings.Builder
	for _, t := range ts {
		fmt.Fprintf(&sb, "%s=%v; ", verifTaskLabel(t), t.Status())
	}
	return sb.String()
}

func verifSideInfo(name string) *snap.SideInfo {
	return &snap.SideInfo{RealName: name, Revision: snap.R(1)}
}

// submit asks snapd for one operation, chosen by looking at the current
// situation (mostly) or blindly (sometimes). It returns nil when the
// operation was a restart or was refused.
func (e *verifEnv) submit(label string, first *verifChange, withFault bool, step int) *verifChange {
	c := e.c
	overlapping := first != nil
	st := e.in.st
	repo := e.in.mgr.Repository()
	pre := e.snapshot()
	present := map[string]bool{}
	for _, n := range verifSnapNames {
		present[n] = e.installed(n)
	}
	var canConnect, canDisconnect, canForget []verifPair
	for i, p := range verifPairs {
		if _, active := pre.active[p.id()]; !active && present[p.ps] && present[p.ss] {
			if i == verifNGood && !c.Chance("op.mismatched-pair", 1, 4) {
				continue
			}
			canConnect = append(canConnect, p)
		}
	}
	for _, p := range verifPairs[:verifNGood] {
		if _, ok := pre.active[p.id()]; ok {
			canDisconnect = append(canDisconnect, p)
		}
		if _, ok := pre.conns[p.id()]; ok {
			canForget = append(canForget, p)
		}
	}
	var canInstall, canRemove []string
	for _, n := range verifSnapNames {
		if present[n] {
			canRemove = append(canRemove, n)
		} else {
			canInstall = append(canInstall, n)
		}
	}
	if overlapping && len(first.targets) > 0 && c.Chance("op.overlap-disjoint", 1, 2) {
		// a request that shares no snap with the change in progress (and
		// therefore passes the conflict checks)
		busy := map[string]bool{}
		for _, id := range first.targets {
			if ref, err := interfaces.ParseConnRef(id); err == nil {
				busy[ref.PlugRef.Snap] = true
				busy[ref.SlotRef.Snap] = true
			}
		}
		free := func(ps []verifPair) []verifPair {
			var r []verifPair
			for _, p := range ps {
				if !busy[p.ps] && !busy[p.ss] {
					r = append(r, p)
				}
			}
			return r
		}
		canConnect, canDisconnect, canForget = free(canConnect), free(canDisconnect), free(canForget)
	}
	var kinds []string
	add := func(k string, w int, ok bool) {
		for i := 0; ok && i < w; i++ {
			kinds = append(kinds, k)
		}
	}
	add("connect", 3, len(canConnect) > 0)
	add("disconnect", 3, len(canDisconnect) > 0)
	add("forget", 1, len(canForget) > 0)
	add("install", 2, len(canInstall) > 0)
	add("remove", 2, len(canRemove) > 0)
	add("restart", 1, !overlapping)
	add("blind", 1, true)
	opk := kinds[c.Draw("op", len(kinds))]
	if opk == "blind" {
		// not looking at the situation: may well be refused
		opk = []string{"connect", "disconnect", "forget", "install", "remove"}[c.Draw("op.blind", 5)]
		canConnect, canDisconnect, canForget = verifPairs, verifPairs[:verifNGood], verifPairs[:verifNGood]
		canInstall, canRemove = verifSnapNames, verifSnapNames
		c.Count("op-blind")
	}
	ch := &verifChange{born: step}
	plan := &verifPlan{setupTouched: map[string]bool{}, op: opk, pre: pre}
	ch.plan = plan
	var tss []*state.TaskSet
	var apiErr error
	switch opk {
	case "connect":
		p := canConnect[c.Draw("op.pair", len(canConnect))]
		ch.targets = []string{p.id()}
		ch.summary = "connect " + p.id()
		e.withLock(func() {
			ts, err := ifacestate.Connect(st, p.ps, p.pn, p.ss, p.sn)
			if err != nil {
				apiErr = err
			} else {
				tss = append(tss, ts)
			}
		})
	case "disconnect", "forget":
		forget := opk == "forget"
		cands := canDisconnect
		if forget {
			cands = canForget
		}
		p := cands[c.Draw("op.pair", len(cands))]
		ch.summary = opk + " " + p.id()
		e.withLock(func() {
			var refs []*interfaces.ConnRef
			var err error
			if c.Chance("op.short-form", 1, 4) {
				// snap disconnect <snap>:<plug>: every connection of the plug
				ch.summary = opk + " " + p.ps + ":" + p.pn
				refs, err = e.in.mgr.ResolveDisconnect(p.ps, p.pn, "", "", forget)
				sort.Slice(refs, func(i, j int) bool { return refs[i].ID() < refs[j].ID() })
				if len(refs) > 1 {
					c.Count("probe:multi-connection-disconnect")
				}
			} else {
				refs, err = e.in.mgr.ResolveDisconnect(p.ps, p.pn, p.ss, p.sn, forget)
			}
			if err != nil {
				apiErr = err
				return
			}
			inactive := 0
			for _, ref := range refs {
				var ts *state.TaskSet
				if forget {
					if _, cerr := repo.Connection(ref); cerr != nil {
						c.Count("probe:forget-inactive-connection")
						inactive++
					}
					ts, err = ifacestate.Forget(st, repo, ref)
				} else {
					var conn *interfaces.Connection
					conn, err = repo.Connection(ref)
					if err == nil {
						ts, err = ifacestate.Disconnect(st, conn)
					}
				}
				if err != nil {
					apiErr = err
					tss = nil
					return
				}
				tss = append(tss, ts)
				ch.targets = append(ch.targets, ref.ID())
			}
			if forget && inactive > 0 && inactive == len(refs) {
				// forgetting only remembered, not established connections is
				// a different request as far as classes go
				plan.op = "forget-inactive"
			}
		})
	case "install":
		name := canInstall[c.Draw("op.snap", len(canInstall))]
		ch.summary = "install " + name
		ch.snap = name
		if present[name] {
			apiErr = fmt.Errorf("snap %q is already installed", name)
			break
		}
		e.withLock(func() {
			if err := snapstate.CheckChangeConflict(st, name, nil); err != nil {
				apiErr = err
				return
			}
			snapsup := &snapstate.SnapSetup{SideInfo: verifSideInfo(name)}
			sp := st.NewTask("setup-profiles", "setup profiles of "+name)
			sp.Set("snap-setup", snapsup)
			ln := st.NewTask("link-snap", "link "+name)
			ln.Set("snap-setup-task", sp.ID())
			ln.WaitFor(sp)
			ac := st.NewTask("auto-connect", "auto-connect "+name)
			ac.Set("snap-setup-task", sp.ID())
			ac.WaitFor(ln)
			tss = append(tss, state.NewTaskSet(sp, ln, ac))
		})
	case "remove":
		name := canRemove[c.Draw("op.snap", len(canRemove))]
		ch.summary = "remove " + name
		ch.snap = name
		if !present[name] {
			apiErr = fmt.Errorf("snap %q is not installed", name)
			break
		}
		legacy := c.Chance("op.legacy-discard-conns", 1, 4)
		e.withLock(func() {
			if err := snapstate.CheckChangeConflict(st, name, nil); err != nil {
				apiErr = err
				return
			}
			snapsup := &snapstate.SnapSetup{SideInfo: verifSideInfo(name)}
			ad := st.NewTask("auto-disconnect", "disconnect interfaces of "+name)
			ad.Set("snap-setup", snapsup)
			prev := ad
			all := []*state.Task{ad}
			tkinds := []string{"unlink-snap", "remove-profiles", "discard-snap"}
			if legacy {
				tkinds = append(tkinds, "discard-conns")
				ch.summary += " (+discard-conns)"
			}
			for _, k := range tkinds {
				t := st.NewTask(k, k+" "+name)
				t.Set("snap-setup-task", ad.ID())
				t.WaitFor(prev)
				prev = t
				all = append(all, t)
			}
			tss = append(tss, state.NewTaskSet(all...))
		})
	default: // restart between changes
		c.Logf("%s: restart", label)
		e.restart("idle", "none", nil)
		return nil
	}
	if apiErr != nil || len(tss) == 0 {
		c.Logf("%s: %s refused: %v", label, ch.summary, apiErr)
		c.Count("op-refused")
		if overlapping {
			if _, ok := apiErr.(*snapstate.ChangeConflictError); ok {
				c.Count("probe:overlapping-op-refused-as-conflict")
			}
		}
		return nil
	}
	// the failure point of this change
	if withFault {
		switch c.Draw("fault.kind", 8) {
		case 3, 7:
			plan.kind = verifFaultTask
			plan.at = c.Draw("fault.task", 16)
		case 4:
			plan.kind = verifFaultHook
			plan.at = c.Draw("fault.hook", 8)
		case 5:
			plan.kind = verifFaultSetup
			plan.at = c.Draw("fault.setup", 6)
		case 6:
			plan.kind = verifFaultAbort
			if c.Chance("fault.step-late", 1, 2) {
				plan.at = c.Draw("fault.step", 48)
			} else {
				plan.at = c.Draw("fault.step", 6)
			}
		}
	}
	if !overlapping && c.Chance("restart.mid-change", 1, 8) {
		plan.restartAt = 1 + c.Draw("restart.step", 12)
	}
	plan.dyn = c.Draw("hook.dynamic-attr", 3)
	st.Lock()
	chg := st.NewChange(plan.op, ch.summary)
	for _, ts := range tss {
		chg.AddAll(ts)
	}
	ch.id = chg.ID()
	st.Unlock()
	e.plans[ch.id] = plan
	c.Logf("%s: %s (change %s) fault=%s@%d restart@%d dyn=%d; before: conns=%s repo=%s", label, ch.summary, ch.id,
		verifFaultNames[plan.kind], plan.at, plan.restartAt, plan.dyn, verifKeys(pre.conns), verifKeys(pre.repo))
	c.Count("op:" + plan.op)
	if overlapping {
		c.Count("probe:overlapping-change-accepted")
	}
	return ch
}

// driveAll runs the ensure loop until the given change (and the one that may
// be submitted while it is in progress) have settled. false: stop the run.
func (e *verifEnv) driveAll(first *verifChange, overlapAt int, faultsOn bool) ([]*verifChange, bool) {
	c := e.c
	active := []*verifChange{first}
	idle := 0
	lastSig, stale := "", 0
	for step := 1; ; step++ {
		if step > 1500 {
			c.Fatalf("change %s (%s) does not settle within 1500 simulator steps: %s", first.id, first.summary, e.statusLine(first.id))
		}
		if err := e.in.o.StateEngine().Ensure(); err != nil {
			c.Logf("ensure: %v", err)
		}
		synctest.Wait()
		st := e.in.st
		allReady := true
		st.Lock()
		for _, ch := range active {
			chg := st.Change(ch.id)
			ch.status = chg.Status()
			if !chg.IsReady() {
				allReady = false
			}
		}
		st.Unlock()
		// the ensure pass kills the tomb of every aborted task: a hook in
		// flight dies like the real hook process would
		for _, l := range e.drainKilled() {
			c.Logf("  killed by abort: %s", l)
			c.Count("probe:hook-killed-by-abort")
		}
		gates := e.parked()
		if allReady && len(gates) == 0 {
			return active, true
		}
		e.reachProbes(active)
		if overlapAt != 0 && step == overlapAt && len(active) == 1 {
			// a second request arrives while the first change is in progress;
			// only one of the two carries a failure point
			second := e.submit(fmt.Sprintf("  OVERLAP at step %d", step), first, faultsOn && first.plan.kind == verifFaultNone, step)
			if second != nil {
				active = append(active, second)
			}
			continue
		}
		aborted := false
		for _, ch := range active {
			p := ch.plan
			if p.kind == verifFaultAbort && !p.fired && step-ch.born == p.at+1 {
				// like the daemon: a change with nothing pending cannot be aborted
				isReady := false
				e.withLock(func() {
					chg := st.Change(ch.id)
					isReady = chg.IsReady()
					if !isReady {
						chg.Abort()
					}
				})
				if isReady {
					continue
				}
				p.fired = true
				c.Count("fault:abort")
				for _, g := range gates {
					if g.cur != nil && g.cur.chg == ch.id {
						c.Count("probe:abort-while-handler-in-flight")
						break
					}
				}
				c.Logf("ABORT change %s at step %d: %s", ch.id, step, e.statusLine(ch.id))
				aborted = true
			}
		}
		if aborted {
			continue
		}
		if p := first.plan; p.restartAt != 0 && !p.restarted && step == p.restartAt {
			p.restarted = true
			c.Count("probe:restart-mid-change")
			if len(gates) > 0 {
				c.Count("probe:restart-while-handler-in-flight")
			}
			c.Logf("restart in the middle of change %s at step %d: %s", first.id, step, e.statusLine(first.id))
			var pres []*verifSnapshot
			for _, ch := range active {
				pres = append(pres, ch.plan.pre)
			}
			// filed under the failure point that already fired, if any
			fault := "none"
			for _, ch := range active {
				if ch.plan.fired {
					fault = verifFaultNames[ch.plan.kind]
					break
				}
			}
			if len(active) > 1 {
				fault += ".overlapped"
			}
			e.restart(p.op+"-in-progress", fault, pres)
			if len(c.Violations) > 0 {
				return active, false
			}
			continue
		}
		if len(gates) > 0 {
			// which of the parked goroutines proceeds is the tape's choice
			g := gates[0]
			if len(gates) > 1 {
				g = gates[c.Draw("sched", len(gates))]
				c.Count("probe:scheduler-had-a-choice")
				c.Logf("  release %s (%d parked)", g.label, len(gates))
			} else if g.kind != "start" {
				c.Logf("  release %s", g.label)
			}
			e.release(g)
			idle = 0
			continue
		}
		// nothing is parked: did the last passes get anywhere? (a task that
		// asks for a retry again and again runs but changes nothing)
		sig := ""
		for _, ch := range active {
			sig += e.statusLine(ch.id) + "|"
		}
		if sig == lastSig {
			stale++
		} else {
			lastSig, stale = sig, 0
		}
		if e.progress && stale <= 60 {
			e.progress = false
			idle = 0
			continue
		}
		idle++
		if stale > 60 {
			// Sixty ensure passes (half a simulated minute) with nothing in
			// flight after which no task has another status than before:
			// the change will never settle. The
			// statement only speaks about settled changes, so this is no
			// verdict of C22; the run ends here (the stuck change blocks
			// further requests on its snaps). Seen when an abort arrives
			// after the runner marked auto-connect / auto-disconnect as
			// Doing and before its handler body ran: the handler injects
			// tasks in Do status that wait for it while it goes to Undo and
			// waits for them (see NOTES.md).
			c.Count("stalled-change-abandoned")
			for _, ch := range active {
				c.Logf("STALLED change %s: %s", ch.id, e.statusLine(ch.id))
			}
			return active, false
		}
		if idle >= 2 {
			// nothing running, nothing was started by two ensure passes:
			// tasks wait for a retry time
			time.Sleep(500 * time.Millisecond)
			synctest.Wait()
			c.Count("probe:clock-advanced-for-retry")
			c.Logf("  clock +500ms")
		}
	}
}

// reachProbes makes visible whether two interface-manipulating tasks could
// have overlapped: a runnable one that the runner did not start while the
// handler of another is in flight was held back by the real predicate.
func (e *verifEnv) reachProbes(active []*verifChange) {
	if e.ifaceRunning == 0 {
		return
	}
	st := e.in.st
	st.Lock()
	defer st.Unlock()
	now := time.Now()
	for _, ch := range active {
		chg := st.Change(ch.id)
		if chg == nil {
			continue
		}
		for _, t := range chg.Tasks() {
			if !verifIfaceKinds[t.Kind()] || t.AtTime().After(now) {
				continue
			}
			runnable := false
			switch t.Status() {
			case state.DoStatus:
				runnable = true
				for _, w := range t.WaitTasks() {
					if w.Status() != state.DoneStatus {
						runnable = false
					}
				}
			case state.UndoStatus:
				runnable = true
				for _, h := range t.HaltTasks() {
					if !h.Status().Ready() {
						runnable = false
					}
				}
			}
			if !runnable {
				continue
			}
			key := t.Status().String() + " " + verifTaskLabel(t)
			if !e.heldSeen[key] {
				e.heldSeen[key] = true
				e.c.Count("probe:interface-task-held-back-while-another-in-flight")
			}
		}
	}
}

// evaluate applies the two sentences of the statement once everything that
// was in progress has settled.
func (e *verifEnv) evaluate(active []*verifChange) {
	c := e.c
	post := e.snapshot()
	// the change an inconsistency is filed under: the one with the failure point
	blamed := active[0]
	setupFaultFired := false
	for _, ch := range active {
		if ch.plan.fired && ch.plan.kind == verifFaultSetup {
			setupFaultFired = true
		}
	}
	for _, pick := range []func(*verifChange) bool{
		func(ch *verifChange) bool { return ch.plan.fired },
		func(ch *verifChange) bool { return ch.failed() },
	} {
		found := false
		for _, ch := range active {
			if pick(ch) {
				blamed, found = ch, true
				break
			}
		}
		if found {
			break
		}
	}
	for _, ch := range active {
		if ch.failed() {
			c.Count("probe:failed-change")
			if ch.fault() == "natural" {
				c.Count("fault:natural-failure")
			}
		}
		if ch.plan.fired || ch.plan.restarted || ch.failed() || len(active) > 1 {
			c.Nontrivial()
		}
		c.Logf("SETTLED change %s %v (fault %s): %s", ch.id, ch.status, ch.fault(), e.statusLine(ch.id))
	}
	c.Logf("  after: conns=%s repo=%s", verifKeys(post.conns), verifKeys(post.repo))

	// sentence 1: a failed connect or disconnect change leaves everything as it was
	for _, ch := range active {
		if !ch.failed() || len(ch.targets) == 0 {
			continue
		}
		plan := ch.plan
		pre := plan.pre
		fault := ch.fault()
		c.Add("transaction-evaluations", 1)
		// entries another change in progress at the same time is about are
		// that change's business
		foreign := func(id string) bool {
			for _, o := range active {
				if o != ch && o.touches(id) {
					return true
				}
			}
			return false
		}
		filter := func(m map[string]string) map[string]string {
			if len(active) == 1 {
				return m
			}
			r := map[string]string{}
			for k, v := range m {
				if !foreign(k) {
					r[k] = v
				}
			}
			return r
		}
		snapSet := map[string]bool{}
		for _, id := range ch.targets {
			if ref, err := interfaces.ParseConnRef(id); err == nil {
				snapSet[ref.PlugRef.Snap] = true
				snapSet[ref.SlotRef.Snap] = true
			}
			if _, ok := pre.conns[id]; ok {
				if !strings.Contains(pre.conns[id], `"undesired":true`) {
					c.Count("probe:failed-change-on-existing-connection")
				} else {
					c.Count("probe:failed-change-over-undesired-entry")
				}
			}
		}
		if d := verifMapDiff(filter(pre.conns), filter(post.conns)); d != "" {
			c.Violate(fmt.Sprintf("C22/conns-not-restored.%s.%s", plan.op, fault),
				"%s failed (%s, status %v) but the persisted connections differ from before the change (before vs after): %s", ch.summary, fault, ch.status, d)
		}
		if d := verifMapDiff(filter(pre.repo), filter(post.repo)); d != "" {
			c.Violate(fmt.Sprintf("C22/repo-not-restored.%s.%s", plan.op, fault),
				"%s failed (%s, status %v) but the in-memory connections differ from before the change (before vs after): %s", ch.summary, fault, ch.status, d)
		} else if d := verifMapDiff(filter(pre.repoSt), filter(post.repoSt)); d != "" {
			c.Violate(fmt.Sprintf("C22/repo-attrs-not-restored.%s.%s", plan.op, fault),
				"%s failed (%s, status %v) but static attributes of in-memory connections differ (before vs after): %s", ch.summary, fault, ch.status, d)
		}
		if setupFaultFired && !(plan.fired && plan.kind == verifFaultSetup) {
			// the other change had the backend fail: the profiles it left
			// behind are filed under that change, not this one
			continue
		}
		for _, sn := range verifSnapNames {
			if !snapSet[sn] || !plan.setupTouched[sn] {
				continue
			}
			p := e.profiles[sn]
			if p == nil || !p.ok || p.removed {
				// the last attempt to write this snap's profile was the injected failure
				continue
			}
			var ids []string
			for id := range post.repo {
				if strings.HasPrefix(id, sn+":") || strings.Contains(id, " "+sn+":") {
					ids = append(ids, id)
				}
			}
			sort.Strings(ids)
			want := strings.Join(ids, ",")
			c.Add("profile-evaluations", 1)
			if p.seen != want {
				c.Violate(fmt.Sprintf("C22/profile-not-regenerated.%s.%s", plan.op, fault),
					"%s failed (%s, status %v): the security profile of %q was last generated from connections [%s] but the restored set is [%s]", ch.summary, fault, ch.status, sn, p.seen, want)
			}
		}
	}
	// sentence 2: after every settled change persisted == memory (not
	// reported a second time when sentence 1 already found one side not
	// restored)
	if len(c.Violations) == 0 {
		fault := blamed.fault()
		if len(active) > 1 {
			// what only shows when two changes were in progress together is
			// filed apart from what a single change does
			fault += ".overlapped"
		}
		e.checkSync(post, "after-settled-change", blamed.plan.op, fault)
	}
	for _, ch := range active {
		delete(e.plans, ch.id)
	}
}

// ---------------------------------------------------------------------------
// the run

var (
	verifDBOnce   sync.Once
	verifDB       *asserts.Database
	verifRoot     string
	verifYamlOnFS = map[string]string{}
)

func verifRunC22(c *verifsim.Ctx) {
	t0 := time.Now()
	// one scratch root per worker process (below the worker's TMPDIR, which
	// the driver removes); the only files are three snap.yaml, three
	// dummy .snap files and the system key, all reset at the start of a run
	if verifRoot == "" {
		tmp, err := os.MkdirTemp("", "verifc22")
		if err != nil {
			c.Fatalf("%v", err)
		}
		verifRoot = tmp
		debug.SetGCPercent(400)
	}
	dirs.SetRootDir(verifRoot)
	defer dirs.SetRootDir("")
	if err := os.MkdirAll(filepath.Dir(dirs.SnapSystemKeyFile), 0755); err != nil {
		c.Fatalf("%v", err)
	}
	os.Remove(dirs.SnapSystemKeyFile)
	var restores []func()
	defer func() {
		for i := len(restores) - 1; i >= 0; i-- {
			restores[i]()
		}
	}()
	restores = append(restores, osutil.MockMountInfo(""))
	restores = append(restores, snap.MockSanitizePlugsSlots(func(*snap.Info) {}))
	_, rl := logger.MockLogger()
	restores = append(restores, rl)
	restores = append(restores, seccomp_compiler.MockCompilerVersionInfo("abcdef 1.2.3 1234abcd -"))
	restores = append(restores, ifacestate.MockSnapdAppArmorServiceIsDisabled(func() bool { return false }))
	restores = append(restores, ifacestate.MockConnectRetryTimeout(time.Second))
	restores = append(restores, interfaces.MockSystemKey(verifSystemKey(0)))
	model := assertstest.FakeAssertion(map[string]interface{}{
		"type": "model", "authority-id": "my-brand", "series": "16", "brand-id": "my-brand", "model": "my-model",
		"gadget": "gadget", "kernel": "krnl", "architecture": "amd64", "timestamp": time.Now().Format(time.RFC3339),
	}).(*asserts.Model)
	restores = append(restores, snapstatetest.MockDeviceModel(model))
	state.VerifOrderTasks = func(ts []*state.Task) {
		sort.Slice(ts, func(i, j int) bool { return verifTaskLess(ts[i], ts[j]) })
	}
	state.VerifOrderChanges = func(cs []*state.Change) {
		sort.Slice(cs, func(i, j int) bool {
			a, _ := strconv.Atoi(cs[i].ID())
			b, _ := strconv.Atoi(cs[j].ID())
			return a < b
		})
	}
	defer func() { state.VerifOrderTasks = nil; state.VerifOrderChanges = nil }()
	verifDBOnce.Do(func() {
		db, err := asserts.OpenDatabase(&asserts.DatabaseConfig{Backstore: asserts.NewMemoryBackstore(), Trusted: sysdb.Trusted()})
		if err != nil {
			panic(verifsim.HarnessError{Msg: err.Error()})
		}
		verifDB = db
	})

	verifLabels = map[string]string{}
	e := &verifEnv{c: c, db: verifDB, plans: map[string]*verifPlan{}, profiles: map[string]*verifProfile{}, hooks: map[string]bool{}, heldSeen: map[string]bool{}}
	be := &verifSecBackend{e: e}
	restores = append(restores, ifacestate.MockSecurityBackends([]interfaces.SecurityBackend{be}))
	restores = append(restores, hookstate.MockRunHook(e.runHook))

	// swarm configuration
	faultsOn := c.Chance("cfg.faults-on", 3, 4)
	e.parkOn = c.Chance("cfg.park-handlers", 3, 4)
	overlapOn := c.Chance("cfg.overlapping-requests", 1, 2)
	hv := c.Draw("cfg.hooks", 4) // 0 none, 1 consumer, 2 consumer+producer, 3 all
	e.hooks["consumer"] = hv >= 1
	e.hooks["producer"] = hv >= 2
	e.hooks["relay"] = hv >= 3
	e.hooks["alpha"] = hv >= 3
	e.hooks["beta"] = hv >= 3
	absent := c.Draw("cfg.absent-snap", 6) // 0: all five installed
	nops := 1 + c.Draw("cfg.nops", 8)
	if c.Tier == "thorough" {
		nops += c.Draw("cfg.nops-more", 5)
	}

	// snaps on disk (all of them) and in the state (the installed ones)
	sideInfo := verifSideInfo
	for _, name := range verifSnapNames {
		y := verifSnapYaml(name, e.hooks[name])
		if verifYamlOnFS[name] == y {
			continue
		}
		md := filepath.Join(snap.MountDir(name, snap.R(1)), "meta")
		if err := os.MkdirAll(md, 0755); err != nil {
			c.Fatalf("%v", err)
		}
		if err := os.WriteFile(filepath.Join(md, "snap.yaml"), []byte(y), 0644); err != nil {
			c.Fatalf("%v", err)
		}
		mf := snap.MountFile(name, snap.R(1))
		os.MkdirAll(filepath.Dir(mf), 0755)
		if err := os.WriteFile(mf, []byte(name+"-1"), 0644); err != nil {
			c.Fatalf("%v", err)
		}
		verifYamlOnFS[name] = y
	}
	// the very first state is produced by a throw-away State whose JSON
	// the first instance then loads, like a snapd starting on an existing
	// state file
	{
		ibe := &verifCkptBackend{}
		ist := state.New(ibe)
		ist.Lock()
		present := map[string]bool{}
		for i, name := range verifSnapNames {
			if absent == i+1 {
				continue
			}
			present[name] = true
			si := sideInfo(name)
			snapstate.Set(ist, name, &snapstate.SnapState{Active: true, Sequence: snapstatetest.NewSequenceFromSnapSideInfos([]*snap.SideInfo{si}), Current: si.Revision, SnapType: "app"})
		}
		conns := map[string]interface{}{}
		for i, p := range verifPairs[:verifNGood] {
			if !present[p.ps] || !present[p.ss] {
				continue
			}
			iface := verifPairIfaces[i]
			auto := iface == "test" || iface == "test3"
			// as doConnect / doDisconnect leave them
			entry := map[string]interface{}{"interface": iface}
			if i == 0 {
				entry["plug-static"] = map[string]interface{}{"attr1": "value1"}
				entry["slot-static"] = map[string]interface{}{"attr2": "value2"}
			}
			switch c.Draw("init.conn", 4) {
			case 1:
				conns[p.id()] = entry
			case 2:
				if auto {
					entry["auto"] = true
				}
				conns[p.id()] = entry
			case 3:
				if auto {
					conns[p.id()] = map[string]interface{}{"interface": iface, "auto": true, "undesired": true}
				}
			}
		}
		if len(conns) > 0 {
			ist.Set("conns", conns)
		}
		ist.Unlock()
		c.Logf("config: faults=%v park=%v hooks=%d absent=%d nops=%d initial conns=%s", faultsOn, e.parkOn, hv, absent, nops, verifCanon(conns))
		e.newInstance(ibe.last)
	}
	defer func() {
		// leave nothing behind in the bubble: let what is in flight finish,
		// still one goroutine at a time (no ensure pass starts anything new)
		for i := 0; i < 1000; i++ {
			gs := e.parked()
			if len(gs) == 0 {
				break
			}
			e.release(gs[0])
		}
		e.in.o.Stop()
		synctest.Wait()
	}()
	s0 := e.snapshot()
	c.Logf("start: conns=%s repo=%s", verifKeys(s0.conns), verifKeys(s0.repo))
	e.checkSync(s0, "after-restart", "first-start", "none")
	if len(c.Violations) > 0 {
		return
	}

	for opi := 0; opi < nops; opi++ {
		if len(c.Violations) > 0 {
			return
		}
		first := e.submit(fmt.Sprintf("OP %d", opi), nil, faultsOn, 0)
		if first == nil {
			continue
		}
		overlapAt := 0
		if overlapOn && c.Chance("op.overlap", 1, 3) {
			overlapAt = 1 + c.Draw("op.overlap-step", 6)
		}
		active, ok := e.driveAll(first, overlapAt, faultsOn)
		if !ok || len(c.Violations) > 0 {
			return
		}
		e.evaluate(active)
	}
	if len(c.Violations) == 0 && c.Chance("final-restart", 1, 2) {
		e.restart("idle", "none", nil)
	}
	c.SimTime = time.Since(t0)
}

var verifEngineC22 = &verifsim.Engine{
	Name:   "F: interface manager + repository + hook manager on a real state engine, simulated backend/hooks",
	Bubble: true,
	Run:    verifRunC22,
	Real: []string{
		"overlord/ifacestate: Manager, StartUp (reloadConnections, removeStaleConnections, profile regeneration), Connect/Disconnect/Forget/ResolveDisconnect, handlers connect, disconnect, setup-profiles, remove-profiles, auto-connect, auto-disconnect, discard-conns with their undo handlers",
		"interfaces.Repository and policy checks (builtin base declaration)",
		"overlord/hookstate HookManager (run-hook tasks with undo hooks, interface hook handlers, attrs-task context)",
		"overlord/state: State, Change, Task, TaskRunner, checkpoint JSON and ReadState on restart; overlord.StateEngine",
	},
	Stubs: []string{
		"security backend (records the connection set each profile is generated from; can fail; can park)",
		"hook runner via hookstate.MockRunHook (scripted exit status, emulated 'snapctl set' of a dynamic attribute; can park; killed on stop)",
		"snapstate: link-snap / unlink-snap / discard-snap reduced to their effect on the snap's state entry; snaps are snap.yaml files in a scratch root",
		"checkpoint backend keeps the last JSON in memory; device model and assertion database are fixtures",
		"Overlord.Loop (the simulator calls StateEngine.Ensure and advances the fake clock)",
	},
}

func TestVerifSim(t *testing.T) {
	verifsim.Main(t, map[string]*verifsim.Engine{"C22": verifEngineC22})
}
