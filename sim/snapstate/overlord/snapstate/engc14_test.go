package snapstate_test

// C14: no two unfinished changes ever operate on the same snap. Several
// simulated API clients issue requests exactly as the daemon does
// (Lock -> snapstate.X -> NewChange+AddAll -> Unlock); the store is wrapped so
// that every store call made while the state lock is dropped parks the
// caller, which lets another request, or task progress of a running change,
// slip in exactly there. The oracle keeps its own books about which accepted
// requests' changes are unfinished and on which snap.

import (
	"context"
	"encoding/json"
	"fmt"
	"sort"
	"testing/synctest"
	"time"

	check "gopkg.in/check.v1"

	"github.com/snapcore/snapd/internal/verifsim"
	"github.com/snapcore/snapd/overlord/auth"
	"github.com/snapcore/snapd/overlord/configstate/config"
	"github.com/snapcore/snapd/overlord/snapstate"
	"github.com/snapcore/snapd/overlord/snapstate/snapstatetest"
	"github.com/snapcore/snapd/overlord/state"
	"github.com/snapcore/snapd/snap"
	"github.com/snapcore/snapd/store"
)

type verifStorePark struct {
	seq  int
	what string
	ch   chan struct{}
}

type verifYieldStore struct {
	*fakeStore
	s *verifEngC
}

func (y *verifYieldStore) yield(what string) {
	s := y.s
	if !s.storeYield || s.state.VerifLockHeld() {
		return
	}
	p := &verifStorePark{what: what, ch: make(chan struct{})}
	s.mu.Lock()
	p.seq = s.storeSeq
	s.storeSeq++
	s.storeParked = append(s.storeParked, p)
	s.mu.Unlock()
	<-p.ch
}

func (y *verifYieldStore) SnapAction(ctx context.Context, currentSnaps []*store.CurrentSnap, actions []*store.SnapAction, assertQuery store.AssertionQuery, user *auth.UserState, opts *store.RefreshOptions) ([]store.SnapActionResult, []store.AssertionResult, error) {
	y.yield("snap-action")
	res, ares, err := y.fakeStore.SnapAction(ctx, currentSnaps, actions, assertQuery, user, opts)
	for i := range res {
		// the fixture's store answers for alias-snap under another name
		if res[i].Info != nil && res[i].Info.SnapID == "alias-snap-id" {
			res[i].Info.RealName = "alias-snap"
		}
	}
	return res, ares, err
}

func (y *verifYieldStore) SnapInfo(ctx context.Context, spec store.SnapSpec, user *auth.UserState) (*snap.Info, error) {
	y.yield("snap-info")
	return y.fakeStore.SnapInfo(ctx, spec, user)
}

type verifReq struct {
	id        int
	snapName  string
	snaps     []string // every snap the request names
	affected  []string // snaps the accepted change operates on
	kind      string
	done      chan struct{}
	finished  bool
	judged    bool
	err       error
	chg       *state.Change
	chgID     string
	startJSON string // SnapState when the request entered snapstate
	endJSON   string // ... and when it returned
	startRec  map[string]string
	endRec    map[string]string
	tasks0    int    // task/change counts when the request last resumed (or started)
	chgs0     int
	tasks1    int
	chgs1     int
	linked0   int // tasks linked to a change
	linked1   int
	exclusive bool // an exclusive change was unfinished when it returned
	others    []string
}

func verifSnapStateJSON(st *state.State, name string) string {
	var snapst snapstate.SnapState
	if err := snapstate.Get(st, name, &snapst); err != nil {
		return "absent"
	}
	b, _ := json.Marshal(&snapst)
	return string(b)
}

func verifSnapStatesJSON(st *state.State, names []string) string {
	out := ""
	for _, n := range names {
		out += n + "=" + verifSnapStateJSON(st, n) + ";"
	}
	return out
}

func verifIntersects(a, b []string) bool {
	for _, x := range a {
		for _, y := range b {
			if x == y {
				return true
			}
		}
	}
	return false
}

func verifBodyC14(s *verifEngC, gc *check.C) {
	c := s.ctx
	st := s.state
	s.wrapHandlers()
	// alias-snap is the fixture's snap with applications, so that alias
	// changes on it succeed and alter the record's alias table
	// some-snap_foo is a parallel instance of some-snap: a snap of its own as far
	// as changes are concerned
	names := []string{"some-snap", "some-other-snap", "alias-snap", "some-snap_foo"}
	ids := map[string]string{"some-snap": "some-snap-id", "some-other-snap": "some-other-snap-id", "alias-snap": "alias-snap-id", "some-snap_foo": "some-snap-id"}
	// requests may also name a snap that is not installed at the start
	reqNames := []string{"some-snap", "some-other-snap", "alias-snap", "some-new-snap"}
	nextRev := map[string]int{}

	st.Lock()
	trpi := config.NewTransaction(st)
	trpi.Set("core", "experimental.parallel-instances", true)
	trpi.Commit()
	snapstate.ReplaceStore(st, &verifYieldStore{fakeStore: s.fakeStore, s: s})
	for _, n := range names {
		nk := 1 + c.Draw("initial-kept", 2)
		var sis []*snap.SideInfo
		for i := 1; i <= nk; i++ {
			rn, _ := snap.SplitInstanceName(n)
			sis = append(sis, &snap.SideInfo{RealName: rn, SnapID: ids[n], Revision: snap.R(i)})
		}
		nextRev[n] = nk + 1
		_, ikey := snap.SplitInstanceName(n)
		snapstate.Set(st, n, &snapstate.SnapState{Active: true, Sequence: snapstatetest.NewSequenceFromSnapSideInfos(sis),
			TrackingChannel: "latest/stable", Current: sis[len(sis)-1].Revision, SnapType: "app", InstanceKey: ikey})
	}
	st.Unlock()
	s.fakeStore.refreshRevnos = map[string]snap.Revision{}
	s.storeYield = true

	var reqs []*verifReq
	var exclusive *state.Change
	exclusiveKinds := []string{"remodel", "create-recovery-system", "remove-recovery-system", "transition-ubuntu-core", "transition-to-snapd-snap"}
	nreq := 3 + c.Draw("nrequests", 8)
	issued := 0

	startRequest := func() {
		kinds := []string{"refresh", "revert", "remove", "disable", "enable", "switch", "refresh",
			"install", "alias", "unalias", "prefer", "revert-to", "refresh-many", "remove-many"}
		kind := kinds[c.Draw("req-kind", len(kinds))]
		var n string
		if kind == "install" {
			n = reqNames[c.Draw("req-snap-install", len(reqNames))]
		} else {
			n = names[c.Draw("req-snap", len(names))]
		}
		r := &verifReq{id: issued, snapName: n, snaps: []string{n}, kind: kind, done: make(chan struct{})}
		issued++
		if kind == "refresh-many" || kind == "remove-many" {
			// (the parallel instance stays out of multi-snap requests: with two
			// instances of one snap-id in one request the fixture's store makes
			// the order of the task sets depend on Go's map order)
			r.snaps = append([]string(nil), names[:3]...)
			if n == names[3] {
				r.snaps = []string{n}
			}
			if c.Draw("many-subset", 3) == 1 {
				r.snaps = []string{n}
			}
		}
		revs := map[string]int{}
		if r.kind == "refresh" || r.kind == "refresh-many" {
			for _, x := range r.snaps {
				revs[x] = nextRev[x]
				nextRev[x]++
			}
		}
		revertTo := 1 + c.Draw("revert-to-rev", 3)
		aliasN := c.Draw("alias-target", 8)
		reqs = append(reqs, r)
		c.Logf("client request #%d: %s %v", r.id, r.kind, r.snaps)
		go func() {
			defer close(r.done)
			st.Lock()
			defer st.Unlock()
			r.startJSON = verifSnapStatesJSON(st, r.snaps)
			r.startRec = map[string]string{}
			for _, x := range r.snaps {
				r.startRec[x] = verifSnapStateJSON(st, x)
			}
			r.tasks0, r.chgs0, r.linked0 = st.TaskCount(), len(st.Changes()), len(st.Tasks())
			var ts *state.TaskSet
			var tss []*state.TaskSet
			var err error
			r.affected = r.snaps
			switch r.kind {
			case "refresh":
				s.fakeStore.refreshRevnos[ids[n]] = snap.R(revs[n])
				ts, err = snapstate.Update(st, n, nil, s.user.ID, snapstate.Flags{})
			case "revert":
				ts, err = snapstate.Revert(st, n, snapstate.Flags{}, "")
			case "revert-to":
				ts, err = snapstate.RevertToRevision(st, n, snap.R(revertTo), snapstate.Flags{}, "")
			case "remove":
				ts, err = snapstate.Remove(st, n, snap.R(0), nil)
			case "disable":
				ts, err = snapstate.Disable(st, n)
			case "enable":
				ts, err = snapstate.Enable(st, n)
			case "switch":
				ts, err = snapstate.Switch(st, n, &snapstate.RevisionOptions{Channel: "some-channel"})
			case "install":
				ts, err = snapstate.Install(context.Background(), st, n, nil, s.user.ID, snapstate.Flags{})
			case "alias":
				ts, err = snapstate.Alias(st, n, "cmd"+fmt.Sprint(1+aliasN%4), "alias"+fmt.Sprint(1+aliasN%2))
			case "unalias":
				ts, err = snapstate.DisableAllAliases(st, n)
			case "prefer":
				ts, err = snapstate.Prefer(st, n)
			case "refresh-many":
				for _, x := range r.snaps {
					s.fakeStore.refreshRevnos[ids[x]] = snap.R(revs[x])
				}
				var updated []string
				updated, tss, err = snapstate.UpdateMany(context.Background(), st, r.snaps, nil, s.user.ID, nil)
				if err == nil {
					r.affected = updated
				}
			case "remove-many":
				var removed []string
				removed, tss, err = snapstate.RemoveMany(st, r.snaps, nil)
				if err == nil {
					r.affected = removed
				}
			}
			r.err = err
			r.endJSON = verifSnapStatesJSON(st, r.snaps)
			r.endRec = map[string]string{}
			for _, x := range r.snaps {
				r.endRec[x] = verifSnapStateJSON(st, x)
			}
			ntasks := 0
			if err == nil {
				if ts != nil {
					tss = append(tss, ts)
				}
				if len(tss) > 0 {
					chg := st.NewChange(r.kind, fmt.Sprintf("%s %v", r.kind, r.snaps))
					for _, x := range tss {
						chg.AddAll(x)
						ntasks += len(x.Tasks())
					}
					r.chg = chg
					r.chgID = chg.ID()
				}
			}
			r.tasks1, r.chgs1, r.linked1 = st.TaskCount(), len(st.Changes()), len(st.Tasks())
			if r.chg != nil {
				r.chgs1-- // its own change
				r.tasks1 -= ntasks
				r.linked1 -= ntasks
			}
			r.exclusive = exclusive != nil && !exclusive.IsReady()
			for _, o := range reqs {
				if o != r && o.chg != nil && verifIntersects(o.affected, r.affected) && !o.chg.IsReady() {
					r.others = append(r.others, fmt.Sprintf("#%d(%s %v, change %s)", o.id, o.kind, o.affected, o.chgID))
				}
			}
		}()
	}

	judge := func(r *verifReq) {
		r.judged = true
		c.Count("requests-judged")
		_, isConflict := r.err.(*snapstate.ChangeConflictError)
		switch {
		case r.err == nil && r.chg == nil:
			c.Count("probe:request-had-nothing-to-do")
			if r.tasks1 != r.tasks0 || r.chgs1 != r.chgs0 {
				c.Violate("C14/refused-request-created-something", "request #%d (%s %v) had nothing to do but left %d new tasks and %d new changes", r.id, r.kind, r.snaps, r.tasks1-r.tasks0, r.chgs1-r.chgs0)
			}
		case r.err == nil:
			c.Count("probe:request-accepted")
			c.Count("probe:request-accepted:" + r.kind)
			c.Logf("request #%d accepted as change %s", r.id, r.chgID)
			if len(r.others) > 0 {
				c.Violate("C14/conflicting-request-accepted", "request #%d (%s %s) was accepted while unfinished change(s) %v operate on the same snap", r.id, r.kind, r.snapName, r.others)
			}
			if r.exclusive {
				c.Violate("C14/accepted-during-exclusive-change", "request #%d (%s %s) was accepted while an exclusive change is in progress", r.id, r.kind, r.snapName)
			}
			for _, x := range r.affected {
				if r.startRec[x] != r.endRec[x] {
					c.Violate("C14/accepted-although-snap-record-changed", "request #%d (%s %v) was accepted, its change operates on %v, although the record of %s changed while it was being prepared", r.id, r.kind, r.snaps, r.affected, x)
				}
			}
		default:
			c.Logf("request #%d refused: conflict=%v", r.id, isConflict)
			if isConflict {
				c.Count("probe:request-refused-with-conflict")
				c.Count("probe:request-refused-with-conflict:" + r.kind)
			} else {
				c.Count("probe:request-refused-with-own-error")
			}
			if r.tasks1 != r.tasks0 || r.chgs1 != r.chgs0 {
				cls := "C14/refused-request-created-something"
				if (r.kind == "refresh-many" || r.kind == "remove-many") && len(r.snaps) > 1 && isConflict && r.chgs1 == r.chgs0 && r.linked1 == r.linked0 {
					// the task sets built for the snaps of the request handled before the
					// conflicting one stay behind, linked to no change
					cls += ":unlinked-tasks-left-by-refused-multi-snap-" + r.kind
				}
				if cls != "C14/refused-request-created-something" {
					// (how many depends on the order in which snapd walks the snaps of the
					// request - a Go map - so the number is left out of the record)
					c.Violate(cls, "request #%d (%s %v) was refused with a conflict error but left new tasks behind, linked to no change; no new change", r.id, r.kind, r.snaps)
				} else {
					c.Violate(cls, "request #%d (%s %v) was refused (%v) but left %d new tasks (%d of them linked to a change) and %d new changes", r.id, r.kind, r.snaps, r.err, r.tasks1-r.tasks0, r.linked1-r.linked0, r.chgs1-r.chgs0)
				}
			}
		}
		if r.startJSON != r.endJSON {
			c.Count("probe:snap-record-changed-while-preparing")
			c.Nontrivial()
		}
	}

	settleStep := func() {
		s.permute = true
		s.se.Ensure()
		s.permute = false
		synctest.Wait()
		for _, r := range reqs {
			if !r.finished {
				select {
				case <-r.done:
					r.finished = true
				default:
				}
			}
			if r.finished && !r.judged {
				judge(r)
			}
		}
	}

	releaseStore := func(p *verifStorePark) {
		s.mu.Lock()
		for i, q := range s.storeParked {
			if q == p {
				s.storeParked = append(s.storeParked[:i], s.storeParked[i+1:]...)
			}
		}
		s.mu.Unlock()
		// counts for "creates nothing" restart at the last resume of each pending request
		st.Lock()
		tc, cc, lc := st.TaskCount(), len(st.Changes()), len(st.Tasks())
		st.Unlock()
		for _, r := range reqs {
			if !r.finished {
				r.tasks0, r.chgs0, r.linked0 = tc, cc, lc
			}
		}
		c.Logf("store call #%d (%s) returns", p.seq, p.what)
		p.ch <- struct{}{}
		synctest.Wait()
	}

	defer func() {
		// drain everything
		s.storeYield = false
		for i := 0; i < 200; i++ {
			s.mu.Lock()
			sp := append([]*verifStorePark(nil), s.storeParked...)
			s.storeParked = nil
			s.mu.Unlock()
			for _, p := range sp {
				p.ch <- struct{}{}
			}
			synctest.Wait()
			s.releaseAll()
			s.mu.Lock()
			n := len(s.storeParked) + len(s.parked)
			s.mu.Unlock()
			if n == 0 {
				break
			}
		}
	}()

	for step := 0; step < 1500 && len(c.Violations) == 0; step++ {
		settleStep()
		if len(c.Violations) > 0 {
			break
		}
		ps := s.sortedParked()
		s.mu.Lock()
		sort.Slice(s.storeParked, func(i, j int) bool { return s.storeParked[i].seq < s.storeParked[j].seq })
		sp := append([]*verifStorePark(nil), s.storeParked...)
		s.mu.Unlock()
		inflight := 0
		for _, r := range reqs {
			if !r.finished {
				inflight++
			}
		}
		if len(sp) > 0 && len(ps) > 0 {
			c.Count("probe:request-parked-in-store-while-tasks-run")
		}
		if inflight > 1 {
			c.Count("probe:requests-overlapped")
			c.Nontrivial()
		}
		// actions: 0 = new request, then store returns, then handler releases, then exclusive toggle
		type act struct {
			kind string
			sp   *verifStorePark
			hp   *verifCParked
		}
		var acts []act
		if issued < nreq && inflight < 3 {
			acts = append(acts, act{kind: "request"})
		}
		for _, p := range sp {
			acts = append(acts, act{kind: "store", sp: p})
		}
		for _, p := range ps {
			acts = append(acts, act{kind: "handler", hp: p})
		}
		if exclusive == nil && issued > 0 && issued < nreq {
			acts = append(acts, act{kind: "exclusive-start"})
		}
		if exclusive != nil {
			st.Lock()
			unfinished := !exclusive.IsReady()
			st.Unlock()
			if unfinished {
				acts = append(acts, act{kind: "exclusive-finish"})
			}
		}
		if len(acts) == 0 {
			st.Lock()
			allReady := true
			for _, r := range reqs {
				if r.chg != nil && !r.chg.IsReady() {
					allReady = false
				}
			}
			st.Unlock()
			if allReady && issued >= nreq {
				break
			}
			time.Sleep(time.Second)
			continue
		}
		a := acts[c.Draw("act", len(acts))]
		switch a.kind {
		case "request":
			startRequest()
			synctest.Wait()
		case "store":
			releaseStore(a.sp)
		case "handler":
			c.Logf("run %s %s", a.hp.which, a.hp.kind)
			s.releaseParked(a.hp, false)
		case "exclusive-start":
			if c.Draw("exclusive?", 4) != 3 {
				continue
			}
			st.Lock()
			k := exclusiveKinds[c.Draw("exclusive-kind", len(exclusiveKinds))]
			exclusive = st.NewChange(k, "exclusive change")
			t := st.NewTask("verif-unhandled", "keeps the exclusive change unfinished")
			exclusive.AddTask(t)
			st.Unlock()
			c.Logf("exclusive change %s started", k)
			c.Count("probe:exclusive-change-in-progress")
			c.Nontrivial()
		case "exclusive-finish":
			st.Lock()
			for _, t := range exclusive.Tasks() {
				t.SetStatus(state.DoneStatus)
			}
			st.Unlock()
			c.Logf("exclusive change finished")
		}
	}
}

func verifRunC14(c *verifsim.Ctx) { verifRunFixture(c, verifBodyC14) }

var verifEngineC14 = &verifsim.Engine{
	Name:   "C/C14: overlord/snapstate request paths and conflict checks under concurrent simulated API clients",
	Bubble: true,
	Run:    verifRunC14,
	Real: []string{"overlord/snapstate: Update/Revert/Remove/Enable/Disable/Switch request paths incl. CheckChangeConflict*, the prepare/commit re-check of the snap record, all task handlers of the accepted changes",
		"overlord/state TaskRunner and state engine"},
	Stubs: []string{"API clients (goroutines doing Lock -> snapstate.X -> NewChange+AddAll -> Unlock as the daemon does)", "store (fakeStore wrapped so that every call made with the state lock dropped parks until the scheduler lets it return)",
		"backend, hooks, other managers' task kinds (fixture fakes)", "exclusive changes are fabricated in state (kinds remodel, create-recovery-system, remove-recovery-system)"},
}
