package snapstate_test

import (
	"testing"

	"github.com/snapcore/snapd/internal/verifsim"
)

func TestVerifSim(t *testing.T) {
	verifsim.Main(t, map[string]*verifsim.Engine{
		"C10": verifEngineC,
		"C11": verifEngineC,
		"C12": verifEngineC,
		"C13": verifEngineC,
		"C14": verifEngineC14,
		"C15": verifEngineC15,
		"C16": verifEngineC16,
	})
}
