package snapstate_test

// C16: auto-refresh runs inside timer windows and is never postponed past the
// limit. Clock- and randomness-driven, so the decision is made on the real
// caller: SnapManager.Ensure (autoRefresh.Ensure -> timeutil.Next) under a
// simulated ensure cadence and clock. Timer expressions are generated from a
// structured description which is also the reference model for "inside a
// window"; the implementation is driven by the string (in half of the runs by
// its parsed-and-reprinted form).

import (
	"fmt"
	"strconv"
	"strings"
	"testing/synctest"
	"time"

	check "gopkg.in/check.v1"

	"github.com/snapcore/snapd/internal/verifsim"
	"github.com/snapcore/snapd/overlord/configstate/config"
	"github.com/snapcore/snapd/overlord/snapstate"
	"github.com/snapcore/snapd/overlord/state"
	"github.com/snapcore/snapd/timeutil"
)

// ---- reference model of the documented timer grammar

type verifDaySpec struct {
	from, to time.Weekday // inclusive range, wrapping; single day when equal
	nth      int          // 0: every week; 1-4: nth such weekday of the month; 5: last
	// span anchored on a numbered week day: 1 = the start is numbered ("mon1-fri": from the
	// first Monday of the month to the following Friday), 2 = the end is numbered ("mon-fri2":
	// from the Monday before the second Friday to that Friday); a span between the same week
	// day ("mon-mon2") is eight days long
	anchor int
}

type verifClockSpec struct {
	startMin, endMin int  // minutes since midnight; end<=start (and not single): crosses midnight
	single           bool // a bare HH:MM
	spread           bool // ~
	split            int  // /N
}

type verifEventSpec struct {
	days   []verifDaySpec
	clocks []verifClockSpec
}

var verifDayNames = []string{"sun", "mon", "tue", "wed", "thu", "fri", "sat"}

func (d verifDaySpec) String() string {
	switch d.anchor {
	case 1:
		return verifDayNames[d.from] + strconv.Itoa(d.nth) + "-" + verifDayNames[d.to]
	case 2:
		return verifDayNames[d.from] + "-" + verifDayNames[d.to] + strconv.Itoa(d.nth)
	}
	s := verifDayNames[d.from]
	if d.nth > 0 {
		s += strconv.Itoa(d.nth)
	}
	if d.to != d.from {
		s += "-" + verifDayNames[d.to]
	}
	return s
}

func verifIsNth(day time.Time, nth int) bool {
	if nth == 5 {
		return day.AddDate(0, 0, 7).Month() != day.Month()
	}
	return (day.Day()-1)/7+1 == nth
}

func verifHHMM(m int) string { return fmt.Sprintf("%02d:%02d", (m/60)%24, m%60) }

func (cs verifClockSpec) String() string {
	if cs.single {
		return verifHHMM(cs.startMin)
	}
	sep := "-"
	if cs.spread {
		sep = "~"
	}
	s := verifHHMM(cs.startMin) + sep + verifHHMM(cs.endMin)
	if cs.split > 1 {
		s += "/" + strconv.Itoa(cs.split)
	}
	return s
}

func (e verifEventSpec) String() string {
	var parts []string
	for _, d := range e.days {
		parts = append(parts, d.String())
	}
	for _, cl := range e.clocks {
		parts = append(parts, cl.String())
	}
	return strings.Join(parts, ",")
}

func (d verifDaySpec) matches(day time.Time) bool {
	if d.anchor != 0 {
		length := (int(d.to) - int(d.from) + 7) % 7
		if length == 0 {
			length = 7
		}
		for k := 0; k <= length; k++ {
			var a time.Time // the numbered end of the span if day is its k-th day
			if d.anchor == 1 {
				a = day.AddDate(0, 0, -k)
				if a.Weekday() == d.from && verifIsNth(a, d.nth) {
					return true
				}
			} else {
				a = day.AddDate(0, 0, k)
				if a.Weekday() == d.to && verifIsNth(a, d.nth) {
					return true
				}
			}
		}
		return false
	}
	wd := day.Weekday()
	in := false
	if d.from <= d.to {
		in = wd >= d.from && wd <= d.to
	} else {
		in = wd >= d.from || wd <= d.to
	}
	if !in {
		return false
	}
	switch {
	case d.nth == 0:
		return true
	case d.nth == 5:
		return day.AddDate(0, 0, 7).Month() != day.Month()
	default:
		return (day.Day()-1)/7+1 == d.nth
	}
}

// verifInWindows: does t lie in a window of the timer? The week-day part is
// matched on the day the window starts; windows may cross midnight, so the
// day before t is looked at too.
func verifInWindows(events []verifEventSpec, t time.Time) bool {
	for _, ev := range events {
		for back := 0; back <= 1; back++ {
			dayStart := time.Date(t.Year(), t.Month(), t.Day(), 0, 0, 0, 0, t.Location()).AddDate(0, 0, -back)
			if len(ev.days) > 0 {
				m := false
				for _, d := range ev.days {
					if d.matches(dayStart) {
						m = true
					}
				}
				if !m {
					continue
				}
			}
			for _, cl := range ev.clocks {
				start := dayStart.Add(time.Duration(cl.startMin) * time.Minute)
				var end time.Time
				switch {
				case cl.single:
					end = start.Add(time.Minute)
				case cl.endMin > cl.startMin:
					end = dayStart.Add(time.Duration(cl.endMin) * time.Minute)
				default:
					end = dayStart.Add(time.Duration(cl.endMin+24*60) * time.Minute)
				}
				if !t.Before(start) && !t.After(end) {
					return true
				}
			}
		}
	}
	return false
}

// verifEarliestWindowStart returns the earliest start among the windows
// (sub-spans for /N splits) of the timer that contain t.
func verifEarliestWindowStart(events []verifEventSpec, t time.Time) (time.Time, bool) {
	var best time.Time
	found := false
	for _, ev := range events {
		for back := 0; back <= 1; back++ {
			dayStart := time.Date(t.Year(), t.Month(), t.Day(), 0, 0, 0, 0, t.Location()).AddDate(0, 0, -back)
			if len(ev.days) > 0 {
				m := false
				for _, d := range ev.days {
					if d.matches(dayStart) {
						m = true
					}
				}
				if !m {
					continue
				}
			}
			for _, cl := range ev.clocks {
				start := dayStart.Add(time.Duration(cl.startMin) * time.Minute)
				var end time.Time
				switch {
				case cl.single:
					end = start.Add(time.Minute)
				case cl.endMin > cl.startMin:
					end = dayStart.Add(time.Duration(cl.endMin) * time.Minute)
				default:
					end = dayStart.Add(time.Duration(cl.endMin+24*60) * time.Minute)
				}
				if t.Before(start) || t.After(end) {
					continue
				}
				ws := start
				if cl.split > 1 && !cl.single {
					step := end.Sub(start) / time.Duration(cl.split)
					if step > 0 {
						i := int(t.Sub(start) / step)
						if i >= cl.split {
							i = cl.split - 1
						}
						// (the implementation cuts sub-span boundaries to the minute)
						ws = start.Add(time.Duration(i) * step).Truncate(time.Minute)
					}
				}
				if !found || ws.Before(best) {
					best, found = ws, true
				}
			}
		}
	}
	return best, found
}

// verifInMisanchoredSplit recognises one specific deviation (recorded as a
// known finding): for a span that crosses midnight AND is split with /N, a
// sub-span that begins after midnight is placed on the matching day itself
// (i.e. up to a day BEFORE the span starts) instead of on the following day.
func verifInMisanchoredSplit(events []verifEventSpec, t time.Time) bool {
	for _, ev := range events {
		for back := 0; back <= 1; back++ {
			dayStart := time.Date(t.Year(), t.Month(), t.Day(), 0, 0, 0, 0, t.Location()).AddDate(0, 0, -back)
			if len(ev.days) > 0 {
				m := false
				for _, d := range ev.days {
					if d.matches(dayStart) {
						m = true
					}
				}
				if !m {
					continue
				}
			}
			for _, cl := range ev.clocks {
				if cl.split <= 1 || cl.single || cl.endMin > cl.startMin {
					continue
				}
				total := time.Duration(cl.endMin+24*60-cl.startMin) * time.Minute
				sub := total / time.Duration(cl.split)
				for i := 0; i < cl.split; i++ {
					off := time.Duration(cl.startMin)*time.Minute + time.Duration(i)*sub
					if off < 24*time.Hour {
						continue
					}
					// (sub-span boundaries are rounded to the minute by the implementation)
					start := dayStart.Add(off - 24*time.Hour).Add(-time.Minute)
					end := start.Add(sub).Add(2 * time.Minute)
					if !t.Before(start) && !t.After(end) {
						return true
					}
				}
			}
		}
	}
	return false
}

func verifGenTimer(c *verifsim.Ctx) ([]verifEventSpec, string) {
	clockMin := func(l string) int {
		m := []int{0, 15, 30, 45, -1}[c.Draw(l+"-m", 5)]
		if m < 0 {
			m = c.Draw(l+"-odd-minute", 60)
		}
		return c.Draw(l+"-h", 24)*60 + m
	}
	genClock := func() verifClockSpec {
		cs := verifClockSpec{startMin: clockMin("from")}
		switch c.Draw("clock-kind", 4) {
		case 0:
			cs.single = true
			return cs
		case 1:
		case 2:
			cs.spread = true
		case 3:
			// (also splits that do not give whole minutes, e.g. 9:00-10:00/7)
			cs.split = 2 + c.Draw("split", 10)
		}
		cs.endMin = clockMin("to")
		if cs.endMin == cs.startMin {
			cs.endMin = (cs.startMin + 60) % (24 * 60)
		}
		if cs.endMin == 0 && c.Draw("end-2400", 2) == 1 {
			cs.endMin = 24 * 60
		}
		return cs
	}
	genDay := func() verifDaySpec {
		d := verifDaySpec{from: time.Weekday(c.Draw("day", 7))}
		d.to = d.from
		switch c.Draw("day-kind", 5) {
		case 1:
			d.nth = 1 + c.Draw("nth", 5)
		case 2:
			d.to = time.Weekday(c.Draw("day-to", 7))
		case 3, 4: // a span anchored on a numbered week day
			d.to = time.Weekday(c.Draw("day-to", 7))
			d.nth = 1 + c.Draw("nth", 5)
			d.anchor = 1 + c.Draw("anchor-end", 2)
			c.Count("probe:week-span-anchored-on-numbered-day")
		}
		return d
	}
	genEvent := func() verifEventSpec {
		var ev verifEventSpec
		if c.Draw("with-days", 2) == 1 {
			ev.days = append(ev.days, genDay())
			if c.Draw("two-days", 3) == 2 {
				ev.days = append(ev.days, genDay())
			}
		}
		ev.clocks = append(ev.clocks, genClock())
		if c.Draw("two-clocks", 3) == 2 {
			ev.clocks = append(ev.clocks, genClock())
		}
		return ev
	}
	evs := []verifEventSpec{genEvent()}
	if c.Draw("two-events", 3) == 2 {
		evs = append(evs, genEvent())
	}
	var parts []string
	for _, e := range evs {
		parts = append(parts, e.String())
	}
	return evs, strings.Join(parts, ",,")
}

func verifBodyC16(s *verifEngC, gc *check.C) {
	c := s.ctx
	snapstate.CanAutoRefresh = func(*state.State) (bool, error) { return true, nil }
	defer func() { snapstate.CanAutoRefresh = nil }()
	st := s.state
	const maxPost = 95 * 24 * time.Hour
	mgr := s.snapmgr

	var events []verifEventSpec
	setTimer := func() bool {
		evs, timer := verifGenTimer(c)
		sched, err := timeutil.ParseSchedule(timer)
		if err != nil {
			c.Violate("C16/valid-timer-rejected", "timer %q follows the documented grammar but is rejected: %v", timer, err)
			return false
		}
		// printed form of the parsed timer must parse back to the same thing
		var printed []string
		for _, sc := range sched {
			printed = append(printed, sc.String())
		}
		reprinted := strings.Join(printed, ",,")
		sched2, err := timeutil.ParseSchedule(reprinted)
		if err != nil {
			c.Violate("C16/reprinted-timer-rejected", "timer %q prints as %q which does not parse: %v", timer, reprinted, err)
			return false
		}
		var printed2 []string
		for _, sc := range sched2 {
			printed2 = append(printed2, sc.String())
		}
		if strings.Join(printed2, ",,") != reprinted {
			c.Violate("C16/format-parse-not-stable", "timer %q prints as %q, which parses and prints as %q", timer, reprinted, strings.Join(printed2, ",,"))
			return false
		}
		use := timer
		if c.Draw("use-reprinted", 2) == 1 {
			use = reprinted
			c.Count("probe:driven-by-reprinted-timer")
		}
		st.Lock()
		tr := config.NewTransaction(st)
		tr.Set("core", "refresh.timer", use)
		tr.Commit()
		st.Unlock()
		events = evs
		c.Logf("timer %q (set as %q)", timer, use)
		return true
	}
	// invalid expressions must be refused
	bad := []string{"25:00", "10:61", "mon-", "xyz", "mon8,10:00", "10:00-11:00/0", "10:00~", ",,", "mon,", "10:00-11:00/x", "fri-mon9,10:00"}
	b := bad[c.Draw("invalid-timer", len(bad))]
	if _, err := timeutil.ParseSchedule(b); err == nil {
		c.Violate("C16/invalid-timer-accepted", "invalid timer %q is accepted", b)
		return
	}
	if !setTimer() {
		return
	}
	time.Sleep(time.Duration(c.Draw("clock-start-min", 400*24*60)) * time.Minute)
	st.Lock()
	last := time.Now().Add(-time.Duration(c.Draw("last-refresh-ago-min", 120*24*60)) * time.Minute)
	st.Set("last-refresh", last)
	st.Unlock()
	storeDown := false

	prevNext := time.Time{}
	npass := 8 + c.Draw("passes", 10)
	for i := 0; i < npass && len(c.Violations) == 0; i++ {
		st.Lock()
		L, _ := mgr.LastRefresh()
		st.Unlock()
		now := time.Now()
		err := mgr.Ensure()
		synctest.Wait()
		st.Lock()
		N := mgr.NextRefresh()
		L2, _ := mgr.LastRefresh()
		st.Unlock()
		c.Logf("ensure at %s: last=%s -> next=%s last'=%s err=%v", now.Format("Mon 2006-01-02 15:04:05"), L.Format("Mon 2006-01-02 15:04"), N.Format("Mon 2006-01-02 15:04:05"), L2.Format("2006-01-02 15:04"), err != nil)
		c.Count("ensure-passes")
		if !N.IsZero() && !N.Equal(prevNext) {
			c.Count("next-refresh-times-judged")
			c.Nontrivial()
			why := ""
			switch {
			case N.After(L.Add(maxPost).Add(time.Hour)) && !verifInWindows(events, N):
				// (inside a window that opened before the limit a later moment is fine:
				// the statement bounds where the chosen window starts)
				c.Violate("C16/postponed-past-limit", "next refresh %s is later than the maximum postponement after the last refresh %s", N.Format(time.RFC3339), L.Format(time.RFC3339))
			case verifInWindows(events, N):
				why = "in-window"
				// no chosen window starts later than the limit
				if ws, ok := verifEarliestWindowStart(events, N); ok && ws.After(L.Add(maxPost).Add(time.Minute)) && N.After(L.Add(maxPost).Add(time.Minute)) {
					c.Violate("C16/window-starts-after-limit", "next refresh %s is in a window of the timer that starts at %s, later than the maximum postponement after the last refresh %s (limit %s)", N.Format(time.RFC3339), ws.Format(time.RFC3339), L.Format(time.RFC3339), L.Add(maxPost).Format(time.RFC3339))
				}
				if !L.Add(maxPost).After(N) {
					c.Count("probe:in-window-at-or-after-the-limit")
				}
			case !N.Before(L.Add(maxPost)):
				why = "at-limit"
			case !N.After(now.Add(time.Second)):
				// immediately: justified if overdue, i.e. a window or the limit passed since the last refresh
				if !now.Before(L.Add(maxPost)) {
					why = "overdue-limit"
				} else {
					from := L.Add(time.Minute)
					if from.Before(now.Add(-10 * 24 * time.Hour)) {
						from = now.Add(-10 * 24 * time.Hour)
					}
					for tau := from; !tau.After(now); tau = tau.Add(time.Minute) {
						if verifInWindows(events, tau) {
							why = "overdue-window"
							break
						}
					}
					if why == "" && !L.Add(40*24*time.Hour).After(now) {
						// (a monthly window further back than the scan)
						why = "overdue-window"
					}
				}
				if why == "" {
					cls := "C16/refresh-outside-window"
					// (the known mis-anchored sub-span of a split span crossing midnight
					// also shows as "a window is open right now")
					for tau := L.Add(time.Minute); !tau.After(now.Add(time.Minute)); tau = tau.Add(time.Minute) {
						if verifInMisanchoredSplit(events, tau) {
							cls = "C16/refresh-outside-window:split-span-crossing-midnight-anchored-a-day-early"
							break
						}
						if tau.Sub(L) > 3*24*time.Hour {
							break
						}
					}
					c.Violate(cls, "refresh scheduled immediately (%s) although no window of the timer and no limit passed since the last refresh %s", N.Format("Mon 2006-01-02 15:04:05"), L.Format("Mon 2006-01-02 15:04:05"))
				}
			case verifInMisanchoredSplit(events, N):
				c.Violate("C16/refresh-outside-window:split-span-crossing-midnight-anchored-a-day-early", "next refresh %s (%s) lies in no window of the timer: it is in the after-midnight part of a /N-split span crossing midnight, placed on the day the span starts instead of the following day (last refresh %s)", N.Format("2006-01-02 15:04:05"), N.Weekday(), L.Format("2006-01-02 15:04:05"))
			default:
				c.Violate("C16/refresh-outside-window", "next refresh %s (%s) lies in no window of the timer and is not the postponement limit (last refresh %s)", N.Format("2006-01-02 15:04:05"), N.Weekday(), L.Format("2006-01-02 15:04:05"))
			}
			if why != "" {
				c.Count("probe:" + why)
				c.Logf("   justified: %s", why)
			}
		}
		prevNext = N
		// let a launched auto-refresh change run
		for n := 0; n < 40; n++ {
			s.se.Ensure()
			synctest.Wait()
			time.Sleep(10 * time.Millisecond)
		}
		// next event
		var d time.Duration
		switch c.Draw("step-kind", 8) {
		case 7: // the postponement limit falls shortly before the next window opens
			now := time.Now()
			var ws time.Time
			for tau := now.Add(61 * time.Minute).Truncate(time.Minute); tau.Before(now.Add(9 * 24 * time.Hour)); tau = tau.Add(time.Minute) {
				if verifInWindows(events, tau) && !verifInWindows(events, tau.Add(-time.Minute)) {
					ws = tau
					break
				}
			}
			if !ws.IsZero() {
				x := time.Duration(1+c.Draw("limit-before-window-min", 59)) * time.Minute
				nl := ws.Add(-maxPost).Add(-x)
				st.Lock()
				st.Set("last-refresh", nl)
				st.Unlock()
				nm, err := snapstate.Manager(st, state.NewTaskRunner(st))
				if err != nil {
					c.Fatalf("snapstate.Manager: %v", err)
				}
				mgr = nm
				prevNext = time.Time{}
				c.Logf("last refresh set to %s: the limit falls %v before the window opening at %s; snapd restarted", nl.Format("2006-01-02 15:04"), x, ws.Format("Mon 2006-01-02 15:04"))
				c.Count("probe:limit-shortly-before-a-window")
			}
			d = 0
		case 0:
			d = 5 * time.Minute
		case 1:
			d = time.Duration(c.Draw("step-min", 24*60)) * time.Minute
		case 2:
			d = time.Duration(c.Draw("step-days-min", 20*24*60)) * time.Minute
		case 3:
			if !N.IsZero() && N.After(time.Now()) {
				d = N.Sub(time.Now()) + time.Duration(c.Draw("step-past-next-s", 300))*time.Second
			}
		case 4: // machine off for months
			d = time.Duration(60+c.Draw("step-months-days", 60)) * 24 * time.Hour
			c.Count("probe:machine-off-for-months")
		case 5: // timer changed
			if !setTimer() {
				return
			}
			c.Count("probe:timer-changed-mid-run")
			d = time.Minute
		case 6: // snapd restarts: the in-memory next refresh is lost
			nm, err := snapstate.Manager(st, state.NewTaskRunner(st))
			if err != nil {
				c.Fatalf("snapstate.Manager: %v", err)
			}
			mgr = nm
			prevNext = time.Time{}
			c.Logf("snapd restarted")
			c.Count("fault:restart")
			d = time.Duration(c.Draw("step-after-restart-min", 120)) * time.Minute
		}
		_ = storeDown
		// read-only queries (GET /v2/system-info, snap refresh --time) may arrive at any time
		if c.Draw("status-query", 3) == 2 {
			st.Lock()
			mgr.RefreshSchedule()
			mgr.NextRefresh()
			mgr.LastRefresh()
			st.Unlock()
			c.Count("probe:read-only-status-query")
		}
		time.Sleep(d)
	}
}

func verifRunC16(c *verifsim.Ctx) { verifRunFixture(c, verifBodyC16) }

var verifEngineC16 = &verifsim.Engine{
	Name:   "C/C16: snapstate auto-refresh scheduling (SnapManager.Ensure -> timeutil) on the simulated clock",
	Bubble: true,
	Run:    verifRunC16,
	Real: []string{"overlord/snapstate: SnapManager.Ensure/autoRefresh.Ensure (next refresh computation, last-refresh handling, launch of the auto-refresh change)", "timeutil: ParseSchedule, Schedule.String, Next (incl. the randomised ~ spread through randutil, pinned per run)",
		"time (synctest fake clock: ensure cadence, steps up to 4 months, timer changes, restarts)"},
	Stubs: []string{"store, backend (fixture fakes; the launched auto-refresh change is run by the real task runner with fake handlers for foreign kinds)", "restart = a fresh SnapManager on the same state"},
}
