package snapstate_test

// C15: snap-initiated refresh holds are bounded (48 h for another snap from
// the first hold of the episode, 90 days after the held snap's last refresh),
// refused once a bound is reached; administrator holds last until their time
// (or forever) and survive refreshes. Clock driven: real gating code on the
// synctest fake clock, with steps from minutes to 100 days.

import (
	"fmt"
	"sort"
	"time"

	check "gopkg.in/check.v1"

	"github.com/snapcore/snapd/internal/verifsim"
	"github.com/snapcore/snapd/overlord/snapstate"
	"github.com/snapcore/snapd/overlord/snapstate/snapstatetest"
	"github.com/snapcore/snapd/snap"
)

type verifHoldKey struct{ held, holder string }

func verifBodyC15(s *verifEngC, gc *check.C) {
	c := s.ctx
	st := s.state
	st.Lock()
	defer st.Unlock()
	snaps := []string{"snap-a", "snap-b", "snap-g", "snap-h"}
	lastRefresh := map[string]time.Time{}
	setSnap := func(name string, when time.Time) {
		si := snap.SideInfo{RealName: name, SnapID: name + "-id", Revision: snap.R(1)}
		w := when
		snapstate.Set(st, name, &snapstate.SnapState{
			Active: true, Sequence: snapstatetest.NewSequenceFromSnapSideInfos([]*snap.SideInfo{&si}),
			Current: si.Revision, SnapType: "app", LastRefreshTime: &w,
		})
		lastRefresh[name] = when
	}
	start := time.Now()
	for _, n := range snaps {
		setSnap(n, start.Add(-time.Duration(c.Draw("initial-last-refresh-h", 60*24))*time.Hour))
	}
	episode := map[verifHoldKey]time.Time{}
	sysUntil := map[string]time.Time{}
	sysForever := map[string]bool{}
	const day = 24 * time.Hour

	observe := func(where string) {
		now := time.Now()
		for _, lvl := range []snapstate.HoldLevel{snapstate.HoldAutoRefresh, snapstate.HoldGeneral} {
			held, err := snapstate.HeldSnaps(st, lvl)
			if err != nil {
				c.Violate("C15/held-snaps-error", "%s: HeldSnaps: %v", where, err)
				return
			}
			var names []string
			for h := range held {
				names = append(names, h)
			}
			sort.Strings(names)
			for _, h := range names {
				holders := append([]string(nil), held[h]...)
				sort.Strings(holders)
				for _, holder := range holders {
					if holder == "system" {
						continue
					}
					c.Count("holds-observed")
					ep, ok := episode[verifHoldKey{h, holder}]
					if !ok {
						c.Violate("C15/hold-without-request", "%s: %s is reported held by %s although that snap holds nothing on it", where, h, holder)
						return
					}
					if holder != h && now.After(ep.Add(48*time.Hour)) {
						c.Violate("C15/held-beyond-48h", "%s: %s is still held by %s, %v after that snap first held it in this episode", where, h, holder, now.Sub(ep))
						return
					}
					if now.After(lastRefresh[h].Add(90 * day)) {
						c.Violate("C15/held-beyond-90d", "%s: %s is held by %s %v after its last refresh", where, h, holder, now.Sub(lastRefresh[h]))
						return
					}
				}
			}
			if lvl == snapstate.HoldAutoRefresh {
				var hs []string
				for h := range sysUntil {
					hs = append(hs, h)
				}
				for h := range sysForever {
					if _, ok := sysUntil[h]; !ok {
						hs = append(hs, h)
					}
				}
				sort.Strings(hs)
				for _, h := range hs {
					if sysForever[h] || now.Before(sysUntil[h]) {
						found := false
						for _, holder := range held[h] {
							if holder == "system" {
								found = true
							}
						}
						if !found {
							c.Violate("C15/admin-hold-lost", "%s: the administrator's hold on %s (forever=%v, until %v from start) is not reported at %v from start", where, h, sysForever[h], sysUntil[h].Sub(start), now.Sub(start))
							return
						}
						c.Count("admin-holds-observed")
					}
				}
			}
		}
	}

	nops := 5 + c.Draw("nops", 30)
	for i := 0; i < nops && len(c.Violations) == 0; i++ {
		switch c.Draw("op", 8) {
		case 7: // an auto-refresh begins: holds on a snap that has no update any more may be forgotten
			// (at most one such snap per pass: with two, whether pruneGating saves what it
			// pruned depends on Go's map order - its "changed" flag is overwritten per
			// snap - which would make the run irreproducible; either outcome is allowed
			// by the statement, so what is observed afterwards decides)
			cands := map[string]*snapstate.RefreshCandidate{}
			without := ""
			if c.Draw("one-snap-without-update", 3) == 2 {
				without = snaps[c.Draw("snap-without-update", len(snaps))]
			}
			for _, n := range snaps {
				if n != without {
					cands[n] = &snapstate.RefreshCandidate{}
				}
			}
			err := snapstate.PruneGating(st, cands)
			c.Logf("t=%v auto-refresh begins, no update any more for %q err=%v", time.Now().Sub(start), without, err != nil)
			c.Count("probe:auto-refresh-begins-with-holds-in-place")
			if without != "" {
				held, _ := snapstate.HeldSnaps(st, snapstate.HoldAutoRefresh)
				still := map[string]bool{}
				for _, h := range held[without] {
					still[h] = true
				}
				for k := range episode {
					if k.held == without && !still[k.holder] {
						delete(episode, k)
						c.Count("probe:hold-forgotten-with-the-update")
					}
				}
			}
		case 0, 1, 2: // a snap holds refreshes of some snaps
			holder := snaps[2+c.Draw("holder", 2)]
			var affecting []string
			for _, n := range snaps {
				if c.Draw("affects-"+n, 2) == 1 {
					affecting = append(affecting, n)
				}
			}
			if len(affecting) == 0 {
				affecting = []string{snaps[c.Draw("affects-one", len(snaps))]}
			}
			// the hook and snapctl paths always ask for the default (maximum) duration,
			// which is what the statement is about; an explicit shorter duration asked
			// late in an episode is not capped by the time left (only refused above 48h)
			// and would carry the hold past the bound - callers of HoldRefresh with
			// explicit durations are outside the property
			dur := time.Duration(0)
			now := time.Now()
			// would any bound already be reached for one of the affected snaps?
			boundReached := ""
			for _, a := range affecting {
				if ep, ok := episode[verifHoldKey{a, holder}]; ok && a != holder && now.After(ep.Add(48*time.Hour)) {
					boundReached = fmt.Sprintf("%s held by %s since %v", a, holder, now.Sub(ep))
				}
				if now.After(lastRefresh[a].Add(90 * day)) {
					boundReached = fmt.Sprintf("%s last refreshed %v ago", a, now.Sub(lastRefresh[a]))
				}
			}
			left, err := snapstate.HoldRefresh(st, snapstate.HoldAutoRefresh, holder, dur, affecting...)
			c.Logf("t=%v %s holds %v for %v: left=%v err=%v", now.Sub(start), holder, affecting, dur, left, err != nil)
			if err == nil {
				if boundReached != "" {
					c.Violate("C15/hold-accepted-after-bound", "hold by %s on %v accepted although a bound is reached (%s)", holder, affecting, boundReached)
				}
				for _, a := range affecting {
					if _, ok := episode[verifHoldKey{a, holder}]; !ok {
						episode[verifHoldKey{a, holder}] = now
					}
				}
				c.Nontrivial()
			} else {
				c.Count("probe:hold-refused")
				if boundReached != "" {
					c.Count("probe:hold-refused-at-bound")
				}
				// a refusal ends the holder's episodes on the snaps of the request
				// (the refresh goes ahead); a later request starts a new episode
				for _, a := range affecting {
					delete(episode, verifHoldKey{a, holder})
				}
			}
		case 3: // the holding snap lets refreshes proceed
			holder := snaps[2+c.Draw("proceed-holder", 2)]
			err := snapstate.ProceedWithRefresh(st, holder, nil)
			c.Logf("t=%v %s proceeds err=%v", time.Now().Sub(start), holder, err != nil)
			for k := range episode {
				if k.holder == holder {
					delete(episode, k)
				}
			}
		case 4: // administrator hold
			h := snaps[c.Draw("admin-snap", len(snaps))]
			if c.Draw("forever", 3) == 2 {
				err := snapstate.HoldRefreshesBySystem(st, snapstate.HoldGeneral, "forever", []string{h})
				c.Logf("t=%v admin holds %s forever err=%v", time.Now().Sub(start), h, err != nil)
				if err == nil {
					sysForever[h] = true
				}
			} else {
				until := time.Now().Add(time.Duration(1+c.Draw("admin-hours", 200*24)) * time.Hour)
				err := snapstate.HoldRefreshesBySystem(st, snapstate.HoldGeneral, until.Format(time.RFC3339), []string{h})
				c.Logf("t=%v admin holds %s for %v err=%v", time.Now().Sub(start), h, until.Sub(time.Now()), err != nil)
				if err == nil {
					sysForever[h] = false
					sysUntil[h] = until.Truncate(time.Second)
				}
			}
			c.Nontrivial()
		case 5: // a snap gets refreshed
			h := snaps[c.Draw("refreshed", len(snaps))]
			now := time.Now()
			err := snapstate.ResetGatingForRefreshed(st, h)
			setSnap(h, now)
			c.Logf("t=%v %s refreshed err=%v", now.Sub(start), h, err != nil)
			c.Count("probe:refresh-resets-holds")
			for k := range episode {
				if k.held == h {
					delete(episode, k)
				}
			}
		case 6: // time passes
			d := time.Duration(c.Draw("sleep-min", 40*24*60)) * time.Minute
			switch c.Draw("sleep-kind", 4) {
			case 1:
				d = time.Duration(c.Draw("sleep-short-min", 50*60)) * time.Minute
			case 2:
				d = time.Duration(80+c.Draw("sleep-days", 25)) * day
				c.Count("probe:clock-jump-over-80-days")
			}
			st.Unlock()
			time.Sleep(d)
			st.Lock()
			c.Logf("t=%v slept %v", time.Now().Sub(start), d)
		}
		observe(fmt.Sprintf("after op %d", i))
	}
	c.SimTime = time.Since(start)
}

func verifRunC15(c *verifsim.Ctx) {
	verifRunFixture(c, verifBodyC15)
}

var verifEngineC15 = &verifsim.Engine{
	Name:   "C/C15: snapstate refresh-hold gating on the simulated clock",
	Bubble: true,
	Run:    verifRunC15,
	Real:   []string{"overlord/snapstate: HoldRefresh, ProceedWithRefresh, HoldRefreshesBySystem, ResetGatingForRefreshed, HeldSnaps (both levels), hold-state pruning", "time (synctest fake clock, steps from minutes to 105 days)"},
	Stubs:  []string{"the refresh itself (ResetGatingForRefreshed + new last-refresh time, which is what link-snap does)", "snapctl refresh --hold front end (HoldRefresh is what it calls)"},
}
