package snapstate_test

// Crash points inside failing snap operations (C10, C11): every state the
// handlers write is recorded together with how much of the backend's work had
// happened by then; for a failed operation snapd is "restarted" from states
// written while the failure was being undone (only durable state and the
// system survive) and the resumed change must leave the snap as a run without
// the restart leaves it.

import (
	"bytes"
	"fmt"
	"sort"
	"testing/synctest"
	"time"

	"gopkg.in/tomb.v2"

	"github.com/snapcore/snapd/overlord"
	"github.com/snapcore/snapd/overlord/restart"
	"github.com/snapcore/snapd/overlord/snapstate"
	"github.com/snapcore/snapd/overlord/snapstate/snapstatetest"
	"github.com/snapcore/snapd/overlord/state"
)

type verifCheckpoint struct {
	data   []byte
	nops   int  // backend operations that had happened when it was written
	inUndo bool // written after the failure of the operation had fired
}

type verifRecBackend struct {
	s     *verifEngC
	inner state.Backend
}

func (b *verifRecBackend) Checkpoint(data []byte) error {
	s := b.s
	if s.recording {
		s.checkpoints = append(s.checkpoints, &verifCheckpoint{data: append([]byte(nil), data...), nops: len(s.fakeBackend.ops), inUndo: s.failFired})
	}
	return b.inner.Checkpoint(data)
}

func (b *verifRecBackend) EnsureBefore(d time.Duration) { b.inner.EnsureBefore(d) }

type verifNullBackend struct{}

func (verifNullBackend) Checkpoint([]byte) error    { return nil }
func (verifNullBackend) EnsureBefore(time.Duration) {}

func (s *verifEngC) recordCheckpoints() {
	s.state.Lock()
	s.state.VerifSetBackend(&verifRecBackend{s: s, inner: s.state.VerifBackend()})
	s.state.Unlock()
}

// resumeFrom restarts snapd from cp: a fresh state read back from it, fresh
// managers and task runner, the same system (the backend's operation log cut
// back to what had happened by then, plus extraOps operations that happened
// after the state was written but before the stop). It lets the change
// finish and returns the state.
// undoRecorded reports whether the state in cp already records that the
// change is failing (a task in Error, or the abort's marks): before that a
// restart simply runs the interrupted task again, which may well succeed.
func verifUndoRecorded(cp *verifCheckpoint, chgID string) bool {
	st2, err := state.ReadState(verifNullBackend{}, bytes.NewReader(cp.data))
	if err != nil {
		return true
	}
	st2.Lock()
	defer st2.Unlock()
	chg := st2.Change(chgID)
	if chg == nil {
		return false
	}
	for _, t := range chg.Tasks() {
		switch t.Status() {
		case state.ErrorStatus, state.UndoStatus, state.UndoingStatus, state.UndoneStatus, state.HoldStatus, state.AbortStatus:
			return true
		}
	}
	return false
}

func (s *verifEngC) resumeFrom(cp *verifCheckpoint, extraOps int) (*state.State, fakeOps, bool) {
	c := s.ctx
	s.fakeBackend.mu.Lock()
	full := append(fakeOps(nil), s.fakeBackend.ops...)
	n := cp.nops + extraOps
	if n > len(full) {
		n = len(full)
	}
	s.fakeBackend.ops = append(fakeOps(nil), full[:n]...)
	s.fakeBackend.mu.Unlock()
	failed := s.failedOps
	s.failedOps = map[int]bool{}
	for i, v := range failed {
		if i < n {
			s.failedOps[i] = v
		}
	}
	defer func() {
		s.fakeBackend.mu.Lock()
		s.fakeBackend.ops = full
		s.fakeBackend.mu.Unlock()
		s.failedOps = failed
	}()

	st2, err := state.ReadState(verifNullBackend{}, bytes.NewReader(cp.data))
	if err != nil {
		c.Violate(c.Prop+"/restart-cannot-read-state", "a state written while the operation was being undone does not load: %v", err)
		return nil, nil, false
	}
	runner := state.NewTaskRunner(st2)
	mgr, err := snapstate.Manager(st2, runner)
	if err != nil {
		c.Fatalf("snapstate.Manager on the reloaded state: %v", err)
	}
	se := overlord.NewStateEngine(st2)
	se.AddManager(mgr)
	se.AddManager(runner)
	AddForeignTaskHandlers(runner, s.fakeBackend)
	snapstate.SetSnapManagerBackend(mgr, s.fakeBackend)
	runner.VerifWrapHandlers(func(kind, which string, h state.HandlerFunc) state.HandlerFunc {
		return func(t *state.Task, tb *tomb.Tomb) error {
			return verifGuardPanic(c, t.Kind(), which+" (after the restart)", func() error { return h(t, tb) })
		}
	})
	st2.Lock()
	snapstate.ReplaceStore(st2, s.fakeStore)
	_, rerr := restart.Manager(st2, "boot-id-0", snapstatetest.MockRestartHandler(func(restart.RestartType) {}))
	st2.Unlock()
	if rerr != nil {
		c.Fatalf("restart.Manager on the reloaded state: %v", rerr)
	}
	if err := se.StartUp(); err != nil {
		c.Fatalf("StartUp on the reloaded state: %v", err)
	}
	settled := false
	for i := 0; i < 400 && !settled; i++ {
		se.Ensure()
		synctest.Wait()
		st2.Lock()
		settled = true
		for _, chg := range st2.Changes() {
			if !chg.IsReady() {
				settled = false
			}
		}
		st2.Unlock()
		if !settled {
			time.Sleep(50 * time.Millisecond)
		}
	}
	se.Stop()
	synctest.Wait()
	s.fakeBackend.mu.Lock()
	ops := append(fakeOps(nil), s.fakeBackend.ops...)
	s.fakeBackend.mu.Unlock()
	return st2, ops, settled
}

// crashSweepAfterFailedOp: snapd restarted from states written while the
// failed operation was being undone.
func (s *verifEngC) crashSweepAfterFailedOp(desc, snapName, chgID string, initial *verifWorld, beforeProj map[string]interface{}, cps []*verifCheckpoint) {
	c := s.ctx
	var undo []int
	for i, cp := range cps {
		if cp.inUndo && verifUndoRecorded(cp, chgID) {
			undo = append(undo, i)
		}
	}
	if len(undo) == 0 {
		return
	}
	// a handful of crash points per failed operation
	n := 1 + c.Draw("crash-points", 4)
	picked := map[int]bool{}
	for k := 0; k < n; k++ {
		picked[undo[c.Draw("crash-point", len(undo))]] = true
	}
	var order []int
	for i := range picked {
		order = append(order, i)
	}
	sort.Ints(order)
	for _, i := range order {
		cp := cps[i]
		extra := 0
		if i+1 < len(cps) && cps[i+1].nops > cp.nops {
			extra = c.Draw("ops-after-the-write", cps[i+1].nops-cp.nops+1)
		}
		st2, ops, settled := s.resumeFrom(cp, extra)
		if st2 == nil {
			return
		}
		c.Count("fault:restart-while-undoing-a-failed-operation")
		c.Nontrivial()
		where := fmt.Sprintf("%s, snapd restarted from the %d. state written while it was being undone (+%d backend operations)", desc, i+1, extra)
		if !settled {
			c.Violate(c.Prop+"/change-does-not-settle-after-restart", "%s: the change does not settle", where)
			return
		}
		st2.Lock()
		proj := verifProjection(st2, snapName)
		var after snapstate.SnapState
		have := snapstate.Get(st2, snapName, &after) == nil
		st2.Unlock()
		c.Logf("  restart at undo checkpoint %d (+%d ops): %s", i+1, extra, verifJSON(proj))
		if c.Active("C10") && verifJSON(proj) != verifJSON(beforeProj) {
			c.Violate("C10/state-not-restored-after-restart", "%s: the recorded snap state differs: before %s after %s", where, verifJSON(beforeProj), verifJSON(proj))
			return
		}
		if c.Active("C11") && have {
			save := s.fakeBackend.ops
			s.fakeBackend.ops = ops
			w := s.world(initial)
			s.fakeBackend.ops = save
			aseq := verifSeqRevs(&after)
			var mounted []int
			for r := range w.mounted[snapName] {
				mounted = append(mounted, r)
			}
			sort.Ints(mounted)
			sorted := append([]int(nil), aseq...)
			sort.Ints(sorted)
			if fmt.Sprint(mounted) != fmt.Sprint(sorted) {
				c.Violate("C11/kept-vs-mounted-after-restart", "%s: kept revisions %v but present on the system %v", where, aseq, mounted)
				return
			}
			if after.Active && w.linked[snapName] != after.Current.N {
				c.Violate("C11/linked-vs-current-after-restart", "%s: snap is active with current %d but revision %d is linked", where, after.Current.N, w.linked[snapName])
				return
			}
		}
	}
}
