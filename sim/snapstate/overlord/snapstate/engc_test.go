package snapstate_test

// Engine C: the real snapstate manager, handlers, conflict checks, sequence
// and config-snapshot helpers on the package's own fixture (snapmgrBaseTest:
// mock overlord, fake backend/store, fake handlers for other managers' task
// kinds), driven by the simulator: every handler is parked at a gate before
// its body and released one at a time in a seeded order; failures are
// injected before a task body, in backend calls and as user aborts.
// Decides C10, C11, C12, C13 (this file) and C14 (engc14_test.go).

import (
	"encoding/json"
	"errors"
	"fmt"
	"math/rand"
	"os"
	"path/filepath"
	"sort"
	"strconv"
	"strings"
	"sync"
	"testing/synctest"
	"time"

	check "gopkg.in/check.v1"
	"gopkg.in/tomb.v2"

	"context"

	"github.com/snapcore/snapd/asserts"
	"github.com/snapcore/snapd/asserts/assertstest"
	"github.com/snapcore/snapd/asserts/snapasserts"
	"github.com/snapcore/snapd/bootloader"
	"github.com/snapcore/snapd/bootloader/bootloadertest"
	"github.com/snapcore/snapd/dirs"
	"github.com/snapcore/snapd/overlord/assertstate"
	"github.com/snapcore/snapd/internal/verifsim"
	"github.com/snapcore/snapd/overlord/configstate/config"
	"github.com/snapcore/snapd/overlord/snapstate"
	"github.com/snapcore/snapd/overlord/snapstate/snapstatetest"
	"github.com/snapcore/snapd/overlord/state"
	"github.com/snapcore/snapd/randutil"
	"github.com/snapcore/snapd/release"
	"github.com/snapcore/snapd/snap"
)

type verifCParked struct {
	id, kind, which string
	ch              chan bool // true = fail before the body runs
	seen            bool
}

type verifEngC struct {
	snapmgrBaseTest
	ctx *verifsim.Ctx

	mu     sync.Mutex
	parked []*verifCParked
	// fault plan for the change being settled
	failKind  string // fail the first do-handler of this kind ...
	failNth   int    // ... that is the nth handler released in this change (-1: off)
	released  int
	failFired bool
	ranKinds  []string // do-handlers whose body completed in the current change, in order
	// a backend operation of the do direction fails: the opErrAt-th one that
	// reports errors, counted from the start of the change (-1: off)
	opErrAt    int
	opErrSeen  int
	opErrFired bool
	failedOps  map[int]bool // indices into fakeBackend.ops of operations that reported an injected error
	curWhich   string
	curKind    string
	// states written during the operation being settled (crash points)
	recording   bool
	checkpoints []*verifCheckpoint
	body      func(s *verifEngC, c *check.C)
	permute   bool
	revertedNotBlocked map[int]bool
	// C14: store calls made without the state lock park here
	storeYield  bool
	storeSeq    int
	storeParked []*verifStorePark
}

func verifNumLessC(a, b string) bool {
	x, _ := strconv.Atoi(a)
	y, _ := strconv.Atoi(b)
	return x < y
}

func (s *verifEngC) wrapHandlers() {
	r := s.o.TaskRunner()
	r.VerifWrapHandlers(func(kind, which string, h state.HandlerFunc) state.HandlerFunc {
		return func(t *state.Task, tb *tomb.Tomb) error {
			p := &verifCParked{id: t.ID(), kind: t.Kind(), which: which, ch: make(chan bool)}
			s.mu.Lock()
			s.parked = append(s.parked, p)
			s.mu.Unlock()
			if fail := <-p.ch; fail {
				return errors.New("verif: injected failure before " + p.kind)
			}
			err := verifGuardPanic(s.ctx, p.kind, which, func() error { return h(t, tb) })
			if which == "do" && err == nil {
				s.mu.Lock()
				s.ranKinds = append(s.ranKinds, p.kind)
				s.mu.Unlock()
			}
			return err
		}
	})
}

// verifGuardPanic turns a panic inside a task handler (which would take the
// daemon down) into a violation instead of the end of the simulator process.
func verifGuardPanic(c *verifsim.Ctx, kind, which string, f func() error) (err error) {
	defer func() {
		if r := recover(); r != nil {
			msg := fmt.Sprint(r)
			if len(msg) > 300 {
				msg = msg[:300]
			}
			c.Violate(c.Prop+"/handler-panic", "the %s handler of %s panics: %s", which, kind, msg)
			err = fmt.Errorf("verif: handler panicked: %s", msg)
		}
	}()
	return f()
}

func (s *verifEngC) sortedParked() []*verifCParked {
	s.mu.Lock()
	defer s.mu.Unlock()
	sort.Slice(s.parked, func(i, j int) bool {
		if s.parked[i].id != s.parked[j].id {
			return verifNumLessC(s.parked[i].id, s.parked[j].id)
		}
		return s.parked[i].which < s.parked[j].which
	})
	return append([]*verifCParked(nil), s.parked...)
}

func (s *verifEngC) releaseParked(p *verifCParked, fail bool) {
	s.mu.Lock()
	for i, q := range s.parked {
		if q == p {
			s.parked = append(s.parked[:i], s.parked[i+1:]...)
			break
		}
	}
	s.mu.Unlock()
	p.ch <- fail
	synctest.Wait()
}

func (s *verifEngC) releaseAll() {
	for {
		ps := s.sortedParked()
		if len(ps) == 0 {
			return
		}
		for _, p := range ps {
			s.releaseParked(p, false)
		}
	}
}

// settle drives the ensure loop and the parked handlers until every given
// change is ready and nothing is executing. abortChg, if set, may be aborted
// by the "user" at a drawn instant. Returns false if the step bound was hit.
func (s *verifEngC) settle(abortChg *state.Change, chgs ...*state.Change) bool {
	c := s.ctx
	for step := 0; step < 3000; step++ {
		s.permute = true
		s.se.Ensure()
		s.permute = false
		synctest.Wait()
		ps := s.sortedParked()
		for _, p := range ps {
			if !p.seen {
				p.seen = true
			}
		}
		if len(ps) > 1 {
			c.Count("probe:handlers-overlapped")
		}
		if os.Getenv("VERIF_DEBUG") != "" {
			l := ""
			for _, p := range ps {
				l += " " + p.id + ":" + p.kind + ":" + p.which
			}
			c.Logf("DEBUG step %d now=%v parked:%s", step, time.Now().Format("15:04:05.000"), l)
		}
		s.state.Lock()
		ready := true
		for _, chg := range chgs {
			if !chg.IsReady() {
				ready = false
			}
		}
		if abortChg != nil && !abortChg.IsReady() && c.Chance("abort?", 1, 12) {
			abortChg.Abort()
			c.Logf("user-abort")
			c.Count("fault:user-abort")
			c.Nontrivial()
			abortChg = nil
			s.failFired = true
		}
		s.state.Unlock()
		if len(ps) == 0 {
			if ready {
				return true
			}
			// retry delays of real handlers
			time.Sleep(time.Second)
			continue
		}
		k := c.Draw("release", len(ps)+1)
		if k == len(ps) {
			continue // an extra ensure pass first
		}
		p := ps[k]
		fail := false
		if p.which == "do" && !s.failFired && s.failNth >= 0 && s.released >= s.failNth && p.kind != "check-rerefresh" && (s.failKind == "" || s.failKind == p.kind) {
			fail = true
			s.failFired = true
			c.Logf("fail before %s (handler #%d of the change)", p.kind, s.released)
			c.Count("fault:task-failed-before-body")
			c.Nontrivial()
		} else {
			c.Logf("run %s %s", p.which, p.kind)
		}
		if p.which == "do" {
			s.released++
		}
		s.curWhich, s.curKind = p.which, p.kind
		s.releaseParked(p, fail)
		s.curWhich, s.curKind = "", ""
	}
	return false
}

// ---- observation

type verifWorld struct {
	mounted map[string]map[int]bool
	linked  map[string]int // 0 = none
	aliases map[string]map[string]bool
	copies  int
}

func verifPathNameRev(p string) (string, int) {
	b := filepath.Base(p)
	rev, _ := strconv.Atoi(b)
	if strings.HasPrefix(b, "x") {
		// local revisions (x1, x2, ...) are the negative ones
		n, _ := strconv.Atoi(b[1:])
		rev = -n
	}
	return filepath.Base(filepath.Dir(p)), rev
}

// world folds the fake backend's operation log into the system-visible side.
func (s *verifEngC) world(initial *verifWorld) *verifWorld {
	w := &verifWorld{mounted: map[string]map[int]bool{}, linked: map[string]int{}, aliases: map[string]map[string]bool{}}
	for n, m := range initial.mounted {
		w.mounted[n] = map[int]bool{}
		for r := range m {
			w.mounted[n][r] = true
		}
	}
	for n, r := range initial.linked {
		w.linked[n] = r
	}
	s.fakeBackend.mu.Lock()
	ops := append(fakeOps(nil), s.fakeBackend.ops...)
	s.fakeBackend.mu.Unlock()
	for i, op := range ops {
		if s.failedOps[i] {
			// the backend reported an (injected) error for it: it did not happen
			continue
		}
		switch op.op {
		case "setup-snap":
			if w.mounted[op.name] == nil {
				w.mounted[op.name] = map[int]bool{}
			}
			w.mounted[op.name][op.revno.N] = true
		case "undo-setup-snap", "remove-snap-files":
			n, r := verifPathNameRev(op.path)
			delete(w.mounted[n], r)
		case "link-snap":
			n, r := verifPathNameRev(op.path)
			w.linked[n] = r
		case "unlink-snap":
			n, r := verifPathNameRev(op.path)
			if w.linked[n] == r {
				w.linked[n] = 0
			}
		case "copy-data":
			w.copies++
		case "update-aliases":
			for _, a := range op.rmAliases {
				n := strings.SplitN(a.Target, ".", 2)[0]
				delete(w.aliases[n], a.Name)
			}
			for _, a := range op.aliases {
				n := strings.SplitN(a.Target, ".", 2)[0]
				if w.aliases[n] == nil {
					w.aliases[n] = map[string]bool{}
				}
				w.aliases[n][a.Name] = true
			}
		case "remove-snap-aliases":
			delete(w.aliases, op.name)
		}
	}
	return w
}

func (w *verifWorld) describe(name string) string {
	var revs []int
	for r := range w.mounted[name] {
		revs = append(revs, r)
	}
	sort.Ints(revs)
	var al []string
	for a := range w.aliases[name] {
		al = append(al, a)
	}
	sort.Strings(al)
	return fmt.Sprintf("mounted=%v linked=%d aliases=%v", revs, w.linked[name], al)
}

func verifSeqRevs(snapst *snapstate.SnapState) []int {
	var out []int
	for _, si := range snapst.Sequence.SideInfos() {
		out = append(out, si.Revision.N)
	}
	return out
}

// projection of the recorded snap state on the fields C10 lists (state lock held)
func verifProjection(st *state.State, name string) map[string]interface{} {
	var snapst snapstate.SnapState
	if err := snapstate.Get(st, name, &snapst); err != nil {
		return map[string]interface{}{"installed": false}
	}
	var cfg map[string]interface{}
	tr := config.NewTransaction(st)
	tr.GetMaybe(name, "", &cfg)
	var blocked []int
	for _, r := range snapst.Block() {
		blocked = append(blocked, r.N)
	}
	sort.Ints(blocked)
	// the marks that decide which kept revisions later reverts leave unblocked
	var notBlockedMarks []int
	for r, rs := range snapst.RevertStatus {
		if rs == snapstate.NotBlocked && snapst.LastIndex(snap.R(r)) >= 0 {
			notBlockedMarks = append(notBlockedMarks, r)
		}
	}
	sort.Ints(notBlockedMarks)
	return map[string]interface{}{
		"not-blocked-marks": notBlockedMarks,
		"installed": true, "current": snapst.Current.N, "kept": verifSeqRevs(&snapst), "active": snapst.Active, "channel": snapst.TrackingChannel,
		"devmode": snapst.DevMode, "jailmode": snapst.JailMode, "classic": snapst.Classic, "ignore-validation": snapst.IgnoreValidation,
		"cohort": snapst.CohortKey, "last-refresh": snapst.LastRefreshTime, "blocked": blocked, "config": cfg,
	}
}

func verifJSON(v interface{}) string {
	b, _ := json.Marshal(v)
	return string(b)
}

// ---- the history engine for C10-C13


func verifBodyHistory(s *verifEngC, gc *check.C) {
	c := s.ctx
	st := s.state
	onClassic := c.Draw("on-classic", 2) == 1
	// the snap of the history: an application snap, or (C11/C12) the model's
	// kernel snap on a core device, whose revisions named by the bootloader
	// variables are in use for booting
	verifSnapName, snapID, snapType := "some-snap", "some-snap-id", "app"
	isKernel := (c.Active("C12") || c.Active("C11")) && c.Draw("kernel-snap", 4) == 3
	bootVar, bootFile := "snap_kernel", "kernel_%d.snap"
	if isKernel {
		verifSnapName, snapID, snapType = "kernel", "kernel-id", "kernel"
		onClassic = false
		c.Count("probe:kernel-snap-history")
	}
	// ... or the core snap of a UC16 device, which is the boot base although
	// the model names no base
	isCore := !isKernel && (c.Active("C12") || c.Active("C11")) && c.Draw("core-snap", 5) == 4
	if isCore {
		verifSnapName, snapID, snapType = "core", "core-snap-id", "os"
		bootVar, bootFile = "snap_core", "core_%d.snap"
		onClassic = false
		c.Count("probe:core-snap-history")
	}
	bootSnap := isKernel || isCore
	tryVar := strings.Replace(bootVar, "snap_", "snap_try_", 1)
	defer release.MockOnClassic(onClassic)()
	s.wrapHandlers()
	defer s.releaseAll()
	crashes := (c.Prop == "C10" || c.Prop == "C11") && c.Draw("restarts-while-undoing", 2) == 1
	if crashes {
		s.recordCheckpoints()
	}
	s.opErrAt, s.failedOps = -1, map[int]bool{}
	s.fakeBackend.maybeInjectErr = func(op *fakeOp) error {
		if s.opErrAt < 0 || s.opErrFired || s.failFired || s.curWhich != "do" || s.curKind == "check-rerefresh" {
			return nil
		}
		s.opErrSeen++
		if s.opErrSeen <= s.opErrAt {
			return nil
		}
		s.opErrFired, s.failFired = true, true
		s.failedOps[len(s.fakeBackend.ops)-1] = true
		c.Logf("backend operation %s (in do %s) reports an error", op.op, s.curKind)
		c.Count("fault:backend-op-error")
		c.Count("fault:backend-op-error:" + op.op)
		c.Nontrivial()
		return errors.New("verif: injected backend error in " + op.op)
	}
	defer func() { s.fakeBackend.maybeInjectErr = nil }()

	// initial installation: 1-3 kept revisions, current is any of them
	initial := &verifWorld{mounted: map[string]map[int]bool{"core": {1: true}}, linked: map[string]int{"core": 1}}
	nextRev := 1
	installed := c.Draw("initially-installed", 4) != 3 || bootSnap
	st.Lock()
	if installed {
		nk := 1 + c.Draw("initial-kept", 4)
		var sis []*snap.SideInfo
		initial.mounted[verifSnapName] = map[int]bool{}
		for i := 0; i < nk; i++ {
			sis = append(sis, &snap.SideInfo{RealName: verifSnapName, SnapID: snapID, Revision: snap.R(nextRev)})
			initial.mounted[verifSnapName][nextRev] = true
			nextRev++
		}
		cur := sis[len(sis)-1-c.Draw("initial-current-back", nk)].Revision
		snapstate.Set(st, verifSnapName, &snapstate.SnapState{
			Active: true, Sequence: snapstatetest.NewSequenceFromSnapSideInfos(sis),
			TrackingChannel: "latest/stable", Current: cur, SnapType: snapType,
		})
		initial.linked[verifSnapName] = cur.N
		tr := config.NewTransaction(st)
		tr.Set(verifSnapName, "foo", "initial")
		tr.Commit()
	}
	st.Unlock()
	c.Logf("classic=%v installed=%v", onClassic, installed)
	retainCfg := 0
	faultsOn := c.Draw("faults", 4) != 1
	if !c.Active("C10") && !c.Active("C11") {
		faultsOn = false
	}
	nops := 2 + c.Draw("nops", 9)
	if c.Tier == "thorough" {
		nops += c.Draw("nops-more", 8)
	}
	for i := 0; i < nops && len(c.Violations) == 0; i++ {
		st.Lock()
		var before snapstate.SnapState
		have := snapstate.Get(st, verifSnapName, &before) == nil
		bseq := verifSeqRevs(&before)
		beforeProj := verifProjection(st, verifSnapName)
		beforeWorld := s.world(initial)
		copiesBefore := beforeWorld.copies
		// revisions the bootloader names are in use for booting
		inUse := map[int]bool{}
		if bootSnap && have {
			vars := map[string]string{bootVar: fmt.Sprintf(bootFile, before.Current.N), tryVar: "", "snap_mode": ""}
			inUse[before.Current.N] = true
			if len(bseq) > 1 && c.Draw("boot-vars", 2) == 1 {
				// the window between snapd switching the current revision (refresh or
				// revert) and the reboot: the device still runs another kept revision,
				// the current one is being tried
				b := bseq[c.Draw("booted-rev", len(bseq))]
				if b != before.Current.N {
					vars[bootVar] = fmt.Sprintf(bootFile, b)
					vars[tryVar] = fmt.Sprintf(bootFile, before.Current.N)
					vars["snap_mode"] = "try"
					inUse[b] = true
					c.Count("probe:try-and-current-kernel-both-in-use")
				}
			}
			s.bl.SetBootVars(vars)
			if isKernel && c.Active("C12") && len(bseq) > 1 && c.Draw("uc20-plan-probe", 3) == 2 {
				verifC12UC20PlanProbe(s, st, bseq, before.Current.N, nextRev)
			}
		}
		if isCore {
			// the setting is part of the core snap's own configuration, which snapd
			// saves and restores per revision: after a revert or a refresh of core to
			// a kept revision the value in force is the one that revision had
			var v interface{}
			if config.NewTransaction(st).Get("core", "refresh.retain", &v) == nil {
				if n, err := strconv.Atoi(fmt.Sprint(v)); err == nil {
					if n != retainCfg {
						c.Count("probe:retain-setting-switched-with-the-core-revision")
					}
					retainCfg = n
				}
			} else {
				retainCfg = 0
			}
		}
		var ts *state.TaskSet
		var err error
		desc := ""
		kind := ""
		target := 0
		op := c.Draw("op", 11)
		switch op {
		case 9:
			op = 2 // refreshes to kept revisions and explicit reverts carry the subtle undo paths
		case 10:
			op = 4
		}
		if c.Active("C13") && c.Draw("c13-more-reverts", 2) == 1 {
			op = 3 + c.Draw("c13-revert-kind", 2) // sequences of reverts in both directions are where the blocked set gets subtle
		}
		if isCore && (op == 6 || op == 8) {
			op = 0 // the boot base is neither disabled nor removed
		}
		if isKernel && (op == 6 || op == 8 || op == 2) {
			// the model's kernel is neither disabled nor removed; a refresh to a
			// kept revision reads the snap's type from the fixture's fake ReadInfo,
			// which does not know "kernel" is a kernel (the in-use check is then
			// skipped for a reason that is the stub's, not snapd's)
			op = 0
		}
		switch {
		case !have:
			target = nextRev
			nextRev++
			ts, err = snapstate.Install(nil, st, verifSnapName, &snapstate.RevisionOptions{Revision: snap.R(target)}, s.user.ID, snapstate.Flags{})
			desc, kind = fmt.Sprintf("install rev %d", target), "install"
		case op <= 1 && !bootSnap && (c.Active("C12") || c.Active("C11")) && c.Draw("from-a-local-directory", 4) == 3:
			// a new revision that comes from a local directory (snap try), not the store
			target = -1
			for _, r := range bseq {
				if r <= target {
					target = r - 1
				}
			}
			dir := filepath.Join(dirs.GlobalRootDir, fmt.Sprintf("verif-try-%d", i))
			os.MkdirAll(filepath.Join(dir, "meta"), 0755)
			os.WriteFile(filepath.Join(dir, "meta", "snap.yaml"), []byte("name: "+verifSnapName+"\nversion: 1.0\nepoch: 1*\n"), 0644)
			ts, err = snapstate.TryPath(st, verifSnapName, dir, snapstate.Flags{})
			desc, kind = fmt.Sprintf("refresh to new local rev %d (snap try)", target), "refresh"
			c.Count("probe:refresh-from-a-local-directory")
		case op <= 1: // refresh to a new revision, maybe switching channel
			target = nextRev
			nextRev++
			s.fakeStore.refreshRevnos = map[string]snap.Revision{snapID: snap.R(target)}
			var opts *snapstate.RevisionOptions
			if c.Draw("switch-channel", 3) == 2 {
				opts = &snapstate.RevisionOptions{Channel: "some-channel"}
			}
			ts, err = snapstate.Update(st, verifSnapName, opts, s.user.ID, snapstate.Flags{})
			desc, kind = fmt.Sprintf("refresh to new rev %d (opts %v)", target, opts != nil), "refresh"
		case op == 2: // refresh to an already kept revision
			target = bseq[c.Draw("kept-target", len(bseq))]
			ts, err = snapstate.Update(st, verifSnapName, &snapstate.RevisionOptions{Revision: snap.R(target)}, s.user.ID, snapstate.Flags{})
			desc, kind = fmt.Sprintf("refresh to kept rev %d", target), "refresh"
		case op == 3: // revert to previous
			flags := snapstate.Flags{}
			if c.Draw("revert-not-blocked", 3) == 2 {
				flags.RevertStatus = snapstate.NotBlocked
			}
			ts, err = snapstate.Revert(st, verifSnapName, flags, "")
			if idx := before.LastIndex(before.Current); idx > 0 {
				target = bseq[idx-1]
			}
			desc, kind = fmt.Sprintf("revert (not-blocked=%v)", flags.RevertStatus == snapstate.NotBlocked), "revert"
		case op == 4: // revert to a given revision (kept or not)
			if c.Draw("revert-unknown-rev", 5) == 4 {
				target = 990 + c.Draw("unknown", 5)
			} else {
				target = bseq[c.Draw("revert-target", len(bseq))]
			}
			flags := snapstate.Flags{}
			if c.Draw("revert-not-blocked", 3) == 2 {
				flags.RevertStatus = snapstate.NotBlocked
			}
			ts, err = snapstate.RevertToRevision(st, verifSnapName, snap.R(target), flags, "")
			desc, kind = fmt.Sprintf("revert to rev %d (not-blocked=%v)", target, flags.RevertStatus == snapstate.NotBlocked), "revert"
		case op == 5: // retain setting
			retainCfg = 2 + c.Draw("retain", 5)
			tr := config.NewTransaction(st)
			if c.Draw("retain-as-string", 2) == 1 {
				tr.Set("core", "refresh.retain", strconv.Itoa(retainCfg))
			} else {
				tr.Set("core", "refresh.retain", retainCfg)
			}
			tr.Commit()
			c.Logf("op %d: refresh.retain=%d", i, retainCfg)
			st.Unlock()
			continue
		case op == 6: // disable / enable
			if before.Active {
				ts, err = snapstate.Disable(st, verifSnapName)
				desc, kind = "disable", "disable"
			} else {
				ts, err = snapstate.Enable(st, verifSnapName)
				desc, kind = "enable", "enable"
			}
		case op == 7: // config write
			tr := config.NewTransaction(st)
			tr.Set(verifSnapName, "foo", "v"+strconv.Itoa(i))
			tr.Commit()
			c.Logf("op %d: config foo=v%d", i, i)
			st.Unlock()
			continue
		case op == 8: // remove (whole snap or one revision)
			if c.Draw("remove-all", 3) == 2 || len(bseq) == 1 {
				ts, err = snapstate.Remove(st, verifSnapName, snap.R(0), nil)
				desc, kind = "remove", "remove"
			} else {
				target = bseq[c.Draw("remove-rev", len(bseq))]
				ts, err = snapstate.Remove(st, verifSnapName, snap.R(target), nil)
				desc, kind = fmt.Sprintf("remove rev %d", target), "remove-rev"
			}
		}
		if err != nil {
			c.Logf("op %d: %s with kept=%v current=%d active=%v: refused: %v", i, desc, bseq, before.Current.N, before.Active, err)
			c.Count("requests-refused")
			after := verifProjection(st, verifSnapName)
			if verifJSON(after) != verifJSON(beforeProj) && (c.Active("C13") || c.Active("C10")) {
				c.Violate(c.Prop+"/refused-request-changed-state", "%s was refused (%v) but the snap state changed: %s -> %s", desc, err, verifJSON(beforeProj), verifJSON(after))
			}
			if kind == "revert" && c.Active("C13") {
				c.Count("probe:revert-refused")
			}
			st.Unlock()
			continue
		}
		if kind == "revert" && c.Active("C13") {
			// preconditions of the statement: must have been refused
			kept := false
			for _, r := range bseq {
				if r == target {
					kept = true
				}
			}
			switch {
			case !kept:
				c.Violate("C13/revert-to-unkept-accepted", "%s accepted although revision %d is not kept (%v)", desc, target, bseq)
			case target == before.Current.N:
				c.Violate("C13/revert-to-current-accepted", "%s accepted although revision %d is already current", desc, target)
			case !before.Active:
				c.Violate("C13/revert-of-disabled-accepted", "%s accepted although the snap is disabled", desc)
			}
		}
		chg := st.NewChange("op", desc)
		chg.AddAll(ts)
		nTasks := len(ts.Tasks())
		// fault plan for this change
		s.failNth, s.failKind, s.released, s.failFired, s.ranKinds = -1, "", 0, false, nil
		s.opErrAt, s.opErrSeen, s.opErrFired = -1, 0, false
		var abortChg *state.Change
		s.fakeBackend.linkSnapFailTrigger = ""
		s.fakeBackend.copySnapDataFailTrigger = ""
		delete(s.fakeStore.downloadError, verifSnapName)
		faulted := false
		// (C11 is about every settled change: there every kind of operation may fail)
		if faultsOn && (kind == "install" || kind == "refresh" || kind == "revert" || c.Prop == "C11") && c.Draw("fail-this-op", 5) >= 3 {
			faulted = true
			switch c.Draw("fault-kind", 8) {
			case 6, 7:
				// a backend operation inside some do handler reports an error
				s.opErrAt = c.Draw("fail-at-backend-op", nTasks)
				c.Count("fault:backend-op-error-armed")
			case 0, 1, 2:
				// any task of the change; the later half twice as likely (undo after link-snap)
				s.failNth = c.Draw("fail-at-handler", nTasks+nTasks/2)
				if s.failNth >= nTasks {
					s.failNth = nTasks/2 + (s.failNth - nTasks)
				}
			case 3:
				abortChg = chg
			case 4:
				// (not when the target is the current revision: the undo would
				// have to link the very same revision and fail too, and failing
				// undos are outside the property)
				if target > 0 && target != before.Current.N {
					s.fakeBackend.linkSnapFailTrigger = filepath.Join(dirs.SnapMountDir, verifSnapName, strconv.Itoa(target))
					c.Count("fault:link-snap-error-armed")
				}
			case 5:
				if kind != "revert" {
					s.fakeStore.downloadError[verifSnapName] = errors.New("verif: download failed")
					c.Count("fault:download-error-armed")
				}
			}
		}
		st.Unlock()
		c.Logf("op %d: %s with kept=%v current=%d active=%v retain=%d (%d tasks)", i, desc, bseq, before.Current.N, before.Active, retainCfg, nTasks)
		s.checkpoints, s.recording = nil, crashes
		ok := s.settle(abortChg, chg)
		s.recording = false
		if !ok {
			st.Lock()
			dump := ""
			for _, t := range chg.Tasks() {
				dump += fmt.Sprintf(" %s:%s=%v", t.ID(), t.Kind(), t.Status())
				for _, wt := range t.WaitTasks() {
					dump += "<" + wt.ID()
				}
			}
			st.Unlock()
			c.Violate(c.Prop+"/change-does-not-settle", "%s did not settle within the step bound:%s", desc, dump)
			return
		}
		st.Lock()
		var after snapstate.SnapState
		haveAfter := snapstate.Get(st, verifSnapName, &after) == nil
		aseq := verifSeqRevs(&after)
		afterProj := verifProjection(st, verifSnapName)
		w := s.world(initial)
		status := chg.Status()
		c.Logf("  -> %v kept=%v current=%d active=%v blocked=%v world: %s", status, aseq, after.Current.N, after.Active, afterProj["blocked"], w.describe(verifSnapName))
		failed := status != state.DoneStatus
		if failed {
			c.Nontrivial()
			c.Count("probe:change-failed")
		}
		if !faulted && failed {
			c.Violate(c.Prop+"/unexpected-failure", "%s failed without an injected fault: %v", desc, chg.Err())
		}

		if !failed && haveAfter {
			if kind == "refresh" || kind == "install" {
				delete(s.revertedNotBlocked, after.Current.N)
			}
		}

		// ---- C10
		if c.Active("C10") && failed && (kind == "install" || kind == "refresh" || kind == "revert") {
			c.Count("c10-failed-operations-compared")
			if verifJSON(afterProj) != verifJSON(beforeProj) {
				// the one difference known from the design round: revisions
				// garbage-collected by a completed discard-snap cannot come back
				cls := "C10/state-not-restored"
				gcRan := false
				for _, k := range s.ranKinds {
					if k == "discard-snap" {
						gcRan = true
					}
				}
				if gcRan && beforeProj["installed"] == true && afterProj["installed"] == true {
					bp, ap := map[string]interface{}{}, map[string]interface{}{}
					for k, v := range beforeProj {
						bp[k] = v
					}
					for k, v := range afterProj {
						ap[k] = v
					}
					delete(bp, "kept")
					delete(ap, "kept")
					delete(bp, "blocked")
					delete(ap, "blocked")
					// (the marks of the lost revisions went with them)
					delete(bp, "not-blocked-marks")
					delete(ap, "not-blocked-marks")
					subseq := true
					j := 0
					for _, r := range aseq {
						for j < len(bseq) && bseq[j] != r {
							j++
						}
						if j == len(bseq) {
							subseq = false
						}
					}
					if verifJSON(bp) == verifJSON(ap) && subseq && len(aseq) < len(bseq) {
						cls = "C10/kept-revisions-lost:garbage-collected-before-the-failure"
					}
				}
				c.Violate(cls, "%s failed (%v) but the recorded snap state differs: before %s after %s (tasks completed: %v)", desc, status, verifJSON(beforeProj), verifJSON(afterProj), s.ranKinds)
			}
			bw, aw := beforeWorld.describe(verifSnapName), w.describe(verifSnapName)
			if bw != aw {
				gcRan := false
				for _, k := range s.ranKinds {
					if k == "discard-snap" {
						gcRan = true
					}
				}
				cls := "C10/system-not-restored"
				if gcRan && beforeWorld.linked[verifSnapName] == w.linked[verifSnapName] {
					cls = "C10/kept-revisions-lost:garbage-collected-before-the-failure"
				}
				c.Violate(cls, "%s failed (%v) but the system side differs: before %s after %s", desc, status, bw, aw)
			}
		}

		// ---- restarts while the failed operation was being undone
		if crashes && failed && len(c.Violations) == 0 && (kind == "install" || kind == "refresh" || kind == "revert") && verifJSON(afterProj) == verifJSON(beforeProj) {
			s.crashSweepAfterFailedOp(desc, verifSnapName, chg.ID(), initial, beforeProj, s.checkpoints)
		}

		// ---- C11
		if c.Active("C11") {
			c.Count("c11-settled-changes-checked")
			c.Nontrivial()
			if !haveAfter {
				if len(w.mounted[verifSnapName]) != 0 || w.linked[verifSnapName] != 0 {
					c.Violate("C11/removed-snap-left-behind", "snap is not recorded any more but the system has %s", w.describe(verifSnapName))
				}
				var cfg map[string]interface{}
				tr := config.NewTransaction(st)
				tr.GetMaybe(verifSnapName, "", &cfg)
				if len(cfg) != 0 {
					c.Violate("C11/removed-snap-config-left", "snap is removed but configuration %v remains", cfg)
				}
				var revcfg map[string]map[string]interface{}
				st.Get("revision-config", &revcfg)
				if len(revcfg[verifSnapName]) != 0 {
					c.Violate("C11/removed-snap-config-left", "snap is removed but its per-revision configuration snapshots remain: %v", revcfg[verifSnapName])
				}
				if kind == "remove" {
					c.Count("probe:snap-removed")
				}
			} else {
				inSeq := false
				for _, r := range aseq {
					if r == after.Current.N {
						inSeq = true
					}
				}
				if !inSeq {
					c.Violate("C11/current-not-kept", "current revision %d is not among the kept revisions %v", after.Current.N, aseq)
				}
				var mounted []int
				for r := range w.mounted[verifSnapName] {
					mounted = append(mounted, r)
				}
				sort.Ints(mounted)
				sorted := append([]int(nil), aseq...)
				sort.Ints(sorted)
				if fmt.Sprint(mounted) != fmt.Sprint(sorted) {
					c.Violate("C11/kept-vs-mounted", "kept revisions %v but present on the system %v", aseq, mounted)
				}
				if after.Active && w.linked[verifSnapName] != after.Current.N {
					c.Violate("C11/linked-vs-current", "snap is active with current %d but revision %d is linked", after.Current.N, w.linked[verifSnapName])
				}
				if !after.Active && w.linked[verifSnapName] != 0 {
					c.Violate("C11/linked-while-inactive", "snap is inactive but revision %d is linked", w.linked[verifSnapName])
				}
			}
		}

		// ---- C12
		if c.Active("C12") && kind == "refresh" && !failed {
			c.Count("c12-refreshes-checked")
			c.Nontrivial()
			retain := retainCfg
			if retain == 0 {
				retain = 3
				if onClassic {
					retain = 2
				}
			}
			n0, n1 := len(bseq), len(aseq)
			// kept revisions still needed for booting do not count
			u := 0
			for r := range inUse {
				if r != after.Current.N {
					u++
				}
				kept := false
				for _, a := range aseq {
					if a == r {
						kept = true
					}
				}
				wasKeptBefore := false
				for _, b := range bseq {
					if b == r {
						wasKeptBefore = true
					}
				}
				if wasKeptBefore && (!kept || !w.mounted[verifSnapName][r]) && before.LastIndex(snap.R(r)) > before.LastIndex(before.Current) {
					c.Violate("C12/in-use-revision-discarded:booted-revision-left-over-after-current", "revision %d is the one the device is still running (reverted from, reboot pending) but the refresh discarded it with the other revisions after the current one (kept %v -> %v, %s)", r, bseq, aseq, w.describe(verifSnapName))
				} else if wasKeptBefore && (!kept || !w.mounted[verifSnapName][r]) {
					c.Violate("C12/in-use-revision-discarded", "revision %d is in use for booting but was discarded by the refresh (kept %v -> %v, %s)", r, bseq, aseq, w.describe(verifSnapName))
				}
				if wasKeptBefore {
					c.Count("probe:in-use-revision-survived-refresh")
				}
			}
			n1 -= u
			max := retain
			if n0 > max {
				max = n0
			}
			if n1 > max {
				c.Violate("C12/too-many-kept", "%d revisions kept after the refresh, setting %d, %d before", n1, retain, n0)
			}
			wasKept := false
			for _, r := range bseq {
				if r == target {
					wasKept = true
				}
			}
			if !wasKept && n1 > retain {
				c.Violate("C12/too-many-kept-after-new-revision", "refresh to new revision %d leaves %d kept, setting %d", target, n1, retain)
			}
			if !wasKept && n0 >= retain {
				c.Count("probe:refresh-discarded-old-revision")
			}
			oldIdx := before.LastIndex(before.Current)
			for _, r := range bseq[oldIdx+1:] {
				for _, a := range aseq {
					if a == r && r != target && !inUse[r] {
						c.Violate("C12/after-current-not-discarded", "revision %d, after the old current %d, is still kept (%v)", r, before.Current.N, aseq)
					}
				}
				c.Count("probe:refresh-with-revisions-after-current")
			}
			if after.Current.N != target {
				c.Violate("C12/new-current-missing", "refresh to %d settled Done but current is %d", target, after.Current.N)
			}
			if !w.mounted[verifSnapName][target] {
				c.Violate("C12/new-current-discarded", "the new current revision %d is not present on the system (%s)", target, w.describe(verifSnapName))
			}
		}

		// ---- C13
		if c.Active("C13") && kind == "revert" && !failed {
			c.Count("c13-reverts-checked")
			c.Nontrivial()
			if fmt.Sprint(aseq) != fmt.Sprint(bseq) {
				c.Violate("C13/order-changed", "revert changed the kept revisions %v -> %v", bseq, aseq)
			}
			if after.Current.N != target {
				c.Violate("C13/wrong-current", "revert to %d settled Done but current is %d", target, after.Current.N)
			}
			if w.copies != copiesBefore {
				c.Violate("C13/data-copied", "revert copied snap data (%d copy operations)", w.copies-copiesBefore)
			}
			idx := after.LastIndex(after.Current)
			blocked := map[int]bool{}
			for _, b := range after.Block() {
				blocked[b.N] = true
			}
			notBlocked := strings.Contains(desc, "not-blocked=true")
			// revisions that were reverted away from with a not-blocking request
			// stay unblocked until they become current again
			if notBlocked {
				s.revertedNotBlocked[before.Current.N] = true
				if blocked[before.Current.N] {
					c.Violate("C13/blocked-although-not-requested", "revert away from revision %d was requested as not blocking but it is blocked (%v)", before.Current.N, after.Block())
				}
			} else {
				delete(s.revertedNotBlocked, before.Current.N)
				for _, r := range aseq[idx+1:] {
					if !blocked[r] && !s.revertedNotBlocked[r] {
						c.Violate("C13/reverted-from-not-blocked", "revision %d after the new current %d is not excluded from refreshes (blocked: %v)", r, after.Current.N, after.Block())
					}
				}
			}
			if len(aseq[idx+1:]) > 0 {
				c.Count("probe:revert-left-revisions-after-current")
			}
			// end to end: the store offers a revision this revert blocked (with or
			// without an enforced validation set that pins the snap to exactly
			// that revision) and everything is refreshed
			if !notBlocked && len(aseq[idx+1:]) > 0 && c.Draw("c13-refresh-all-probe", 2) == 1 {
				rs := aseq[idx+1:]
				r := rs[c.Draw("c13-offered-revision", len(rs))]
				if !s.revertedNotBlocked[r] {
					pinned := c.Draw("c13-validation-set-pins-it", 2) == 1
					restore := func() {}
					if pinned {
						restore = snapstate.MockEnforcedValidationSets(func(*state.State, ...*asserts.ValidationSet) (*snapasserts.ValidationSets, error) {
							vs := snapasserts.NewValidationSets()
							a := assertstest.FakeAssertion(map[string]interface{}{
								"type": "validation-set", "authority-id": "foo", "series": "16", "account-id": "foo",
								"name": "bar", "sequence": "2", "timestamp": "2030-11-06T09:16:26Z",
								"snaps": []interface{}{map[string]interface{}{
									"id": "yOqKhntON3vR7kwEbVPsILm7bUViPDzx", "name": verifSnapName, "presence": "required", "revision": strconv.Itoa(r),
								}},
							})
							vs.Add(a.(*asserts.ValidationSet))
							return vs, nil
						})
						assertstate.UpdateValidationSet(st, &assertstate.ValidationSetTracking{AccountID: "foo", Name: "bar", Mode: assertstate.Enforce, Current: 2})
						c.Count("probe:refresh-all-with-validation-set-pinning-the-blocked-revision")
					}
					prev, hadPrev := s.fakeStore.refreshRevnos[snapID]
					if s.fakeStore.refreshRevnos == nil {
						s.fakeStore.refreshRevnos = map[string]snap.Revision{}
					}
					s.fakeStore.refreshRevnos[snapID] = snap.R(r)
					nTasksBefore := st.TaskCount()
					updated, _, uerr := snapstate.UpdateMany(context.Background(), st, nil, nil, s.user.ID, &snapstate.Flags{})
					c.Logf("  refresh of everything with the store offering blocked revision %d (pinned=%v): updated=%v err=%v", r, pinned, updated, uerr != nil)
					c.Count("probe:refresh-all-with-the-store-offering-a-blocked-revision")
					for _, u := range updated {
						if u == verifSnapName {
							c.Violate("C13/blocked-revision-offered-by-refresh", "after the revert to %d a refresh of everything takes the snap to revision %d again, which the revert blocked (validation set pinning it: %v)", after.Current.N, r, pinned)
						}
					}
					_ = nTasksBefore
					if hadPrev {
						s.fakeStore.refreshRevnos[snapID] = prev
					} else {
						delete(s.fakeStore.refreshRevnos, snapID)
					}
					if pinned {
						assertstate.ForgetValidationSet(st, "foo", "bar", assertstate.ForgetValidationSetOpts{})
					}
					restore()
				}
			}
		}
		st.Unlock()
	}
}

// verifC12UC20PlanProbe: the same kernel snap on a device that boots with a
// run-mode bootloader (UC20): the bootloader names the kernel it boots and,
// possibly, a kernel to try next, under every kernel_status value. A refresh
// to a new revision is planned (task set built, never run) and the
// discard-snap tasks in it must not name a revision the bootloader refers to.
func verifC12UC20PlanProbe(s *verifEngC, st *state.State, kept []int, current, newRev int) {
	c := s.ctx
	bl := bootloadertest.Mock("mock", filepath.Join(dirs.GlobalRootDir, "verif-uc20-bl")).WithExtractedRunKernelImage()
	bootloader.Force(bl)
	defer bootloader.Force(s.bl)
	run := kept[c.Draw("uc20-running-kernel", len(kept))]
	inUse := map[int]bool{run: true}
	defer bl.SetEnabledKernel(snap.MinimalPlaceInfo("kernel", snap.R(run)))()
	try := 0
	if c.Draw("uc20-has-try-kernel", 3) != 0 {
		try = kept[c.Draw("uc20-try-kernel", len(kept))]
		if try != run {
			defer bl.SetEnabledTryKernel(snap.MinimalPlaceInfo("kernel", snap.R(try)))()
			inUse[try] = true
		} else {
			try = 0
		}
	}
	status := []string{"", "try", "trying"}[c.Draw("uc20-kernel-status", 3)]
	bl.SetBootVars(map[string]string{"kernel_status": status})
	deviceCtx := &snapstatetest.TrivialDeviceContext{DeviceModel: MakeModel20("brand-gadget", nil), CtxStore: s.fakeStore}
	defer snapstatetest.MockDeviceContext(deviceCtx)()
	if s.fakeStore.refreshRevnos == nil {
		s.fakeStore.refreshRevnos = map[string]snap.Revision{}
	}
	prev, hadPrev := s.fakeStore.refreshRevnos["kernel-id"]
	s.fakeStore.refreshRevnos["kernel-id"] = snap.R(newRev)
	defer func() {
		if hadPrev {
			s.fakeStore.refreshRevnos["kernel-id"] = prev
		} else {
			delete(s.fakeStore.refreshRevnos, "kernel-id")
		}
	}()
	ts, err := snapstate.UpdateWithDeviceContext(st, "kernel", nil, s.user.ID, snapstate.Flags{}, nil, deviceCtx, "")
	c.Count("probe:uc20-refresh-planned")
	if try != 0 {
		c.Count("probe:uc20-refresh-planned-with-try-kernel:status=" + status)
	}
	if err != nil {
		c.Logf("  uc20 plan probe: kept=%v running=%d try=%d status=%q: %v", kept, run, try, status, err)
		c.Count("probe:uc20-refresh-plan-refused")
		return
	}
	// (the plan is only read: its change is aborted before anything runs)
	probeChg := st.NewChange("verif-plan-probe", "planned UC20 kernel refresh")
	probeChg.AddAll(ts)
	defer probeChg.Abort()
	var discarded []int
	for _, t := range ts.Tasks() {
		if t.Kind() != "discard-snap" {
			continue
		}
		snapsup, err := snapstate.TaskSnapSetup(t)
		if err != nil {
			c.Violate("C12/plan-unreadable", "cannot read the snap setup of a planned discard-snap task: %v", err)
			continue
		}
		discarded = append(discarded, snapsup.Revision().N)
		if inUse[snapsup.Revision().N] {
			what := "the kernel the bootloader boots"
			if snapsup.Revision().N == try {
				what = fmt.Sprintf("the kernel the bootloader is to try next (kernel_status=%q)", status)
			}
			c.Violate("C12/in-use-revision-discarded", "UC20: a refresh of the kernel (kept %v, current %d) to new revision %d plans to discard revision %d, which is %s", kept, current, newRev, snapsup.Revision().N, what)
		}
	}
	kinds := ""
	if os.Getenv("VERIF_DEBUG") != "" {
		for _, t := range ts.Tasks() {
			kinds += " " + t.Kind()
		}
	}
	c.Logf("  uc20 plan probe: kept=%v current=%d running=%d try=%d status=%q -> discards %v%s", kept, current, run, try, status, discarded, kinds)
	if len(discarded) > 0 {
		c.Nontrivial()
	}
}

func (s *verifEngC) TestVerifBody(gc *check.C) {
	s.body(s, gc)
}

// verifOrderHooks pins State.Tasks()/Changes() (Go map order otherwise):
// numeric id order, and during ensure passes a permutation drawn from the tape.
func verifOrderHooks(c *verifsim.Ctx, permute *bool) func() {
	state.VerifOrderTasks = func(ts []*state.Task) {
		sort.Slice(ts, func(i, j int) bool { return verifNumLessC(ts[i].ID(), ts[j].ID()) })
		if *permute && len(ts) > 1 {
			switch c.Draw("tasks-order", 3) {
			case 1:
				for i, j := 0, len(ts)-1; i < j; i, j = i+1, j-1 {
					ts[i], ts[j] = ts[j], ts[i]
				}
			case 2:
				k := c.Draw("tasks-rot", len(ts))
				rot := append(append([]*state.Task{}, ts[k:]...), ts[:k]...)
				copy(ts, rot)
			}
		}
	}
	state.VerifOrderChanges = func(cs []*state.Change) {
		sort.Slice(cs, func(i, j int) bool { return verifNumLessC(cs[i].ID(), cs[j].ID()) })
	}
	return func() { state.VerifOrderTasks = nil; state.VerifOrderChanges = nil }
}

func verifRunFixture(c *verifsim.Ctx, body func(s *verifEngC, gc *check.C)) {
	t0 := time.Now()
	// snapd draws from the global math/rand (randutil): pin it per run
	randutil.RandomDuration(1)
	rand.Seed(int64(c.Seed*1000003 + c.Run))
	suite := &verifEngC{ctx: c, body: body, revertedNotBlocked: map[int]bool{}}
	defer verifOrderHooks(c, &suite.permute)()
	res := check.Run(suite, &check.RunConf{Filter: "TestVerifBody"})
	if !res.Passed() && len(c.Violations) == 0 {
		c.Fatalf("fixture failed: %s", res.String())
	}
	c.SimTime = time.Since(t0)
}

func verifRunC(c *verifsim.Ctx) { verifRunFixture(c, verifBodyHistory) }

var verifEngineC = &verifsim.Engine{
	Name:   "C: overlord/snapstate manager + real task handlers under a seeded scheduler, simulated backend/store/hooks",
	Bubble: true,
	Run:    verifRunC,
	Real: []string{"overlord/snapstate: Install/Update/Revert/RevertToRevision/Remove/Enable/Disable request paths, all snapstate task handlers and their undo (prerequisites, download, mount, copy-data, unlink/link, aliases, discard, cleanup ...), sequence handling, refresh.retain garbage collection, per-revision config snapshots",
		"overlord/state TaskRunner and state engine", "overlord/configstate/config transactions"},
	Stubs: []string{"snapstate's managerBackend (the package's fakeSnappyBackend: records operations; the simulator folds its log into a world model of mounted/linked revisions and aliases)",
		"store (package's fakeStore serving the revisions the history asks for)", "other managers' task kinds (fixture fakes: run-hook, setup-profiles, auto-connect, ...)", "device model, bootloader (fixture mocks)"},
}
