package boot_test

// C17: kernel and base updates can always fall back to the last known-good
// revision.
//
// One run = one device history. Real snapd code does every boot-state
// decision (SetNextBoot, MarkBootSuccessful, the initramfs selection and the
// initramfs status update of non-scriptable bootloaders, modeenv I/O); the
// bootloader storage is a bootloadertest mock wrapped so that every mutating
// call is a numbered write around which a power loss can be injected; the
// firmware (grub.cfg kernel_status logic, UC16 snap_mode logic, the one-shot
// tryboot flag of piboot-like firmware) is a transcription.
//
// The oracle is a model of the statement only: per boot snap type the last
// known-good revision, the revision(s) under trial, and the revisions an
// interrupted promotion/undo may legitimately have left as the default.

import (
	"errors"
	"fmt"
	"os"
	"path/filepath"
	"sort"
	"strings"

	"github.com/snapcore/snapd/asserts"
	"github.com/snapcore/snapd/boot"
	"github.com/snapcore/snapd/boot/boottest"
	"github.com/snapcore/snapd/bootloader"
	"github.com/snapcore/snapd/bootloader/bootloadertest"
	"github.com/snapcore/snapd/dirs"
	"github.com/snapcore/snapd/internal/verifsim"
	"github.com/snapcore/snapd/osutil/kcmdline"
	"github.com/snapcore/snapd/snap"
)

var verifEngineC17 = &verifsim.Engine{
	Name:   "boot",
	Bubble: false,
	Run:    verifRunC17,
	Real: []string{
		"boot.Participant(...).SetNextBoot (coreBootParticipant, bootState16, bootState20Kernel, bootState20Base, genericSetNext)",
		"boot.MarkBootSuccessful (bootState16/20 markSuccessful, selectSuccessfulBootSnap, boot assets/command line/recovery system/model bookkeeping)",
		"bootStateUpdate16.commit, bootStateUpdate20.commit (pre-modeenv tasks, modeenv write, post-modeenv tasks)",
		"extractedRunKernelImageBootloaderKernelState and envRefExtractedKernelBootloaderKernelState (setNextKernel, setNextKernelNoTry, markSuccessfulKernel)",
		"boot.InitramfsRunModeSelectSnapsToMount (genericInitramfsSelectSnap, base try->trying->\"\" in modeenv, kernel trust check against current_kernels, reboot request)",
		"boot.InitramfsRunModeUpdateBootloaderVars / updateNotScriptableBootloaderStatus with kcmdline reading a mocked /proc/cmdline",
		"boot.Modeenv read/write on real files in a scratch root (osutil.AtomicWriteFile)",
	},
	Stubs: []string{
		"bootloader storage: bootloadertest.MockBootloader / WithExtractedRunKernelImage / WithNotScriptable behind bootloader.Force, wrapped so each SetBootVars/EnableKernel/EnableTryKernel/DisableTryKernel/SetBootVarsFromInitramfs is a numbered, individually atomic write",
		"firmware: transcription of bootloader/assets/data/grub.cfg kernel_status rules (try->trying boots try kernel, trying->\"\" boots kernel, missing try kernel => fallback entry => reboot), of the UC16/18 snap_mode rules (boot.go comment of MarkBootSuccessful), and of piboot (one-shot tryboot flag honoured only on a snapd-requested reboot while kernel_status=try, kernel_status=trying on the kernel command line of the try configuration)",
		"power loss: panic before or after a numbered write, recovered at the simulated process boundary, followed by a boot",
		"boot failure: every new revision is drawn once as good or bad; a bad one never reaches snapd",
		"sealing: unencrypted device, resealKeyToModeenv is a no-op; snap.Device: boottest.MockUC20Device / a two-name UC18 device",
		"snapstate: the caller of SetNextBoot is the event generator (try to a new/previous/current revision, undo with BootWithoutTry to the revision snapstate would go back to)",
	},
}

const (
	verifCfgUC16 = iota
	verifCfgGrub
	verifCfgEnv
	verifCfgNS
)

var verifCfgNames = []string{"uc16/18-bootvars", "uc20-grub-extracted-kernel", "uc20-scriptable-envref", "uc20-notscriptable-envref"}

// F3 of the design round: its own class so that it can be listed as a known
// finding; everything else stays a plain class.
const verifClassF3 = "C17/boot-stops:kernel-undo-powerloss-between-modeenv-write-and-bootloader-kernel-switch"

// Found by this engine on the unchanged tree (NOTES.md, finding F5): on
// UC16/18 a completed SetNextBoot that takes a revision out of trial can leave
// its snap_try_* variable behind when snap_mode was already reset by a
// SetNextBoot of the other boot snap; the next "try" of the other snap boots
// it. Own class, keyed by exactly that shape.
const verifClassStaleTry = "C17/booted-unexpected:uc16-stale-try-variable-of-cancelled-trial"

type verifPowerLoss struct{ at string }

var errVerifInitramfsReboot = errors.New("reboot requested by initramfs")

// verifFaulter numbers the bootloader writes of one simulated process and
// injects a power loss before or after one of them.
type verifFaulter struct {
	c       *verifsim.Ctx
	writes  int
	crashAt int
	after   bool
	fired   bool
}

func (f *verifFaulter) arm(at int, after bool) {
	f.writes, f.crashAt, f.after, f.fired = 0, at, after, false
}

func (f *verifFaulter) hit(name string, apply func() error) error {
	f.writes++
	if f.crashAt == f.writes && !f.after {
		f.fired = true
		f.c.Logf("    POWER LOSS before write %d %s", f.writes, name)
		panic(verifPowerLoss{name})
	}
	err := apply()
	f.c.Logf("    write %d %s", f.writes, name)
	if f.crashAt == f.writes && f.after {
		f.fired = true
		f.c.Logf("    POWER LOSS after write %d %s", f.writes, name)
		panic(verifPowerLoss{name})
	}
	return err
}

func verifVarsString(v map[string]string) string {
	ks := make([]string, 0, len(v))
	for k := range v {
		ks = append(ks, k)
	}
	sort.Strings(ks)
	var sb strings.Builder
	for i, k := range ks {
		if i > 0 {
			sb.WriteString(" ")
		}
		fmt.Fprintf(&sb, "%s=%q", k, v[k])
	}
	return sb.String()
}

// plain bootloader: variables only (UC16/18, UC20 envref)
type verifBLPlain struct {
	*bootloadertest.MockBootloader
	f *verifFaulter
}

func (b *verifBLPlain) SetBootVars(v map[string]string) error {
	return b.f.hit("SetBootVars("+verifVarsString(v)+")", func() error { return b.MockBootloader.SetBootVars(v) })
}

// grub-like: kernel.efi / try-kernel.efi plus kernel_status
type verifBLGrub struct {
	*bootloadertest.MockExtractedRunKernelImageBootloader
	f *verifFaulter
}

func (b *verifBLGrub) SetBootVars(v map[string]string) error {
	return b.f.hit("SetBootVars("+verifVarsString(v)+")", func() error {
		return b.MockExtractedRunKernelImageBootloader.SetBootVars(v)
	})
}
func (b *verifBLGrub) EnableKernel(s snap.PlaceInfo) error {
	return b.f.hit("EnableKernel("+s.Filename()+")", func() error {
		return b.MockExtractedRunKernelImageBootloader.EnableKernel(s)
	})
}
func (b *verifBLGrub) EnableTryKernel(s snap.PlaceInfo) error {
	return b.f.hit("EnableTryKernel("+s.Filename()+")", func() error {
		return b.MockExtractedRunKernelImageBootloader.EnableTryKernel(s)
	})
}
func (b *verifBLGrub) DisableTryKernel() error {
	return b.f.hit("DisableTryKernel()", func() error {
		return b.MockExtractedRunKernelImageBootloader.DisableTryKernel()
	})
}

// piboot-like: variables only, status maintained by the initramfs
type verifBLNS struct {
	*bootloadertest.MockNotScriptableBootloader
	f *verifFaulter
}

func (b *verifBLNS) SetBootVars(v map[string]string) error {
	return b.f.hit("SetBootVars("+verifVarsString(v)+")", func() error {
		return b.MockNotScriptableBootloader.SetBootVars(v)
	})
}
func (b *verifBLNS) SetBootVarsFromInitramfs(v map[string]string) error {
	return b.f.hit("SetBootVarsFromInitramfs("+verifVarsString(v)+")", func() error {
		return b.MockNotScriptableBootloader.SetBootVarsFromInitramfs(v)
	})
}

var (
	_ bootloader.Bootloader                        = (*verifBLPlain)(nil)
	_ bootloader.ExtractedRunKernelImageBootloader = (*verifBLGrub)(nil)
	_ bootloader.NotScriptableBootloader           = (*verifBLNS)(nil)
)

// UC16/18 device with distinct kernel and base names
type verifDev18 struct{}

func (verifDev18) RunMode() bool         { return true }
func (verifDev18) Classic() bool         { return false }
func (verifDev18) Kernel() string        { return "pc-kernel" }
func (verifDev18) Base() string          { return "core18" }
func (verifDev18) Gadget() string        { return "pc" }
func (verifDev18) HasModeenv() bool      { return false }
func (verifDev18) IsCoreBoot() bool      { return true }
func (verifDev18) IsClassicBoot() bool   { return false }
func (verifDev18) Model() *asserts.Model { panic("verifDev18.Model is not expected to be used") }

var verifDev20 snap.Device

// verifTrack is the statement-level model of one boot snap type.
type verifTrack struct {
	typ      snap.Type
	label    string
	snapName string
	// last known-good revision and the one before the last promotion
	good, prevGood string
	everGood       map[string]bool
	// revisions snapd has set to be tried (one, unless a set-next was
	// interrupted)
	trial map[string]bool
	// revisions that an interrupted undo or an interrupted
	// MarkBootSuccessful may legitimately have left as default
	maybeGood map[string]bool
	// revisions a completed SetNextBoot took out of trial since the last
	// completed boot (only used to key the class of a violation)
	cancelled map[string]bool
	bad       map[string]bool
	// the not known-good revision started in the current boot attempt
	started string
	nextRev int
	// last completed set-next was a try of a revision not promoted since
	tryOutstanding bool
}

func (t *verifTrack) file(rev int) string { return fmt.Sprintf("%s_%d.snap", t.snapName, rev) }

func (t *verifTrack) allowed(x string) bool { return x == t.good || t.trial[x] || t.maybeGood[x] }

func verifSet(m map[string]bool) string {
	ks := make([]string, 0, len(m))
	for k, v := range m {
		if v {
			ks = append(ks, k)
		}
	}
	sort.Strings(ks)
	return "{" + strings.Join(ks, ",") + "}"
}

func (t *verifTrack) String() string {
	return fmt.Sprintf("%s[good=%s trial=%s maybe=%s]", t.label, t.good, verifSet(t.trial), verifSet(t.maybeGood))
}

// verifSource hands out the choices of one execution. The base execution of
// a run draws from the tape and records; a sweep execution (thorough tier)
// replays the record up to its forced power loss and continues on the tape.
type verifSource struct {
	c         *verifsim.Ctx
	rec       []int
	pos       int
	replaying bool
	diverged  bool
}

func (src *verifSource) draw(label string, n int) int {
	if n <= 1 {
		return 0
	}
	if src.replaying && !src.diverged && src.pos < len(src.rec) {
		v := src.rec[src.pos] % n
		src.pos++
		return v
	}
	src.diverged = true
	v := src.c.Draw(label, n)
	if !src.replaying {
		src.rec = append(src.rec, v)
	}
	return v
}

type verifProcRec struct {
	label   string
	writes  int
	crashed bool
}

// verifSweepPoint forces a power loss before write `at` of process number
// `proc` (after it when `after`).
type verifSweepPoint struct {
	proc  int
	at    int
	after bool
}

type verifOp struct {
	track  int
	target string
	noTry  bool
}

type verifSim struct {
	c     *verifsim.Ctx
	src   *verifSource
	procs []verifProcRec
	sweep *verifSweepPoint
	cfg   int
	root  string
	dev   snap.Device
	mock  *bootloadertest.MockBootloader
	grub  *bootloadertest.MockExtractedRunKernelImageBootloader
	f     *verifFaulter
	tr    [2]*verifTrack

	faults, maxFaults int
	// a kernel SetNextBoot asked for a reboot with bootloader options: the
	// reboot snapd then requests carries the bootloader's reboot arguments
	rebootArgsArmed bool
	lastCrashed     *verifOp
	f3Armed         bool
	dead            bool
	cmdlineFile     string
	boots           int
	bootFailures    int
}

func (s *verifSim) san(msg string) string { return strings.ReplaceAll(msg, s.root, "<root>") }

func (s *verifSim) violate(class, format string, args ...interface{}) {
	s.dead = true
	s.c.Violate(class, "%s", s.san(fmt.Sprintf(format, args...)))
}

func verifPlace(file string) snap.PlaceInfo {
	pi, err := snap.ParsePlaceInfoFromSnapFileName(file)
	if err != nil {
		panic(verifsim.HarnessError{Msg: "bad snap file name " + file})
	}
	return pi
}

func (s *verifSim) addBlob(file string) {
	p := filepath.Join(dirs.SnapBlobDirUnder(s.root), file)
	if err := os.WriteFile(p, nil, 0644); err != nil {
		s.c.Fatalf("cannot write %s: %v", p, err)
	}
}

// kernelRef is the non-try kernel reference of the bootloader.
func (s *verifSim) kernelRef() string {
	if s.cfg == verifCfgGrub {
		k, err := s.grub.Kernel()
		if err != nil || k == nil {
			return ""
		}
		return k.Filename()
	}
	return s.mock.BootVars["snap_kernel"]
}

func (s *verifSim) modeenvBytes() string {
	if s.cfg == verifCfgUC16 {
		return ""
	}
	b, _ := os.ReadFile(filepath.Join(s.root, "var/lib/snapd/modeenv"))
	return string(b)
}

func (s *verifSim) blState() string {
	v := s.mock.BootVars
	switch s.cfg {
	case verifCfgUC16:
		return fmt.Sprintf("snap_mode=%q snap_kernel=%s snap_try_kernel=%s snap_core=%s snap_try_core=%s",
			v["snap_mode"], v["snap_kernel"], v["snap_try_kernel"], v["snap_core"], v["snap_try_core"])
	case verifCfgGrub:
		tk := "-"
		if k, err := s.grub.TryKernel(); err == nil && k != nil {
			tk = k.Filename()
		}
		return fmt.Sprintf("kernel_status=%q kernel.efi=%s try-kernel.efi=%s", v["kernel_status"], s.kernelRef(), tk)
	default:
		return fmt.Sprintf("kernel_status=%q snap_kernel=%s snap_try_kernel=%s", v["kernel_status"], v["snap_kernel"], v["snap_try_kernel"])
	}
}

func (s *verifSim) modeenvState() string {
	if s.cfg == verifCfgUC16 {
		return ""
	}
	m, err := boot.ReadModeenv(s.root)
	if err != nil {
		return " modeenv: unreadable: " + s.san(err.Error())
	}
	return fmt.Sprintf(" modeenv: base=%s try_base=%s base_status=%q current_kernels=%v", m.Base, m.TryBase, m.BaseStatus, m.CurrentKernels)
}

// proc runs f as one snapd (or initramfs) process; a power loss ends it.
func (s *verifSim) proc(f func() error) (crashed bool, err error) {
	defer func() {
		if r := recover(); r != nil {
			if _, ok := r.(verifPowerLoss); ok {
				crashed = true
				return
			}
			panic(r)
		}
	}()
	return false, f()
}

func (s *verifSim) draw(label string, n int) int { return s.src.draw(label, n) }

func (s *verifSim) chance(label string, num, den int) bool {
	return s.src.draw(label, den) >= den-num
}

func (s *verifSim) rng(label string, lo, hi int) int {
	if hi <= lo {
		return lo
	}
	return lo + s.src.draw(label, hi-lo+1)
}

// planCrash starts the bookkeeping of the next simulated process and maybe
// arms a power loss inside it.
func (s *verifSim) planCrash(label string, num, den int) {
	s.f.arm(0, false)
	if s.faults < s.maxFaults && s.chance(label+":powerloss?", num, den) {
		at := 1 + s.draw(label+":at-write", 4)
		after := s.draw(label+":after", 2) == 1
		s.f.arm(at, after)
	}
	if s.sweep != nil && s.sweep.proc == len(s.procs) {
		s.f.arm(s.sweep.at, s.sweep.after)
	}
	s.procs = append(s.procs, verifProcRec{label: label})
}

// endProc closes the bookkeeping of the process started by planCrash.
func (s *verifSim) endProc(crashed bool) {
	p := &s.procs[len(s.procs)-1]
	p.writes = s.f.writes
	p.crashed = crashed
	if crashed && s.sweep != nil && s.sweep.proc == len(s.procs)-1 {
		// from here on the history differs from the recorded one
		s.src.diverged = true
		s.c.Count("fault:powerloss-forced-by-sweep")
	}
	s.f.arm(0, false)
}

// budgetFault draws a whole-step fault (power loss outside snapd's writes).
func (s *verifSim) budgetFault(label string, num, den int) bool {
	if s.faults < s.maxFaults && s.chance(label, num, den) {
		s.faults++
		return true
	}
	return false
}

type verifFw struct {
	kernel, base  string
	cmdlineTrying bool
	fallback      bool
	note          string
}

// firmware is the stub for what runs before the kernel: it only reads and
// writes bootloader storage, never the modeenv.
func (s *verifSim) firmware(tryboot bool) verifFw {
	v := s.mock.BootVars
	switch s.cfg {
	case verifCfgUC16:
		fw := verifFw{kernel: v["snap_kernel"], base: v["snap_core"]}
		switch v["snap_mode"] {
		case "try":
			v["snap_mode"] = "trying"
			if v["snap_try_core"] != "" {
				fw.base = v["snap_try_core"]
			}
			if v["snap_try_kernel"] != "" {
				fw.kernel = v["snap_try_kernel"]
			}
			fw.note = "snap_mode try->trying, try variables"
		case "trying":
			v["snap_mode"] = ""
			fw.note = "snap_mode trying->\"\", good variables"
		default:
			fw.note = "snap_mode \"\""
		}
		return fw
	case verifCfgGrub, verifCfgEnv:
		st := v["kernel_status"]
		fw := verifFw{kernel: s.kernelRef()}
		switch {
		case st == "try":
			v["kernel_status"] = "trying"
			tk := ""
			if s.cfg == verifCfgGrub {
				if k, err := s.grub.TryKernel(); err == nil && k != nil {
					tk = k.Filename()
				}
			} else {
				tk = v["snap_try_kernel"]
			}
			if tk == "" {
				fw.fallback = true
				fw.note = "kernel_status try->trying, no try kernel: fallback entry reboots"
				return fw
			}
			fw.kernel = tk
			fw.note = "kernel_status try->trying, try kernel"
		case st == "trying":
			v["kernel_status"] = ""
			fw.note = "kernel_status trying->\"\", kernel"
		case st != "":
			v["kernel_status"] = ""
			fw.note = "invalid kernel_status reset"
		default:
			fw.note = "kernel_status \"\""
		}
		return fw
	default: // not scriptable: the firmware never writes
		fw := verifFw{kernel: v["snap_kernel"]}
		if tryboot && v["kernel_status"] == "try" && v["snap_try_kernel"] != "" {
			fw.kernel = v["snap_try_kernel"]
			fw.cmdlineTrying = true
			fw.note = "tryboot flag: try configuration"
			s.c.Count("probe:notscriptable-tryboot")
		} else {
			fw.note = "normal configuration"
		}
		return fw
	}
}

// attemptFailed applies the statement's fallback rule: a trial revision whose
// boot was started and did not get as far as snapd marking the boot is not
// to be booted again (until snapd sets it again).
func (s *verifSim) attemptFailed(why string) {
	for _, t := range s.tr {
		if t.started != "" && t.started != t.good && t.trial[t.started] {
			delete(t.trial, t.started)
			s.c.Logf("  trial of %s %s failed/interrupted (%s): must fall back", t.label, t.started, why)
			s.c.Count("probe:trial-failed-fallback-required")
		}
		t.started = ""
	}
}

func (s *verifSim) checkBooted(t *verifTrack, x, stage string) bool {
	if !t.allowed(x) {
		class := "C17/booted-unexpected-" + t.label
		if s.cfg == verifCfgUC16 && t.cancelled[x] && s.mock.BootVars[map[string]string{"kernel": "snap_try_kernel", "base": "snap_try_core"}[t.label]] == x {
			class = verifClassStaleTry
			s.c.Count("probe:uc16-stale-try-variable-shape-reached")
		}
		s.violate(class, "%s: %s %s is neither the known-good %s nor under trial %s (interrupted promotion/undo candidates %s); %s%s",
			stage, t.label, x, t.good, verifSet(t.trial), verifSet(t.maybeGood), s.blState(), s.modeenvState())
		return false
	}
	if x != t.good {
		t.started = x
	}
	return true
}

// doBoot boots the device until snapd has marked a boot successful.
func (s *verifSim) doBoot(why string, orderlyForUpdate bool) {
	if s.dead {
		return
	}
	c := s.c
	tryboot := false
	if orderlyForUpdate && s.cfg == verifCfgNS && s.rebootArgsArmed && s.mock.BootVars["kernel_status"] == "try" {
		// transcription of piboot.GetRebootArguments at reboot time
		tryboot = true
	}
	s.rebootArgsArmed = false
	seqFaults := 0
	c.Logf("BOOT (%s)", why)
	for attempt := 1; ; attempt++ {
		if attempt > 8+seqFaults {
			s.violate("C17/boot-loop", "no boot reached a marked-successful state within %d attempts after the last fault; %s%s", attempt-1, s.blState(), s.modeenvState())
			return
		}
		s.boots++
		for _, t := range s.tr {
			t.started = ""
		}
		fw := s.firmware(tryboot)
		tryboot = false // volatile, one shot
		if fw.fallback {
			c.Logf("  #%d firmware: %s", attempt, fw.note)
			c.Count("probe:firmware-try-without-try-kernel")
			continue
		}
		c.Logf("  #%d firmware: %s -> kernel %s%s | %s %s", attempt, fw.note, fw.kernel, map[bool]string{true: " base " + fw.base, false: ""}[s.cfg == verifCfgUC16], s.tr[0], s.tr[1])
		if !s.checkBooted(s.tr[0], fw.kernel, "firmware starts kernel") {
			return
		}
		if s.cfg == verifCfgUC16 && !s.checkBooted(s.tr[1], fw.base, "firmware passes base") {
			return
		}
		if s.tr[0].started != "" && s.tr[1].started != "" {
			c.Count("probe:kernel-and-base-tried-in-one-boot")
		}
		if s.budgetFault("boot:powerloss-early?", 1, 10) {
			seqFaults++
			c.Count("fault:powerloss-early-boot")
			c.Logf("  POWER LOSS right after the firmware handed over")
			s.attemptFailed("power loss in early boot")
			continue
		}
		kbad := s.tr[0].bad[fw.kernel]
		if kbad && (s.cfg == verifCfgUC16 || s.draw("boot:bad-kernel-dies-after-initramfs", 2) == 0) {
			c.Count("fault:boot-failure-kernel")
			s.bootFailures++
			c.Logf("  kernel %s does not boot", fw.kernel)
			s.attemptFailed("bad kernel")
			continue
		}
		base := fw.base
		if s.cfg != verifCfgUC16 {
			// ---- initramfs, real code
			if s.cfg == verifCfgNS {
				cl := "snapd_recovery_mode=run console=ttyS0"
				if fw.cmdlineTrying {
					cl += " kernel_status=trying"
				}
				if err := os.WriteFile(s.cmdlineFile, []byte(cl+"\n"), 0644); err != nil {
					c.Fatalf("cannot write cmdline: %v", err)
				}
				before := s.mock.BootVars["kernel_status"]
				s.planCrash("initramfs", 1, 4)
				crashed, err := s.proc(boot.InitramfsRunModeUpdateBootloaderVars)
				s.endProc(crashed)
				if crashed {
					s.faults++
					seqFaults++
					c.Count("fault:powerloss-in-initramfs-status-update")
					s.attemptFailed("power loss in initramfs")
					continue
				}
				if err != nil {
					s.violate("C17/boot-stops", "initramfs cannot update the bootloader status: %v; %s", err, s.blState())
					return
				}
				after := s.mock.BootVars["kernel_status"]
				if before != after {
					c.Logf("  initramfs: kernel_status %q -> %q", before, after)
					if after == "" {
						c.Count("probe:notscriptable-status-reset")
					} else {
						c.Count("probe:notscriptable-status-trying")
					}
				}
			}
			me, err := boot.ReadModeenv(s.root)
			if err != nil {
				s.violate("C17/boot-stops", "initramfs cannot read the modeenv: %v", err)
				return
			}
			s.f.arm(0, false)
			sel, err := boot.InitramfsRunModeSelectSnapsToMount([]snap.Type{snap.TypeBase, snap.TypeKernel}, me, s.root)
			if err == errVerifInitramfsReboot {
				c.Count("probe:initramfs-requests-reboot")
				c.Logf("  initramfs: reboot requested (kernel fallback);%s", s.modeenvState())
				s.attemptFailed("initramfs fallback reboot")
				continue
			}
			if err != nil {
				if s.f3Armed && strings.Contains(err.Error(), "is not trusted in the modeenv") {
					c.Count("probe:f3-shape-reached")
					s.violate(verifClassF3, "boot stops in the initramfs: %v; %s%s", err, s.blState(), s.modeenvState())
					return
				}
				s.violate("C17/boot-stops", "boot stops in the initramfs: %v; %s%s", err, s.blState(), s.modeenvState())
				return
			}
			ksel, bsel := sel[snap.TypeKernel], sel[snap.TypeBase]
			if ksel == nil || bsel == nil {
				s.violate("C17/boot-stops", "initramfs selected no kernel or no base: %v", sel)
				return
			}
			c.Logf("  initramfs: mounts base %s kernel %s;%s", bsel.Filename(), ksel.Filename(), s.modeenvState())
			if ksel.Filename() != fw.kernel {
				s.violate("C17/kernel-snap-mismatch", "initramfs mounts kernel snap %s while kernel %s is running; %s%s", ksel.Filename(), fw.kernel, s.blState(), s.modeenvState())
				return
			}
			base = bsel.Filename()
			if !s.checkBooted(s.tr[1], base, "initramfs mounts base") {
				return
			}
			if s.tr[0].started != "" && s.tr[1].started != "" {
				c.Count("probe:kernel-and-base-tried-in-one-boot")
			}
			if kbad {
				c.Count("fault:boot-failure-kernel")
				s.bootFailures++
				c.Logf("  kernel %s dies after the initramfs", fw.kernel)
				s.attemptFailed("bad kernel")
				continue
			}
		}
		if s.tr[1].bad[base] {
			c.Count("fault:boot-failure-base")
			s.bootFailures++
			c.Logf("  base %s does not get to snapd", base)
			s.attemptFailed("bad base")
			continue
		}
		if s.budgetFault("boot:powerloss-before-mark?", 1, 8) {
			seqFaults++
			c.Count("fault:powerloss-before-mark-successful")
			c.Logf("  POWER LOSS before snapd marked the boot")
			s.attemptFailed("power loss before snapd marked the boot")
			continue
		}
		// ---- snapd: mark boot successful, real code
		c.Logf("  snapd: MarkBootSuccessful (running kernel %s base %s)", fw.kernel, base)
		s.planCrash("mark", 1, 4)
		crashed, err := s.proc(func() error { return boot.MarkBootSuccessful(s.dev) })
		s.endProc(crashed)
		if crashed {
			s.faults++
			seqFaults++
			c.Count("fault:powerloss-in-mark-successful")
			// the promotion was under way: either outcome is fine
			for _, t := range s.tr {
				if t.started != "" {
					t.maybeGood[t.started] = true
				}
			}
			continue
		}
		if err != nil {
			s.violate("C17/mark-successful-error", "MarkBootSuccessful fails on healthy storage: %v; %s%s", err, s.blState(), s.modeenvState())
			return
		}
		s.f3Armed = false
		booted := [2]string{fw.kernel, base}
		for i, t := range s.tr {
			x := booted[i]
			if x != t.good {
				c.Logf("  %s %s booted and marked: now known-good (was %s)", t.label, x, t.good)
				if t.trial[x] {
					c.Count("probe:trial-promoted")
				} else {
					c.Count("probe:interrupted-promotion-or-undo-completed-by-boot")
				}
				t.prevGood = t.good
				t.good = x
				t.everGood[x] = true
				t.tryOutstanding = false
			}
			// a completed boot ends every trial
			t.trial = map[string]bool{}
			t.maybeGood = map[string]bool{}
			t.cancelled = map[string]bool{}
			t.started = ""
		}
		c.Count(fmt.Sprintf("attempts-per-boot:%d", attempt))
		c.Logf("  boot complete; %s%s", s.blState(), s.modeenvState())
		return
	}
}

// doSetNext is snapd calling SetNextBoot for one boot snap.
func (s *verifSim) doSetNext(op verifOp) {
	if s.dead {
		return
	}
	c := s.c
	t := s.tr[op.track]
	pi := verifPlace(op.target)
	bp := boot.Participant(pi, t.typ, s.dev)
	if bp.IsTrivial() {
		c.Fatalf("trivial boot participant for %s", op.target)
	}
	preModeenv := s.modeenvBytes()
	preKernel := s.kernelRef()
	label := "setnext"
	if op.noTry {
		label = "undo"
	}
	if op.noTry {
		s.planCrash(label, 1, 2)
	} else {
		s.planCrash(label, 1, 3)
	}
	c.Logf("snapd: SetNextBoot(%s, BootWithoutTry=%v) | %s | %s%s", op.target, op.noTry, t, s.blState(), s.modeenvState())
	var rbi boot.RebootInfo
	crashed, err := s.proc(func() error {
		var e error
		rbi, e = bp.SetNextBoot(boot.NextBootContext{BootWithoutTry: op.noTry})
		return e
	})
	s.endProc(crashed)
	s.f3Armed = false
	if err != nil {
		s.violate("C17/set-next-error", "SetNextBoot(%s, BootWithoutTry=%v) fails on healthy storage: %v; %s%s", op.target, op.noTry, err, s.blState(), s.modeenvState())
		return
	}
	if crashed {
		s.faults++
		if op.noTry {
			c.Count("fault:powerloss-in-undo")
		} else {
			c.Count("fault:powerloss-in-set-next")
		}
		if op.target != t.good {
			if op.noTry {
				t.maybeGood[op.target] = true
			} else {
				t.trial[op.target] = true
			}
		}
		if op.noTry && op.track == 0 && s.cfg != verifCfgUC16 && op.target != preKernel &&
			s.modeenvBytes() != preModeenv && s.kernelRef() == preKernel {
			// exactly the F3 window: modeenv already narrowed to the
			// undo target, bootloader still on the other kernel
			s.f3Armed = true
		}
		opc := op
		s.lastCrashed = &opc
		s.doBoot("power loss in SetNextBoot", false)
		return
	}
	s.lastCrashed = nil
	oldTrial := t.trial
	if op.noTry {
		if op.target != t.good {
			t.good = op.target
			t.prevGood = ""
		}
		t.trial = map[string]bool{}
		t.maybeGood = map[string]bool{}
		t.tryOutstanding = false
	} else {
		t.trial = map[string]bool{}
		if op.target != t.good {
			t.trial[op.target] = true
			t.tryOutstanding = true
		} else {
			t.tryOutstanding = false
		}
	}
	for x := range oldTrial {
		if !t.trial[x] {
			t.cancelled[x] = true
		}
	}
	c.Logf("  done reboot-required=%v | %s | %s%s", rbi.RebootRequired, t, s.blState(), s.modeenvState())
	if rbi.RebootRequired {
		if rbi.BootloaderOptions != nil {
			s.rebootArgsArmed = true
		}
		if s.draw("reboot-now", 4) != 3 {
			s.doBoot("reboot requested by snapd", true)
		}
	}
}

// verifScratchBase: the driver's test binary does not live under a go-build
// directory, so osutil's package-level "unsafe IO for tests" switch is off and
// every modeenv write really fsyncs; a memory-backed directory keeps a run at
// about a millisecond. Falls back to TMPDIR.
func verifScratchBase() string {
	if verifScratchDir == nil {
		d := ""
		if fi, err := os.Stat("/dev/shm"); err == nil && fi.IsDir() {
			if f, err := os.CreateTemp("/dev/shm", "verifboot-probe"); err == nil {
				f.Close()
				os.Remove(f.Name())
				d = "/dev/shm"
			}
		}
		verifScratchDir = &d
	}
	return *verifScratchDir
}

var verifScratchDir *string

func verifRunC17(c *verifsim.Ctx) {
	if verifDev20 == nil {
		verifDev20 = boottest.MockUC20Device("run", nil)
	}
	src := &verifSource{c: c}
	procs, dead := verifExec(c, src, nil)
	if c.Tier != "thorough" || dead {
		return
	}
	// thorough tier: the same history again with a power loss forced before
	// every bootloader write (and after the last one) of every snapd or
	// initramfs process that ran to completion in the base execution; up to
	// the forced power loss the recorded choices are replayed, afterwards
	// the history continues on the tape.
	nsweep := 0
	for k, p := range procs {
		if p.crashed || p.writes == 0 {
			continue
		}
		for at := 1; at <= p.writes+1; at++ {
			pt := &verifSweepPoint{proc: k, at: at}
			if at == p.writes+1 {
				pt.at, pt.after = p.writes, true
			}
			c.Logf("SWEEP: power loss %s write %d of process %d (%s)", map[bool]string{false: "before", true: "after"}[pt.after], pt.at, k, p.label)
			sub := &verifSource{c: c, rec: src.rec, replaying: true}
			c.Count("sweep-executions")
			nsweep++
			if _, dead := verifExec(c, sub, pt); dead {
				return
			}
			if nsweep >= 120 {
				return
			}
		}
	}
}

// verifExec is one device history from a fresh scratch root.
func verifExec(c *verifsim.Ctx, src *verifSource, sweep *verifSweepPoint) ([]verifProcRec, bool) {
	root, err := os.MkdirTemp(verifScratchBase(), "verifboot")
	if err != nil {
		c.Fatalf("mkdtemp: %v", err)
	}
	defer os.RemoveAll(root)
	dirs.SetRootDir(root)
	defer dirs.SetRootDir("")
	defer bootloader.Force(nil)
	restoreReboot := boot.MockInitramfsReboot(func() error { return errVerifInitramfsReboot })
	defer restoreReboot()

	s := &verifSim{c: c, src: src, sweep: sweep, root: root, f: &verifFaulter{c: c}}
	s.cfg = s.draw("config", 4)
	s.mock = bootloadertest.Mock("mock", filepath.Join(root, "bl"))
	kernel := &verifTrack{typ: snap.TypeKernel, label: "kernel", snapName: "pc-kernel"}
	base := &verifTrack{typ: snap.TypeBase, label: "base", snapName: "core20"}
	if s.cfg == verifCfgUC16 {
		base.snapName = "core18"
	}
	s.tr = [2]*verifTrack{kernel, base}
	if err := os.MkdirAll(dirs.SnapBlobDirUnder(root), 0755); err != nil {
		c.Fatalf("mkdir: %v", err)
	}
	for _, t := range s.tr {
		t.good = t.file(1)
		t.everGood = map[string]bool{t.good: true}
		t.trial = map[string]bool{}
		t.maybeGood = map[string]bool{}
		t.cancelled = map[string]bool{}
		t.bad = map[string]bool{}
		t.nextRev = 2
		s.addBlob(t.good)
	}
	switch s.cfg {
	case verifCfgUC16:
		s.dev = verifDev18{}
		s.mock.BootVars["snap_mode"] = ""
		s.mock.BootVars["snap_kernel"] = kernel.good
		s.mock.BootVars["snap_core"] = base.good
		s.mock.BootVars["snap_try_kernel"] = ""
		s.mock.BootVars["snap_try_core"] = ""
		bootloader.Force(&verifBLPlain{MockBootloader: s.mock, f: s.f})
	case verifCfgGrub:
		s.dev = verifDev20
		s.grub = s.mock.WithExtractedRunKernelImage()
		s.grub.SetEnabledKernel(verifPlace(kernel.good))
		s.mock.BootVars["kernel_status"] = ""
		bootloader.Force(&verifBLGrub{MockExtractedRunKernelImageBootloader: s.grub, f: s.f})
	case verifCfgEnv:
		s.dev = verifDev20
		s.mock.BootVars["kernel_status"] = ""
		s.mock.BootVars["snap_kernel"] = kernel.good
		s.mock.BootVars["snap_try_kernel"] = ""
		bootloader.Force(&verifBLPlain{MockBootloader: s.mock, f: s.f})
	case verifCfgNS:
		s.dev = verifDev20
		s.mock.BootVars["kernel_status"] = ""
		s.mock.BootVars["snap_kernel"] = kernel.good
		s.mock.BootVars["snap_try_kernel"] = ""
		bootloader.Force(&verifBLNS{MockNotScriptableBootloader: s.mock.WithNotScriptable(), f: s.f})
		s.cmdlineFile = filepath.Join(root, "proc-cmdline")
		if err := os.WriteFile(s.cmdlineFile, []byte("snapd_recovery_mode=run\n"), 0644); err != nil {
			c.Fatalf("cannot write cmdline: %v", err)
		}
		restoreCmdline := kcmdline.MockProcCmdline(s.cmdlineFile)
		defer restoreCmdline()
	}
	if s.cfg != verifCfgUC16 {
		m := &boot.Modeenv{Mode: "run", Base: base.good, CurrentKernels: []string{kernel.good}}
		if err := m.WriteTo(root); err != nil {
			c.Fatalf("cannot write initial modeenv: %v", err)
		}
	}
	if s.draw("faults", 4) != 0 {
		hi := 3
		if c.Tier == "thorough" {
			hi = 4
		}
		s.maxFaults = s.rng("max-powerlosses", 1, hi)
	}
	maxEvents := 9
	if c.Tier == "thorough" {
		maxEvents = 14
	}
	nev := s.rng("events", 1, maxEvents)
	c.Logf("config %s, up to %d power losses, %d events", verifCfgNames[s.cfg], s.maxFaults, nev)
	c.Count("config:" + verifCfgNames[s.cfg])

	// undo of the last link-snap of a boot snap, the way snapstate issues
	// it: BootWithoutTry, target = the revision it would go back to
	undo := func() {
		first := s.draw("type", 2)
		for _, track := range []int{first, 1 - first} {
			t := s.tr[track]
			switch {
			case t.tryOutstanding || len(t.trial) > 0:
				// the tried revision was not promoted (not rebooted
				// yet, or it failed): back to the known-good one
				c.Count("probe:undo-before-promotion")
				s.doSetNext(verifOp{track: track, target: t.good, noTry: true})
				return
			case t.prevGood != "":
				// the new revision already booted and was marked
				c.Count("probe:undo-after-promotion")
				s.doSetNext(verifOp{track: track, target: t.prevGood, noTry: true})
				return
			}
		}
		c.Logf("snapd: nothing to undo")
	}
	for i := 0; i < nev && !s.dead; i++ {
		switch ev := s.draw("event", 10); ev {
		case 0, 1:
			// reboot: orderly for a pending update, or plain / power loss
			if s.rebootArgsArmed && s.draw("reboot-kind", 2) == 0 {
				s.doBoot("reboot requested by snapd (delayed)", true)
			} else {
				s.doBoot("reboot / power loss while idle", false)
			}
		case 2, 3, 4, 5:
			// refresh (or revert) of kernel or base: try the revision
			t := s.tr[s.draw("type", 2)]
			var target string
			switch k := s.draw("target", 8); {
			case k == 5 && len(t.trial) > 0:
				// set the revision under trial again
				ks := []string{}
				for x := range t.trial {
					ks = append(ks, x)
				}
				sort.Strings(ks)
				target = ks[0]
			case k == 6:
				// the current known-good one again
				target = t.good
			case k == 7 && t.prevGood != "":
				// revert: an older revision, through the try logic
				target = t.prevGood
				c.Count("probe:try-older-revision")
			default:
				if t.nextRev <= 6 {
					target = t.file(t.nextRev)
					t.nextRev++
					s.addBlob(target)
					if s.chance("bad-revision", 1, 3) {
						t.bad[target] = true
					}
				} else {
					// out of new revisions: another try of the newest one
					target = t.file(6)
				}
			}
			track := 0
			if t == s.tr[1] {
				track = 1
			}
			if len(t.trial) > 0 && !t.trial[target] && target != t.good {
				c.Count("probe:set-next-replaces-pending-trial")
			}
			s.doSetNext(verifOp{track: track, target: target})
		case 6, 7:
			undo()
		case 8:
			// snapd restarts without a reboot and marks the boot again
			c.Logf("snapd restarts: MarkBootSuccessful again | %s%s", s.blState(), s.modeenvState())
			c.Count("probe:remark-without-reboot")
			s.planCrash("remark", 1, 5)
			crashed, err := s.proc(func() error { return boot.MarkBootSuccessful(s.dev) })
			s.endProc(crashed)
			if crashed {
				s.faults++
				c.Count("fault:powerloss-in-mark-successful")
				s.doBoot("power loss in repeated MarkBootSuccessful", false)
			} else if err != nil {
				s.violate("C17/mark-successful-error", "repeated MarkBootSuccessful fails on healthy storage: %v; %s%s", err, s.blState(), s.modeenvState())
			}
		case 9:
			// snapd re-runs the task that was interrupted by the power loss
			if s.lastCrashed != nil {
				op := *s.lastCrashed
				t := s.tr[op.track]
				if op.noTry && !t.everGood[op.target] {
					break
				}
				c.Count("probe:interrupted-op-retried")
				s.doSetNext(op)
			} else {
				undo()
			}
		}
	}
	// flush: whatever state is left must boot, then (faults over) boot the
	// known-good revisions
	s.doBoot("final", s.rebootArgsArmed)
	s.maxFaults = s.faults
	s.doBoot("final, no more faults", false)

	if s.faults > 0 || s.bootFailures > 0 {
		c.Nontrivial()
	}
	c.Add("boots", int64(s.boots))
	return s.procs, s.dead
}
