package boot_test

import (
	"os"
	"testing"

	"github.com/snapcore/snapd/internal/verifsim"
)

func TestVerifSim(t *testing.T) {
	// snapd's test-only seams (boot.MockInitramfsReboot,
	// kcmdline.MockProcCmdline) insist on osutil.IsTestBinary(), which looks
	// for ".../go-build.../x.test" in os.Args[0]; this is a go test binary,
	// only built with -c into a scratch directory by the driver.
	if len(os.Args) > 0 {
		os.Args[0] = "/tmp/go-build-verif/b001/boot.test"
	}
	verifsim.Main(t, map[string]*verifsim.Engine{
		"C17": verifEngineC17,
	})
}
