//go:build verif

// verifc06 is the workload driver of the C06 check (added to the tree only
// through the build overlay). It is deliberately NOT a test binary, so that
// osutil's fsync bypass for tests is off exactly as in the shipped daemon. It
// performs a seeded sequence of atomic writes through snapd's real code while
// /verif's check traces its system calls.
//
// usage: verifc06 <scratch-root> <seed> <nops>
package main

import (
	"bytes"
	"fmt"
	"io"
	"os"
	"path/filepath"
	"runtime"
	"strconv"
	"syscall"

	"github.com/snapcore/snapd/dirs"
	"github.com/snapcore/snapd/osutil"
	"github.com/snapcore/snapd/overlord"
	"github.com/snapcore/snapd/overlord/state"
)

type prng struct{ s uint64 }

func (r *prng) next() uint64 {
	r.s += 0x9e3779b97f4a7c15
	z := r.s
	z = (z ^ (z >> 30)) * 0xbf58476d1ce4e5b9
	z = (z ^ (z >> 27)) * 0x94d049bb133111eb
	return z ^ (z >> 31)
}
func (r *prng) n(n int) int { return int(r.next() % uint64(n)) }

// marker: a syscall that shows up in the trace and touches nothing
func marker(format string, args ...interface{}) {
	syscall.Access("/verif-marker/"+fmt.Sprintf(format, args...), 0)
}

type chunkReader struct {
	data  []byte
	chunk int
}

func (c *chunkReader) Read(p []byte) (int, error) {
	if len(c.data) == 0 {
		return 0, io.EOF
	}
	n := c.chunk
	if n > len(c.data) {
		n = len(c.data)
	}
	if n > len(p) {
		n = len(p)
	}
	copy(p, c.data[:n])
	c.data = c.data[n:]
	return n, nil
}

func payload(r *prng, size int) []byte {
	b := make([]byte, size)
	x := r.next()
	for i := range b {
		b[i] = byte(x >> (uint(i%8) * 8))
		if i%8 == 7 {
			x = x*6364136223846793005 + 1442695040888963407
		}
	}
	return b
}

func main() {
	// all I/O of the workload on one OS thread: strace counts system calls per thread
	runtime.LockOSThread()
	if len(os.Args) != 4 {
		fmt.Fprintln(os.Stderr, "usage: verifc06 <root> <seed> <nops>")
		os.Exit(2)
	}
	root := os.Args[1]
	seed, _ := strconv.ParseUint(os.Args[2], 10, 64)
	nops, _ := strconv.Atoi(os.Args[3])
	r := &prng{s: seed*0x9e3779b97f4a7c15 + 12345}
	if osutil.IsTestBinary() {
		fmt.Fprintln(os.Stderr, "verifc06 must not look like a test binary")
		os.Exit(2)
	}

	// the real overlord state backend, checkpointing to <root>/var/lib/snapd/state.json
	dirs.SetRootDir(root)
	if err := os.MkdirAll(filepath.Dir(dirs.SnapStateFile), 0755); err != nil {
		fmt.Fprintln(os.Stderr, err)
		os.Exit(2)
	}
	dirA := filepath.Join(root, "a")
	dirB := filepath.Join(root, "b")
	os.MkdirAll(dirA, 0755)
	os.MkdirAll(dirB, 0755)
	targets := []string{filepath.Join(dirA, "f1"), filepath.Join(dirA, "f2"), filepath.Join(dirB, "g1"), filepath.Join(dirA, "link")}
	// "link" is a symlink to a file in dir b, written with AtomicWriteFollow
	os.WriteFile(filepath.Join(dirB, "linked"), []byte("initial-linked"), 0644)
	os.Symlink(filepath.Join(dirB, "linked"), targets[3])
	var st *state.State
	if os.Getenv("VERIF_C06_RESTART") != "" {
		// a restart: the state file of the previous process is there. It is written
		// once more in full, in place and synced, so that the trace shows it, and
		// everything from here on (also overlord.New's own first checkpoint) is
		// part of the workload
		if data, err := os.ReadFile(dirs.SnapStateFile); err == nil {
			if f, err := os.OpenFile(dirs.SnapStateFile, os.O_WRONLY|os.O_CREATE|os.O_TRUNC, 0600); err == nil {
				f.Write(data)
				f.Sync()
				f.Close()
			}
		}
		marker("start")
		marker("op/%d/begin/state", 1000)
	}
	if os.Getenv("VERIF_C06_NO_OVERLORD") == "" {
		o, err := overlord.New(nil)
		if err != nil {
			fmt.Fprintln(os.Stderr, "overlord.New:", err)
			os.Exit(2)
		}
		st = o.State()
		if os.Getenv("VERIF_C06_RESTART") != "" {
			if fi, err := os.Stat(dirs.SnapStateFile); err == nil {
				marker("op/%d/end/%d", 1000, fi.Size())
			}
			marker("op/%d/begin/state", 1001)
			st.Lock()
			st.Set("verif-restarted", true)
			st.Unlock()
			if fi, err := os.Stat(dirs.SnapStateFile); err == nil {
				marker("op/%d/end/%d", 1001, fi.Size())
			}
		}
	}
	sizes := []int{0, 1, 100, 4095, 4096, 5000, 70000, 300000, 1500000}
	if os.Getenv("VERIF_C06_RESTART") == "" {
		marker("start")
	}
	for i := 0; i < nops; i++ {
		kind := r.n(5)
		if st == nil && kind == 0 {
			kind = 1
		}
		switch kind {
		case 0: // state checkpoint through State.Unlock
			marker("op/%d/begin/state", i)
			st.Lock()
			st.Set("verif-key-"+strconv.Itoa(r.n(3)), string(payload(r, sizes[r.n(6)])))
			st.Unlock()
			fi, err := os.Stat(dirs.SnapStateFile)
			if err != nil {
				fmt.Fprintln(os.Stderr, err)
				os.Exit(2)
			}
			marker("op/%d/end/%d", i, fi.Size())
		case 1, 2: // AtomicWriteFile
			t := r.n(len(targets))
			data := payload(r, sizes[r.n(len(sizes))])
			flags := osutil.AtomicWriteFlags(0)
			tname := targets[t]
			if t == 3 {
				flags = osutil.AtomicWriteFollow
			}
			marker("op/%d/begin/file/%d", i, t)
			err := osutil.AtomicWriteFile(tname, data, 0644, flags)
			if err != nil {
				marker("op/%d/failed/%d", i, len(data))
				continue
			}
			marker("op/%d/end/%d", i, len(data))
		case 3: // AtomicWrite from a reader that delivers small chunks
			t := r.n(len(targets))
			data := payload(r, sizes[r.n(len(sizes))])
			flags := osutil.AtomicWriteFlags(0)
			if t == 3 {
				flags = osutil.AtomicWriteFollow
			}
			marker("op/%d/begin/file/%d", i, t)
			err := osutil.AtomicWrite(targets[t], &chunkReader{data: append([]byte(nil), data...), chunk: 1 + r.n(9000)}, 0600, flags)
			if err != nil {
				marker("op/%d/failed/%d", i, len(data))
				continue
			}
			marker("op/%d/end/%d", i, len(data))
		case 4: // AtomicFile used directly: several writes, then Commit
			t := r.n(3)
			data := payload(r, sizes[r.n(len(sizes))])
			marker("op/%d/begin/file/%d", i, t)
			af, err := osutil.NewAtomicFile(targets[t], 0644, 0, osutil.NoChown, osutil.NoChown)
			if err != nil {
				// (an injected open failure)
				marker("op/%d/failed/%d", i, len(data))
				continue
			}
			rd := bytes.NewReader(data)
			buf := make([]byte, 1+r.n(20000))
			failed := false
			for {
				n, rerr := rd.Read(buf)
				if n > 0 {
					if _, err := af.Write(buf[:n]); err != nil {
						failed = true
						break
					}
				}
				if rerr != nil {
					break
				}
			}
			if !failed {
				if err := af.Commit(); err != nil {
					failed = true
				}
			}
			if failed {
				af.Cancel()
				marker("op/%d/failed/%d", i, len(data))
				continue
			}
			marker("op/%d/end/%d", i, len(data))
		}
	}
	marker("done")
}
