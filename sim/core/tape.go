// Package verifsim is the shared core of the deterministic simulator used by
// the checks under /verif. It is added to the snapd module through
// `go test -overlay` (virtual path /repo/internal/verifsim) and is never part
// of the tree.
package verifsim

import (
	"fmt"
)

// splitmix64
type prng struct{ s uint64 }

func (r *prng) next() uint64 {
	r.s += 0x9e3779b97f4a7c15
	z := r.s
	z = (z ^ (z >> 30)) * 0xbf58476d1ce4e5b9
	z = (z ^ (z >> 27)) * 0x94d049bb133111eb
	return z ^ (z >> 31)
}

func mix(a, b uint64) uint64 {
	r := prng{s: a ^ (b+0x632be59bd9b4e019)*0x9e3779b97f4a7c15}
	r.next()
	return r.next()
}

// Tape is the only source of variation of a simulated run. In generation
// mode values come from a PRNG and are recorded; in replay mode they come
// from the recorded values (0 once exhausted). Value 0 is by convention the
// simplest choice.
type Tape struct {
	in     []uint32 // replay input
	replay bool
	pos    int
	r      prng
	Used   []uint32 // values actually consumed, normalised to their range
	Labels []string // only filled when verbose
	verbose bool
}

func newGenTape(seed uint64, run uint64) *Tape {
	return &Tape{r: prng{s: mix(seed, run)}}
}

func newReplayTape(vals []uint32) *Tape {
	return &Tape{in: vals, replay: true}
}

// Draw returns a value in [0,n). n<=1 consumes nothing.
func (t *Tape) Draw(label string, n int) int {
	if n <= 1 {
		return 0
	}
	var v uint32
	if t.replay {
		if t.pos < len(t.in) {
			v = t.in[t.pos] % uint32(n)
		}
	} else {
		v = uint32(t.r.next() % uint64(n))
	}
	t.pos++
	t.Used = append(t.Used, v)
	if t.verbose {
		t.Labels = append(t.Labels, fmt.Sprintf("%s=%d/%d", label, v, n))
	}
	return int(v)
}
