package verifsim

import (
	"fmt"
	"sort"
	"strings"
	"time"
)

// Violation is one oracle failure of a run.
type Violation struct {
	// Class is "<property>/<oracle-class>", stable across runs; the shrinker
	// keeps the class fixed and known findings are keyed by it.
	Class string `json:"class"`
	Msg   string `json:"msg"`
}

func (v Violation) Property() string {
	if i := strings.Index(v.Class, "/"); i > 0 {
		return v.Class[:i]
	}
	return v.Class
}

// HarnessError is panicked by harness code for failures of the simulator
// itself (never a verdict about snapd).
type HarnessError struct{ Msg string }

func (e HarnessError) Error() string { return "verif harness failure: " + e.Msg }

// Ctx is handed to an engine for one simulated run.
type Ctx struct {
	Prop    string // property being decided
	Tier    string // quick | thorough
	Seed    uint64
	Run     uint64
	Tape    *Tape
	Verbose bool // keep the decoded trace

	hash       uint64
	nlog       int
	Trace      []string
	Stats      map[string]int64
	Violations []Violation
	nontrivial bool
	SimTime    time.Duration
	// Extra lets an engine attach a structured sample of the run (only read
	// when Verbose).
	Extra map[string]interface{}
}

func newCtx(prop, tier string, seed, run uint64, tape *Tape, verbose bool) *Ctx {
	tape.verbose = verbose
	return &Ctx{Prop: prop, Tier: tier, Seed: seed, Run: run, Tape: tape, Verbose: verbose,
		hash: 14695981039346656037, Stats: map[string]int64{}}
}

// Draw returns a tape value in [0,n); 0 is the simplest choice.
func (c *Ctx) Draw(label string, n int) int { return c.Tape.Draw(label, n) }

// Chance is true with probability num/den; tape value 0 means false.
func (c *Ctx) Chance(label string, num, den int) bool {
	if num <= 0 {
		return false
	}
	return c.Tape.Draw(label, den) >= den-num
}

// Range draws from [lo,hi] inclusive; lo is the simplest.
func (c *Ctx) Range(label string, lo, hi int) int {
	if hi <= lo {
		return lo
	}
	return lo + c.Tape.Draw(label, hi-lo+1)
}

// Perm draws a permutation of n elements (identity for an all-zero tape).
func (c *Ctx) Perm(label string, n int) []int {
	p := make([]int, n)
	for i := range p {
		p[i] = i
	}
	for i := 0; i < n-1; i++ {
		j := i + c.Tape.Draw(label, n-i)
		p[i], p[j] = p[j], p[i]
	}
	return p
}

// Logf appends a line to the event log of the run. The log hash is the
// run's fingerprint; lines are only kept in verbose mode. It never draws
// and never reads a clock.
func (c *Ctx) Logf(format string, args ...interface{}) {
	s := fmt.Sprintf(format, args...)
	h := c.hash
	for i := 0; i < len(s); i++ {
		h ^= uint64(s[i])
		h *= 1099511628211
	}
	h ^= '\n'
	h *= 1099511628211
	c.hash = h
	c.nlog++
	if c.Verbose {
		c.Trace = append(c.Trace, s)
	}
}

func (c *Ctx) Hash() uint64 { return c.hash }

// Count bumps a named counter (fault kinds that actually fired, probes for
// rare branches, oracle evaluations).
func (c *Ctx) Count(name string) { c.Stats[name]++ }

func (c *Ctx) Add(name string, n int64) { c.Stats[name] += n }

// Nontrivial marks the run as counting towards distinct_nontrivial.
func (c *Ctx) Nontrivial() { c.nontrivial = true }

// Violate records an oracle failure.
func (c *Ctx) Violate(class string, format string, args ...interface{}) {
	msg := fmt.Sprintf(format, args...)
	c.Logf("VIOLATION %s: %s", class, msg)
	for _, v := range c.Violations {
		if v.Class == class {
			return
		}
	}
	c.Violations = append(c.Violations, Violation{Class: class, Msg: msg})
}

// Active tells whether oracles of the given property should be evaluated.
func (c *Ctx) Active(prop string) bool { return c.Prop == prop }

// Fatalf aborts the run with a harness failure (exit 2, never a verdict).
func (c *Ctx) Fatalf(format string, args ...interface{}) {
	panic(HarnessError{Msg: fmt.Sprintf(format, args...)})
}

// SortedKeys is a small helper for canonical iteration over maps.
func SortedKeys(m map[string]int64) []string {
	ks := make([]string, 0, len(m))
	for k := range m {
		ks = append(ks, k)
	}
	sort.Strings(ks)
	return ks
}
