package verifsim

import (
	"encoding/binary"
	"encoding/json"
	"fmt"
	"os"
	"path/filepath"
	"runtime"
	"runtime/debug"
	"sort"
	"strconv"
	"strings"
	"sync/atomic"
	"testing"
	"testing/synctest"
	"time"
)

// Engine is one simulator configuration able to decide one or more
// properties.
type Engine struct {
	Name string
	// Bubble: run every execution inside a testing/synctest bubble (fake
	// clock, quiescence detection).
	Bubble bool
	// Run performs exactly one simulated execution, drawing every choice
	// from c and reporting through c. It must leave no goroutine behind.
	Run func(c *Ctx)
	// RealComponents / Stubs are reported in the evidence.
	Real  []string
	Stubs []string
}

// ReplayFile is the on-disk form of one exact execution.
type ReplayFile struct {
	Property string   `json:"property"`
	Engine   string   `json:"engine"`
	Tier     string   `json:"tier"`
	Seed     uint64   `json:"seed"`
	Run      uint64   `json:"run"`
	Class    string   `json:"class"`
	Message  string   `json:"message"`
	Tape     []uint32 `json:"tape"`
	LogHash  string   `json:"log_hash"`
	// informational
	OriginalTapeLen int      `json:"original_tape_len"`
	ShrinkTried     int      `json:"shrink_candidates_tried"`
	Choices         []string `json:"decoded_choices,omitempty"`
	Trace           []string `json:"trace,omitempty"`
	Repo            string   `json:"repo,omitempty"`
	Known           bool     `json:"known_finding,omitempty"`
	// Flaky: the code under test itself behaves nondeterministically for this
	// tape (typically Go map iteration order deciding a tie); the violation
	// reproduced Reproduced times out of Attempts re-executions.
	Flaky      bool `json:"flaky,omitempty"`
	Reproduced int  `json:"reproduced,omitempty"`
	Attempts   int  `json:"attempts,omitempty"`
}

type knownEntry struct {
	Property string `json:"property"`
	Class    string `json:"class"`
	Status   string `json:"status"` // "known" | "fixed"
	What     string `json:"what"`
}

type knownOut struct {
	Count  int64  `json:"count"`
	Msg    string `json:"msg"`
	Replay string `json:"replay,omitempty"`
}

// WorkerOut is what one worker process reports to the driver.
type WorkerOut struct {
	Engine        string               `json:"engine"`
	Property      string               `json:"property"`
	Worker        int                  `json:"worker"`
	Runs          int64                `json:"runs"`
	Rechecked     int64                `json:"determinism_rechecks"`
	Stats         map[string]int64     `json:"stats"`
	SimTimeNs     int64                `json:"simtime_ns"`
	SimTimeS      int64                `json:"simtime_s"`
	Nontrivial    int64                `json:"nontrivial_runs"`
	Fingerprints  string               `json:"fingerprints_file"`
	Violations    []string             `json:"violation_replays"`
	Known         map[string]*knownOut `json:"known"`
	Samples       []interface{}        `json:"samples"`
	Real          []string             `json:"real"`
	Stubs         []string             `json:"stubs"`
	Error         string               `json:"error,omitempty"`
	WallS         float64              `json:"wall_s"`
	TapeLenTotal  int64                `json:"tape_len_total"`
	ReplayOutcome string               `json:"replay_outcome,omitempty"`
}

var progress int64

func envInt(name string, def int64) int64 {
	if v := os.Getenv(name); v != "" {
		x, err := strconv.ParseInt(v, 10, 64)
		if err == nil {
			return x
		}
	}
	return def
}

func shortStack() string {
	st := string(debug.Stack())
	lines := strings.Split(st, "\n")
	out := []string{}
	for _, l := range lines {
		if strings.Contains(l, "/repo/") || strings.Contains(l, "snapcore/snapd") {
			l = strings.TrimSpace(l)
			// keep the message a deterministic function of the run: no
			// pointer-valued arguments, no pc offsets
			if strings.HasPrefix(l, "/") {
				// file:line +0xpc
			} else {
				// function(args): cut at the parenthesis that opens the arguments (not
				// the one of a pointer receiver "(*T)")
				seg := strings.LastIndex(l, "/")
				for i := seg + 1; i < len(l); i++ {
					if l[i] == '(' && (i+1 >= len(l) || l[i+1] != '*') {
						l = l[:i]
						break
					}
				}
			}
			if i := strings.Index(l, " +0x"); i >= 0 {
				l = l[:i]
			}
			if strings.Contains(l, "(...)") {
				l = strings.Replace(l, "(...)", "", 1)
			}
			out = append(out, l)
		}
		if len(out) > 24 {
			break
		}
	}
	return strings.Join(out, " | ")
}

// execute runs one execution; herr != nil means the simulator itself failed.
func execute(t *testing.T, e *Engine, c *Ctx) (herr error) {
	body := func() {
		defer func() {
			if r := recover(); r != nil {
				if he, ok := r.(HarnessError); ok {
					herr = he
					return
				}
				c.Violate(c.Prop+"/panic", "panic in snapd code: %v @ %s", r, shortStack())
			}
		}()
		e.Run(c)
	}
	if !e.Bubble {
		body()
		return herr
	}
	func() {
		defer func() {
			if r := recover(); r != nil {
				herr = fmt.Errorf("bubble ended abnormally: %v", r)
			}
		}()
		synctest.Test(t, func(*testing.T) { body() })
	}()
	return herr
}

func hasClass(vs []Violation, class string) *Violation {
	for i := range vs {
		if vs[i].Class == class {
			return &vs[i]
		}
	}
	return nil
}

func trimZeros(v []uint32) []uint32 {
	n := len(v)
	for n > 0 && v[n-1] == 0 {
		n--
	}
	return append([]uint32(nil), v[:n]...)
}

type shrinker struct {
	t      *testing.T
	e      *Engine
	prop   string
	tier   string
	seed   uint64
	run    uint64
	class  string
	tried  int
	max    int
	t0     time.Time
	budget time.Duration
	tries  int // executions per candidate (more than one only for flaky violations)
}

func (s *shrinker) test(vals []uint32) ([]uint32, bool) {
	n := s.tries
	if n < 1 {
		n = 1
	}
	for k := 0; k < n; k++ {
		if nv, ok := s.testOnce(vals); ok {
			return nv, true
		}
	}
	return nil, false
}

func (s *shrinker) testOnce(vals []uint32) ([]uint32, bool) {
	if s.tried >= s.max || time.Since(s.t0) > s.budget {
		return nil, false
	}
	s.tried++
	c := newCtx(s.prop, s.tier, s.seed, s.run, newReplayTape(vals), false)
	if err := execute(s.t, s.e, c); err != nil {
		return nil, false
	}
	atomic.AddInt64(&progress, 1)
	if hasClass(c.Violations, s.class) == nil {
		return nil, false
	}
	return trimZeros(c.Tape.Used), true
}

func (s *shrinker) shrink(vals []uint32) []uint32 {
	cur := trimZeros(vals)
	for pass := 0; pass < 8; pass++ {
		improved := false
		// zero blocks (0 is the simplest choice everywhere)
		for size := len(cur); size >= 2; size /= 2 {
			for start := 0; start < len(cur); start += size {
				end := start + size
				if end > len(cur) {
					end = len(cur)
				}
				nz := false
				for _, x := range cur[start:end] {
					if x != 0 {
						nz = true
					}
				}
				if !nz {
					continue
				}
				cand := append([]uint32(nil), cur...)
				for i := start; i < end; i++ {
					cand[i] = 0
				}
				if nv, ok := s.test(cand); ok && tapeLess(nv, cur) {
					cur = nv
					improved = true
				}
			}
		}
		// delete chunks
		for size := len(cur) / 2; size >= 1; size /= 2 {
			for start := len(cur) - size; start >= 0; start -= size {
				if start+size > len(cur) {
					continue
				}
				cand := append(append([]uint32(nil), cur[:start]...), cur[start+size:]...)
				if nv, ok := s.test(cand); ok && len(nv) < len(cur) {
					cur = nv
					improved = true
				}
			}
		}
		// zero values
		for i := 0; i < len(cur); i++ {
			if cur[i] == 0 {
				continue
			}
			cand := append([]uint32(nil), cur...)
			cand[i] = 0
			if nv, ok := s.test(cand); ok && tapeLess(nv, cur) {
				cur = nv
				improved = true
			}
		}
		// lower values
		for i := 0; i < len(cur); i++ {
			if cur[i] <= 1 {
				continue
			}
			for _, nvv := range []uint32{cur[i] / 2, cur[i] - 1} {
				if i >= len(cur) || nvv >= cur[i] {
					continue
				}
				cand := append([]uint32(nil), cur...)
				cand[i] = nvv
				if nv, ok := s.test(cand); ok && tapeLess(nv, cur) {
					cur = nv
					improved = true
				}
			}
		}
		if !improved || s.tried >= s.max || time.Since(s.t0) > s.budget {
			break
		}
	}
	return cur
}

// tapeLess: shorter, or same length and smaller sum.
func tapeLess(a, b []uint32) bool {
	if len(a) != len(b) {
		return len(a) < len(b)
	}
	var sa, sb uint64
	for _, x := range a {
		sa += uint64(x)
	}
	for _, x := range b {
		sb += uint64(x)
	}
	return sa < sb
}

func writeJSON(path string, v interface{}) error {
	b, err := json.MarshalIndent(v, "", " ")
	if err != nil {
		return err
	}
	tmp := path + ".tmp"
	if err := os.WriteFile(tmp, b, 0644); err != nil {
		return err
	}
	return os.Rename(tmp, path)
}

func loadKnown(path string) map[string]bool {
	known := map[string]bool{}
	if path == "" {
		return known
	}
	b, err := os.ReadFile(path)
	if err != nil {
		return known
	}
	var f struct {
		Findings []knownEntry `json:"findings"`
	}
	if err := json.Unmarshal(b, &f); err != nil {
		fmt.Fprintf(os.Stderr, "verif: cannot parse %s: %v\n", path, err)
		os.Exit(2)
	}
	for _, k := range f.Findings {
		if k.Status == "known" {
			known[k.Class] = true
		}
	}
	return known
}

// Main is the entry point of every simulation test binary.
func Main(t *testing.T, engines map[string]*Engine) {
	prop := os.Getenv("VERIF_PROP")
	if prop == "" {
		t.Skip("VERIF_PROP not set: simulator entry point, run through /verif/bin/check")
	}
	e := engines[prop]
	if e == nil {
		fmt.Fprintf(os.Stderr, "verif: no engine for property %q in this binary\n", prop)
		os.Exit(2)
	}
	tier := os.Getenv("VERIF_TIER")
	if tier == "" {
		tier = "quick"
	}
	seed := uint64(envInt("VERIF_SEED", 1))
	worker := int(envInt("VERIF_WORKER", 0))
	workers := int(envInt("VERIF_WORKERS", 1))
	maxRuns := envInt("VERIF_MAXRUNS", 0)
	budget := time.Duration(envInt("VERIF_BUDGET_S", 30)) * time.Second
	outDir := os.Getenv("VERIF_OUT")
	if outDir == "" {
		outDir = os.TempDir()
	}
	wdog := time.Duration(envInt("VERIF_WATCHDOG_S", 180)) * time.Second
	known := loadKnown(os.Getenv("VERIF_KNOWN"))
	recheckEvery := envInt("VERIF_RECHECK_EVERY", 50)

	out := &WorkerOut{Engine: e.Name, Property: prop, Worker: worker, Stats: map[string]int64{},
		Known: map[string]*knownOut{}, Real: e.Real, Stubs: e.Stubs}
	outPath := filepath.Join(outDir, fmt.Sprintf("worker%d.json", worker))
	finish := func(code int) {
		if err := writeJSON(outPath, out); err != nil {
			fmt.Fprintf(os.Stderr, "verif: cannot write %s: %v\n", outPath, err)
			os.Exit(2)
		}
		os.Exit(code)
	}

	// real-time watchdog, outside any bubble
	go func() {
		last := atomic.LoadInt64(&progress)
		lastT := time.Now()
		for {
			time.Sleep(2 * time.Second)
			p := atomic.LoadInt64(&progress)
			if p != last {
				last = p
				lastT = time.Now()
				continue
			}
			if time.Since(lastT) > wdog {
				buf := make([]byte, 1<<20)
				n := runtime.Stack(buf, true)
				fmt.Fprintf(os.Stderr, "verif: WATCHDOG: no progress for %v (worker %d)\n%s\n", wdog, worker, buf[:n])
				out.Error = "watchdog: no progress"
				writeJSON(outPath, out)
				os.Exit(2)
			}
		}
	}()

	if rp := os.Getenv("VERIF_REPLAY"); rp != "" {
		replayMain(t, e, rp, out, finish)
		return
	}

	if v := os.Getenv("VERIF_ONLY_RUN"); v != "" {
		run := uint64(envInt("VERIF_ONLY_RUN", 0))
		c := newCtx(prop, tier, seed, run, newGenTape(seed, run), true)
		err := execute(t, e, c)
		for _, l := range c.Trace {
			fmt.Println("  | " + l)
		}
		fmt.Printf("run %d: violations=%v herr=%v tape=%d hash=%x\n", run, c.Violations, err, len(c.Tape.Used), c.hash)
		if os.Getenv("VERIF_ONLY_RUN_TWICE") != "" {
			c2 := newCtx(prop, tier, seed, run, newReplayTape(c.Tape.Used), true)
			execute(t, e, c2)
			fmt.Printf("replay in the same process: hash=%x\n", c2.hash)
			for i := 0; i < len(c.Trace) || i < len(c2.Trace); i++ {
				var x, y string
				if i < len(c.Trace) {
					x = c.Trace[i]
				}
				if i < len(c2.Trace) {
					y = c2.Trace[i]
				}
				if x != y {
					fmt.Printf("first divergence at log line %d:\n  gen:    %s\n  replay: %s\n", i, x, y)
					for j := i - 3; j < i+8; j++ {
						if j >= 0 && j < len(c2.Trace) {
							fmt.Printf("  replay[%d]: %s\n", j, c2.Trace[j])
						}
					}
					break
				}
			}
		}
		os.Exit(0)
	}

	nondet := ""
	t0 := time.Now()
	fps := map[uint64]struct{}{}
	var sampleRuns []uint64
	nViol := 0
	for i := int64(0); ; i++ {
		if maxRuns > 0 && i >= maxRuns {
			break
		}
		if time.Since(t0) > budget {
			break
		}
		run := uint64(i)*uint64(workers) + uint64(worker)
		c := newCtx(prop, tier, seed, run, newGenTape(seed, run), false)
		if err := execute(t, e, c); err != nil {
			out.Error = fmt.Sprintf("run %d: %v", run, err)
			fmt.Fprintf(os.Stderr, "verif: %s\n", out.Error)
			finish(2)
		}
		atomic.AddInt64(&progress, 1)
		out.Runs++
		out.SimTimeS += int64(c.SimTime / time.Second)
		out.SimTimeNs += int64(c.SimTime % time.Second)
		out.TapeLenTotal += int64(len(c.Tape.Used))
		for k, v := range c.Stats {
			out.Stats[k] += v
		}
		if c.nontrivial {
			out.Nontrivial++
			fps[c.hash] = struct{}{}
			if worker == 0 && len(sampleRuns) < 3 {
				sampleRuns = append(sampleRuns, run)
			}
		}
		if recheckEvery > 0 && i%recheckEvery == 0 {
			c2 := newCtx(prop, tier, seed, run, newReplayTape(c.Tape.Used), false)
			if err := execute(t, e, c2); err != nil {
				out.Error = fmt.Sprintf("run %d (recheck): %v", run, err)
				finish(2)
			}
			out.Rechecked++
			if c2.hash != c.hash {
				// keep exploring: if the tree under test is itself nondeterministic
				// (and broken) a violation will say so; without one this is exit 2
				if nondet == "" {
					nondet = fmt.Sprintf("NONDETERMINISM: run %d of seed %d gives log hash %x then %x on replay of its own tape", run, seed, c.hash, c2.hash)
					fmt.Fprintf(os.Stderr, "verif: %s\n", nondet)
					dumpDivergence(t, e, prop, tier, seed, run, c.Tape.Used)
				}
				out.Stats["nondeterministic-rechecks"]++
			}
		}
		if len(c.Violations) == 0 {
			continue
		}
		for _, v := range c.Violations {
			if known[v.Class] {
				k := out.Known[v.Class]
				if k == nil {
					k = &knownOut{Msg: v.Msg}
					out.Known[v.Class] = k
					// keep one replay of the known finding for reference
					rf := buildReplay(t, e, prop, tier, seed, run, v.Class, c.Tape.Used, 80, 20*time.Second)
					if rf != nil {
						rf.Known = true
						p := filepath.Join(outDir, fmt.Sprintf("known-%s-%d-%d.json", strings.ReplaceAll(v.Class, "/", "_"), seed, run))
						writeJSON(p, rf)
						k.Replay = p
					}
				}
				k.Count++
				continue
			}
			if nViol >= 3 {
				continue
			}
			rf := buildReplay(t, e, prop, tier, seed, run, v.Class, c.Tape.Used, 4000, 45*time.Second)
			if rf == nil {
				out.Error = fmt.Sprintf("NONDETERMINISM: violation %s of run %d (seed %d) does not reproduce from its tape", v.Class, run, seed)
				fmt.Fprintf(os.Stderr, "verif: %s\n", out.Error)
				finish(2)
			}
			p := filepath.Join(outDir, fmt.Sprintf("%s-%d-%d.json", strings.ReplaceAll(v.Class, "/", "_"), seed, run))
			writeJSON(p, rf)
			out.Violations = append(out.Violations, p)
			nViol++
		}
		if nViol >= 3 {
			break
		}
	}
	// samples: decoded traces of up to three nontrivial runs
	for _, run := range sampleRuns {
		c := newCtx(prop, tier, seed, run, newGenTape(seed, run), true)
		if err := execute(t, e, c); err == nil {
			tr := c.Trace
			if len(tr) > 60 {
				tr = append(append([]string{}, tr[:40]...), fmt.Sprintf("... (%d more lines)", len(tr)-40))
			}
			s := map[string]interface{}{"run": run, "seed": seed, "tape_len": len(c.Tape.Used), "trace": tr}
			for k, v := range c.Extra {
				s[k] = v
			}
			out.Samples = append(out.Samples, s)
		}
	}
	// fingerprints
	fpPath := filepath.Join(outDir, fmt.Sprintf("worker%d.fp", worker))
	buf := make([]byte, 0, len(fps)*8)
	keys := make([]uint64, 0, len(fps))
	for k := range fps {
		keys = append(keys, k)
	}
	sort.Slice(keys, func(i, j int) bool { return keys[i] < keys[j] })
	for _, k := range keys {
		buf = binary.LittleEndian.AppendUint64(buf, k)
	}
	os.WriteFile(fpPath, buf, 0644)
	out.Fingerprints = fpPath
	out.WallS = time.Since(t0).Seconds()
	if len(out.Violations) > 0 {
		finish(1)
	}
	if nondet != "" {
		out.Error = nondet
		finish(2)
	}
	finish(0)
}

// buildReplay minimises the tape for the class, then re-executes the result
// twice in verbose mode; nil if it does not reproduce identically.
func buildReplay(t *testing.T, e *Engine, prop, tier string, seed, run uint64, class string, tape []uint32, maxCand int, budget time.Duration) *ReplayFile {
	s := &shrinker{t: t, e: e, prop: prop, tier: tier, seed: seed, run: run, class: class, max: maxCand, t0: time.Now(), budget: budget}
	// the unshrunk tape must reproduce first; if it only does so sometimes
	// the code under test is itself nondeterministic for this tape (a mutated
	// tree whose outcome hangs on map iteration order): keep going with
	// several executions per candidate and say so in the replay file
	flaky := false
	ok := false
	for k := 0; k < 8 && !ok; k++ {
		_, ok = s.testOnce(tape)
		if !ok {
			flaky = true
		}
	}
	if !ok {
		return nil
	}
	if flaky {
		s.tries = 4
	}
	min := s.shrink(tape)
	var first *Ctx
	attempts, reproduced := 0, 0
	sameHash := true
	for k := 0; k < 12; k++ {
		c := newCtx(prop, tier, seed, run, newReplayTape(min), true)
		if err := execute(t, e, c); err != nil {
			return nil
		}
		attempts++
		if hasClass(c.Violations, class) == nil {
			flaky = true
			continue
		}
		reproduced++
		if first == nil {
			first = c
		} else if first.hash != c.hash {
			sameHash = false
		}
		if !flaky && reproduced == 2 {
			break
		}
	}
	if first == nil {
		return nil
	}
	if !flaky && !sameHash {
		return nil // same verdict, different event logs: the harness is to blame
	}
	v := hasClass(first.Violations, class)
	tr := first.Trace
	if len(tr) > 400 {
		tr = append(tr[:400:400], fmt.Sprintf("... (%d more lines)", len(first.Trace)-400))
	}
	return &ReplayFile{Property: prop, Engine: e.Name, Tier: tier, Seed: seed, Run: run, Class: class, Message: v.Msg,
		Tape: trimZeros(first.Tape.Used), LogHash: fmt.Sprintf("%016x", first.hash), OriginalTapeLen: len(tape),
		ShrinkTried: s.tried, Choices: first.Tape.Labels, Trace: tr, Repo: os.Getenv("VERIF_REPO_DESCRIBE"),
		Flaky: flaky, Reproduced: reproduced, Attempts: attempts}
}

func dumpDivergence(t *testing.T, e *Engine, prop, tier string, seed, run uint64, tape []uint32) {
	var traces [][]string
	for k := 0; k < 2; k++ {
		c := newCtx(prop, tier, seed, run, newReplayTape(tape), true)
		execute(t, e, c)
		traces = append(traces, c.Trace)
	}
	a, b := traces[0], traces[1]
	for i := 0; i < len(a) || i < len(b); i++ {
		var x, y string
		if i < len(a) {
			x = a[i]
		}
		if i < len(b) {
			y = b[i]
		}
		if x != y {
			fmt.Fprintf(os.Stderr, "verif: first divergence at log line %d:\n  A: %s\n  B: %s\n", i, x, y)
			return
		}
	}
	fmt.Fprintf(os.Stderr, "verif: two verbose re-executions agree with each other (divergence is between generation and replay)\n")
}

func replayMain(t *testing.T, e *Engine, path string, out *WorkerOut, finish func(int)) {
	b, err := os.ReadFile(path)
	if err != nil {
		out.Error = err.Error()
		fmt.Fprintf(os.Stderr, "verif: %v\n", err)
		finish(2)
	}
	var rf ReplayFile
	if err := json.Unmarshal(b, &rf); err != nil {
		out.Error = err.Error()
		fmt.Fprintf(os.Stderr, "verif: %v\n", err)
		finish(2)
	}
	var c *Ctx
	tries := 1
	if rf.Flaky {
		tries = 30
	}
	for k := 0; k < tries; k++ {
		c = newCtx(rf.Property, rf.Tier, rf.Seed, rf.Run, newReplayTape(rf.Tape), true)
		if err := execute(t, e, c); err != nil {
			out.Error = err.Error()
			fmt.Fprintf(os.Stderr, "verif: %v\n", err)
			finish(2)
		}
		if hasClass(c.Violations, rf.Class) != nil {
			break
		}
	}
	out.Runs = 1
	if os.Getenv("VERIF_TRACE") != "" {
		for _, l := range c.Trace {
			fmt.Println("  | " + l)
		}
	}
	v := hasClass(c.Violations, rf.Class)
	h := fmt.Sprintf("%016x", c.hash)
	switch {
	case v != nil && h == rf.LogHash:
		out.ReplayOutcome = "reproduced"
		fmt.Printf("REPLAY reproduced class=%s hash=%s: %s\n", rf.Class, h, v.Msg)
		finish(1)
	case v != nil:
		out.ReplayOutcome = "reproduced-different-hash"
		fmt.Printf("REPLAY class=%s reproduced but event log differs (hash %s, recorded %s): %s\n", rf.Class, h, rf.LogHash, v.Msg)
		finish(1)
	default:
		out.ReplayOutcome = "not-reproduced"
		fmt.Printf("REPLAY class=%s not reproduced on this tree (hash %s, recorded %s)\n", rf.Class, h, rf.LogHash)
		finish(0)
	}
}
