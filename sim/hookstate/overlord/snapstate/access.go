//go:build verif

package snapstate

import "github.com/snapcore/snapd/overlord/state"

// VerifResetGatingForRefreshed is what link-snap does for a refreshed snap
// (simulator accessor, overlay only).
func VerifResetGatingForRefreshed(st *state.State, refreshedSnaps ...string) error {
	return resetGatingForRefreshed(st, refreshedSnaps...)
}
