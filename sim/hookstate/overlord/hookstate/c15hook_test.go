package hookstate_test

// C15 (second engine): refresh holds requested from a snap's
// gate-auto-refresh hook through the real `snapctl refresh --hold/--proceed`
// implementation (ctlcmd), the real gate-auto-refresh hook handler
// (Done/Error paths) and the real hook manager, in the realistic cycle
// "run the gate hook, then refresh whatever is not held", on the simulated
// clock.

import (
	"fmt"
	"math/rand"
	"sort"
	"testing"
	"testing/synctest"
	"time"

	check "gopkg.in/check.v1"
	"gopkg.in/tomb.v2"

	"github.com/snapcore/snapd/interfaces"
	"github.com/snapcore/snapd/internal/verifsim"
	"github.com/snapcore/snapd/overlord/configstate/config"
	"github.com/snapcore/snapd/overlord/hookstate"
	"github.com/snapcore/snapd/overlord/hookstate/ctlcmd"
	"github.com/snapcore/snapd/overlord/ifacestate/ifacerepo"
	"github.com/snapcore/snapd/overlord/snapstate"
	"github.com/snapcore/snapd/overlord/snapstate/snapstatetest"
	"github.com/snapcore/snapd/randutil"
	"github.com/snapcore/snapd/snap"
	"github.com/snapcore/snapd/snap/snaptest"
)

type verifC15HookSuite struct {
	baseHookManagerSuite
	ctx *verifsim.Ctx
}

func (s *verifC15HookSuite) SetUpTest(c *check.C) {
	s.commonSetUpTest(c)
	s.state.Lock()
	defer s.state.Unlock()
	tr := config.NewTransaction(s.state)
	tr.Set("core", "experimental.refresh-app-awareness", false)
	tr.Commit()
	ifacerepo.Replace(s.state, interfaces.NewRepository())
}

func (s *verifC15HookSuite) TearDownTest(c *check.C) { s.commonTearDownTest(c) }

func (s *verifC15HookSuite) TestVerifBody(gc *check.C) {
	c := s.ctx
	st := s.state
	const day = 24 * time.Hour
	lastRefresh := map[string]time.Time{}
	setSnap := func(name, yaml string, when time.Time) {
		si := &snap.SideInfo{RealName: name, SnapID: name + "-id1", Revision: snap.R(1)}
		snaptest.MockSnap(gc, yaml, si)
		w := when
		snapstate.Set(st, name, &snapstate.SnapState{Active: true, Sequence: snapstatetest.NewSequenceFromSnapSideInfos([]*snap.SideInfo{si}), Current: snap.R(1), LastRefreshTime: &w})
		lastRefresh[name] = when
	}
	refreshed := func(name string) {
		now := time.Now()
		snapstate.VerifResetGatingForRefreshed(st, name)
		var snapst snapstate.SnapState
		if snapstate.Get(st, name, &snapst) == nil {
			snapst.LastRefreshTime = &now
			snapstate.Set(st, name, &snapst)
		}
		lastRefresh[name] = now
	}
	start := time.Now()
	st.Lock()
	setSnap("snap-a", snapaYaml, start.Add(-time.Duration(c.Draw("snap-a-last-refresh-days", 40))*day))
	setSnap("base-snap-a", snapaBaseYaml, start.Add(-time.Duration(c.Draw("base-last-refresh-days", 40))*day))
	st.Unlock()

	// what the hook script does in this run of the hook
	behaviour := 0
	var lastHoldErr error
	restore := hookstate.MockRunHook(func(ctx *hookstate.Context, tb *tomb.Tomb) ([]byte, error) {
		switch behaviour {
		case 0, 1: // snapctl refresh --hold; 0: `set -e` style script, 1: ignores the result
			_, _, err := ctlcmd.Run(ctx, []string{"refresh", "--hold"}, 0)
			lastHoldErr = err
			if err != nil && behaviour == 0 {
				return []byte(err.Error()), fmt.Errorf("exit status 1")
			}
			return nil, nil
		case 2:
			_, _, err := ctlcmd.Run(ctx, []string{"refresh", "--proceed"}, 0)
			if err != nil {
				return []byte(err.Error()), fmt.Errorf("exit status 1")
			}
			return nil, nil
		case 3: // the hook crashes before saying anything
			return []byte("boom"), fmt.Errorf("exit status 2")
		default: // says nothing
			return nil, nil
		}
	})
	defer restore()

	episode := map[string]time.Time{} // held snap -> first time snap-a was seen holding it since its last refresh / a proceed
	observe := func(where string) {
		now := time.Now()
		held, err := snapstate.HeldSnaps(st, snapstate.HoldAutoRefresh)
		if err != nil {
			c.Violate("C15/held-snaps-error", "%s: %v", where, err)
			return
		}
		var names []string
		for h := range held {
			names = append(names, h)
		}
		sort.Strings(names)
		for _, h := range names {
			for _, holder := range held[h] {
				if holder == "system" {
					continue
				}
				c.Count("holds-observed")
				ep, ok := episode[h+"<"+holder]
				if !ok {
					episode[h+"<"+holder] = now
					ep = now
				}
				if holder != h && now.After(ep.Add(48*time.Hour)) {
					c.Violate("C15/held-beyond-48h", "%s: %s is held by %s, %v after that snap first held it since %s was last refreshed", where, h, holder, now.Sub(ep), h)
				}
				if now.After(lastRefresh[h].Add(90 * day)) {
					c.Violate("C15/held-beyond-90d", "%s: %s is held by %s %v after its last refresh", where, h, holder, now.Sub(lastRefresh[h]))
				}
			}
		}
		for k := range episode {
			// an episode only goes on while the hold is reported
			found := false
			for _, h := range names {
				for _, holder := range held[h] {
					if h+"<"+holder == k {
						found = true
					}
				}
			}
			_ = found
		}
	}

	ncycles := 3 + c.Draw("cycles", 10)
	for i := 0; i < ncycles && len(c.Violations) == 0; i++ {
		// time passes until the next auto-refresh attempt
		var d time.Duration
		switch c.Draw("gap-kind", 4) {
		case 0:
			d = time.Duration(1+c.Draw("gap-hours", 30)) * time.Hour
		case 1:
			d = 47*time.Hour + time.Duration(c.Draw("gap-around-48h-min", 180))*time.Minute
		case 2:
			d = time.Duration(1+c.Draw("gap-days", 20)) * day
		case 3:
			d = time.Duration(60+c.Draw("gap-many-days", 50)) * day
		}
		time.Sleep(d)
		st.Lock()
		observe(fmt.Sprintf("before cycle %d", i))
		// an auto-refresh attempt: there are updates for the base (and sometimes for snap-a itself)
		cands := map[string]interface{}{"base-snap-a": mockRefreshCandidate("base-snap-a", "", "edge", "v1", snap.Revision{N: 3 + i})}
		if c.Draw("snap-a-candidate", 3) == 2 {
			cands["snap-a"] = mockRefreshCandidate("snap-a", "", "edge", "v1", snap.Revision{N: 3 + i})
		}
		st.Set("refresh-candidates", cands)
		behaviour = c.Draw("hook-behaviour", 5)
		lastHoldErr = nil
		task := hookstate.SetupGateAutoRefreshHook(st, "snap-a")
		chg := st.NewChange("auto-refresh", "...")
		chg.AddTask(task)
		st.Unlock()
		for n := 0; n < 60; n++ {
			s.se.Ensure()
			synctest.Wait()
			st.Lock()
			ready := chg.IsReady()
			st.Unlock()
			if ready {
				break
			}
			time.Sleep(time.Millisecond)
		}
		st.Lock()
		c.Logf("t=%v cycle %d: hook behaviour %d -> change %v, hold error=%v", time.Since(start), i, behaviour, chg.Status(), lastHoldErr != nil)
		if lastHoldErr != nil {
			c.Count("probe:hold-refused-by-snapctl")
		}
		if behaviour == 2 {
			for k := range episode {
				delete(episode, k)
			}
		}
		c.Nontrivial()
		observe(fmt.Sprintf("after the hook of cycle %d", i))
		// the refresh goes ahead for whatever is not held
		held, _ := snapstate.HeldSnaps(st, snapstate.HoldAutoRefresh)
		var cn []string
		for n := range cands {
			cn = append(cn, n)
		}
		sort.Strings(cn)
		for _, n := range cn {
			if len(held[n]) == 0 {
				refreshed(n)
				for k := range episode {
					if len(k) > len(n) && k[:len(n)+1] == n+"<" {
						delete(episode, k)
					}
				}
				c.Logf("   %s refreshed", n)
				c.Count("probe:candidate-refreshed")
			} else {
				c.Count("probe:candidate-held-back")
			}
		}
		st.Unlock()
	}
	c.SimTime = time.Since(start)
}

func verifRunC15Hook(c *verifsim.Ctx) {
	randutil.RandomDuration(1)
	rand.Seed(int64(c.Seed*1000003 + c.Run))
	suite := &verifC15HookSuite{ctx: c}
	res := check.Run(suite, &check.RunConf{Filter: "TestVerifBody"})
	if !res.Passed() && len(c.Violations) == 0 {
		c.Fatalf("fixture failed: %s", res.String())
	}
}

var verifEngineC15Hook = &verifsim.Engine{
	Name:   "hookstate: gate-auto-refresh hook + snapctl refresh --hold/--proceed (C15)",
	Bubble: true,
	Run:    verifRunC15Hook,
	Real: []string{"overlord/hookstate: HookManager, gate-auto-refresh hook handler (Before/Done/Error)", "overlord/hookstate/ctlcmd: snapctl refresh --hold / --proceed",
		"overlord/snapstate gating (HoldRefresh, ProceedWithRefresh, HeldSnaps, ResetGatingForRefreshed, affected-snaps computation)"},
	Stubs: []string{"the hook script (scripted behaviours calling the real snapctl implementation)", "the auto-refresh itself (candidates set in state; not-held candidates are marked refreshed)"},
}

func TestVerifSim(t *testing.T) {
	verifsim.Main(t, map[string]*verifsim.Engine{"C15": verifEngineC15Hook})
}
