package backend_test

// C32 engine, part 1: the scratch-filesystem model (trees read from and
// written to real directories), deterministic content, and the builders for
// snapshot zip files, data archives and import tar streams that the
// simulator produces itself (independently of snapd's writers).

import (
	"archive/tar"
	"archive/zip"
	"bytes"
	"compress/gzip"
	"encoding/json"
	"fmt"
	"hash/crc32"
	"io"
	"os"
	"path/filepath"
	"regexp"
	"sort"
	"strings"
	"time"

	"golang.org/x/crypto/sha3"
	"golang.org/x/sys/unix"

	"github.com/snapcore/snapd/client"
)

// ---------------------------------------------------------------------------
// trees

// verifNode is one filesystem object as the oracle sees it.
type verifNode struct {
	kind   byte   // 'd' directory, 'f' regular file, 'l' symlink, 'o' other
	mode   uint32 // permission bits incl. setuid/setgid/sticky (st_mode & 07777)
	data   string // file content
	target string // symlink target
	mtime  int64  // ns; only compared where stated
}

// verifTree maps slash-separated relative paths to nodes; "" is the base
// itself (present iff the base exists).
type verifTree map[string]*verifNode

func verifSameNode(a, b *verifNode, withMtime bool) string {
	switch {
	case a.kind != b.kind:
		return fmt.Sprintf("type %c -> %c", a.kind, b.kind)
	case a.kind != 'l' && a.mode != b.mode:
		return fmt.Sprintf("mode %o -> %o", a.mode, b.mode)
	case a.data != b.data:
		return fmt.Sprintf("content changed (%d -> %d bytes)", len(a.data), len(b.data))
	case a.target != b.target:
		return fmt.Sprintf("link target %q -> %q", a.target, b.target)
	case withMtime && a.kind != 'd' && a.mtime != b.mtime:
		return "rewritten (mtime changed)"
	}
	return ""
}

// verifReadTree reads base (recursively, without following symlinks); the
// subtree at absolute path skip is left out.
func verifReadTree(base, skip string) verifTree {
	t := verifTree{}
	var walk func(abs, rel string)
	walk = func(abs, rel string) {
		if abs == skip {
			return
		}
		var st unix.Stat_t
		if err := unix.Lstat(abs, &st); err != nil {
			return
		}
		n := &verifNode{mode: uint32(st.Mode & 07777), mtime: st.Mtim.Sec*1e9 + st.Mtim.Nsec}
		switch st.Mode & unix.S_IFMT {
		case unix.S_IFDIR:
			n.kind = 'd'
		case unix.S_IFREG:
			n.kind = 'f'
			b, err := os.ReadFile(abs)
			if err != nil {
				n.data = "<unreadable: " + err.Error() + ">"
			} else {
				n.data = string(b)
			}
		case unix.S_IFLNK:
			n.kind = 'l'
			n.target, _ = os.Readlink(abs)
		default:
			n.kind = 'o'
		}
		t[rel] = n
		if n.kind != 'd' {
			return
		}
		ents, err := os.ReadDir(abs)
		if err != nil {
			return
		}
		for _, e := range ents {
			r := e.Name()
			if rel != "" {
				r = rel + "/" + e.Name()
			}
			walk(filepath.Join(abs, e.Name()), r)
		}
	}
	walk(base, "")
	return t
}

func verifSortedPaths(t verifTree) []string {
	ps := make([]string, 0, len(t))
	for p := range t {
		ps = append(ps, p)
	}
	sort.Strings(ps)
	return ps
}

func verifUnder(p, prefix string) bool {
	return p == prefix || strings.HasPrefix(p, prefix+"/") || prefix == ""
}

// verifSub returns the subtree below prefix, re-rooted ("" = prefix itself).
func verifSub(t verifTree, prefix string) verifTree {
	out := verifTree{}
	for p, n := range t {
		if !verifUnder(p, prefix) {
			continue
		}
		rel := strings.TrimPrefix(strings.TrimPrefix(p, prefix), "/")
		out[rel] = n
	}
	return out
}

// verifGraft returns a copy of t in which the subtree at prefix is replaced
// by sub (which may be empty = removed).
func verifGraft(t verifTree, prefix string, sub verifTree) verifTree {
	out := verifTree{}
	for p, n := range t {
		if prefix != "" && verifUnder(p, prefix) {
			continue
		}
		out[p] = n
	}
	for p, n := range sub {
		q := prefix
		if p != "" {
			q = prefix + "/" + p
		}
		out[q] = n
	}
	return out
}

type verifDiffEntry struct {
	path string
	what string
}

// verifDiff lists the differences from a to b, sorted by path.
func verifDiff(a, b verifTree, withMtime bool) []verifDiffEntry {
	var out []verifDiffEntry
	for _, p := range verifSortedPaths(a) {
		nb, ok := b[p]
		if !ok {
			out = append(out, verifDiffEntry{p, "removed"})
			continue
		}
		if w := verifSameNode(a[p], nb, withMtime); w != "" {
			out = append(out, verifDiffEntry{p, w})
		}
	}
	for _, p := range verifSortedPaths(b) {
		if _, ok := a[p]; !ok {
			out = append(out, verifDiffEntry{p, fmt.Sprintf("created (%c)", b[p].kind)})
		}
	}
	sort.SliceStable(out, func(i, j int) bool { return out[i].path < out[j].path })
	return out
}

var (
	verifTmpRx    = regexp.MustCompile(`\.snapshot[0-9]+`)
	verifBackupRx = regexp.MustCompile(`\.~[a-zA-Z0-9]{9}~`)
)

// verifSanitize removes the random parts of names snapd makes up, so that
// messages are a function of the tape.
func verifSanitize(s string) string {
	s = verifTmpRx.ReplaceAllString(s, ".snapshot*")
	return verifBackupRx.ReplaceAllString(s, ".~*~")
}

func verifDiffText(d []verifDiffEntry) string {
	var parts []string
	for i, e := range d {
		if i == 4 {
			parts = append(parts, fmt.Sprintf("... (%d more)", len(d)-4))
			break
		}
		parts = append(parts, fmt.Sprintf("%q: %s", verifSanitize(e.path), e.what))
	}
	return strings.Join(parts, "; ")
}

func verifCreateNode(abs string, n *verifNode) error {
	switch n.kind {
	case 'd':
		if err := os.Mkdir(abs, 0700); err != nil {
			return err
		}
		return os.Chmod(abs, verifFileMode(n.mode))
	case 'f':
		if err := os.WriteFile(abs, []byte(n.data), 0600); err != nil {
			return err
		}
		return os.Chmod(abs, verifFileMode(n.mode))
	case 'l':
		return os.Symlink(n.target, abs)
	}
	return fmt.Errorf("cannot create node of kind %c", n.kind)
}

func verifFileMode(m uint32) os.FileMode {
	fm := os.FileMode(m & 0777)
	if m&04000 != 0 {
		fm |= os.ModeSetuid
	}
	if m&02000 != 0 {
		fm |= os.ModeSetgid
	}
	if m&01000 != 0 {
		fm |= os.ModeSticky
	}
	return fm
}

// verifSyncDisk makes the directory base (minus the subtree at skip) equal to
// want. Used to lay out generated data and to roll the scratch root back
// between attempts of one restore.
func verifSyncDisk(base, skip string, want verifTree) error {
	cur := verifReadTree(base, skip)
	skipRel := ""
	if skip != "" {
		if r, err := filepath.Rel(base, skip); err == nil && !strings.HasPrefix(r, "..") {
			skipRel = filepath.ToSlash(r)
		}
	}
	drop := func(prefix string) {
		for p := range cur {
			if p != prefix && verifUnder(p, prefix) && prefix != "" {
				delete(cur, p)
			}
		}
	}
	// remove what should not be there (shallowest first; children go with it)
	for _, p := range verifSortedPaths(cur) {
		if _, still := cur[p]; !still || p == "" {
			continue
		}
		if _, ok := want[p]; ok {
			continue
		}
		if skipRel != "" && verifUnder(skipRel, p) {
			continue // an ancestor of the skipped subtree
		}
		if err := os.RemoveAll(filepath.Join(base, p)); err != nil {
			return err
		}
		drop(p)
		delete(cur, p)
	}
	for _, p := range verifSortedPaths(want) {
		if p == "" {
			continue
		}
		w := want[p]
		abs := filepath.Join(base, p)
		if c, ok := cur[p]; ok {
			if verifSameNode(c, w, false) == "" {
				continue
			}
			if c.kind == 'd' && w.kind == 'd' {
				if err := os.Chmod(abs, verifFileMode(w.mode)); err != nil {
					return err
				}
				continue
			}
			if err := os.RemoveAll(abs); err != nil {
				return err
			}
			drop(p)
		}
		if err := verifCreateNode(abs, w); err != nil {
			return err
		}
	}
	return nil
}

// verifPinTimes gives everything below base a fixed mtime (deepest first) so
// that archives made by the real tar are the same bytes in a run and in its
// replay.
func verifPinTimes(base string) {
	t := verifReadTree(base, "")
	ps := verifSortedPaths(t)
	ts := []unix.Timespec{{Sec: 1600000000}, {Sec: 1600000000}}
	for i := len(ps) - 1; i >= 0; i-- {
		unix.UtimesNanoAt(unix.AT_FDCWD, filepath.Join(base, ps[i]), ts, unix.AT_SYMLINK_NOFOLLOW)
	}
}

// verifBytes is n bytes that are a function of seed; low seeds compress well.
func verifBytes(seed uint64, n int) string {
	b := make([]byte, n)
	s := seed*0x9e3779b97f4a7c15 + 0x1234567
	for i := range b {
		if seed%3 == 0 {
			b[i] = byte('a' + (uint64(i)+seed)%7)
			continue
		}
		s += 0x9e3779b97f4a7c15
		z := s
		z = (z ^ (z >> 30)) * 0xbf58476d1ce4e5b9
		z = (z ^ (z >> 27)) * 0x94d049bb133111eb
		b[i] = byte(z ^ (z >> 31))
	}
	return string(b)
}

// ---------------------------------------------------------------------------
// data archives and snapshot zips made by the simulator

// verifSaved is what one archive of a snapshot holds: the revisioned and
// the common directory (each a tree whose "" node is the directory itself).
type verifSaved struct {
	rev    verifTree // nil = not in the archive
	common verifTree
}

func verifSha3(b []byte) string {
	h := sha3.New384()
	h.Write(b)
	return fmt.Sprintf("%x", h.Sum(nil))
}

// verifTarOfSaved serialises the saved directories as an (uncompressed) GNU
// tar stream, members in sorted order.
func verifTarOfSaved(revName string, sv *verifSaved) []byte {
	var buf bytes.Buffer
	tw := tar.NewWriter(&buf)
	add := func(top string, t verifTree) {
		for _, p := range verifSortedPaths(t) {
			n := t[p]
			name := top
			if p != "" {
				name = top + "/" + p
			}
			h := &tar.Header{Name: name, Mode: int64(n.mode), ModTime: time.Unix(1600000000, 0), Uname: "root", Gname: "root", Format: tar.FormatGNU}
			switch n.kind {
			case 'd':
				h.Typeflag = tar.TypeDir
				h.Name += "/"
			case 'f':
				h.Typeflag = tar.TypeReg
				h.Size = int64(len(n.data))
			case 'l':
				h.Typeflag = tar.TypeSymlink
				h.Linkname = n.target
				h.Mode = 0777
			}
			if err := tw.WriteHeader(h); err != nil {
				verifHarnessFail("tar header: %v", err)
			}
			if n.kind == 'f' {
				tw.Write([]byte(n.data))
			}
		}
	}
	if sv.rev != nil {
		add(revName, sv.rev)
	}
	if sv.common != nil {
		add("common", sv.common)
	}
	tw.Close()
	return buf.Bytes()
}

var verifGzipWriter *gzip.Writer

func verifGzip(b []byte) []byte {
	var buf bytes.Buffer
	if verifGzipWriter == nil {
		verifGzipWriter, _ = gzip.NewWriterLevel(&buf, gzip.BestSpeed)
	} else {
		verifGzipWriter.Reset(&buf)
	}
	verifGzipWriter.Write(b)
	verifGzipWriter.Close()
	return buf.Bytes()
}

// verifMember is one data archive inside a snapshot zip.
type verifMember struct {
	name     string
	payload  []byte
	declSize int64 // -1: the real length
}

// verifZipSpec describes a snapshot file completely.
type verifZipSpec struct {
	members  []verifMember
	meta     client.Snapshot
	metaRaw  []byte // if set, written instead of the encoded meta
	badHash  bool   // write a wrong meta.sha3_384
	noMeta   bool
	noHash   bool
	trailing []byte
}

func (zs *verifZipSpec) clone() *verifZipSpec {
	c := *zs
	c.members = append([]verifMember(nil), zs.members...)
	c.meta.SHA3_384 = map[string]string{}
	for k, v := range zs.meta.SHA3_384 {
		c.meta.SHA3_384[k] = v
	}
	return &c
}

func (zs *verifZipSpec) member(name string) *verifMember {
	for i := range zs.members {
		if zs.members[i].name == name {
			return &zs.members[i]
		}
	}
	return nil
}

// build writes the zip; data archives are stored (as snapd does), metadata
// deflated.
func (zs *verifZipSpec) build() []byte {
	var buf bytes.Buffer
	zw := zip.NewWriter(&buf)
	for _, m := range zs.members {
		fh := &zip.FileHeader{Name: m.name, Method: zip.Store}
		fh.CRC32 = crc32.ChecksumIEEE(m.payload)
		fh.CompressedSize64 = uint64(len(m.payload))
		fh.UncompressedSize64 = uint64(len(m.payload))
		if m.declSize >= 0 {
			fh.UncompressedSize64 = uint64(m.declSize)
		}
		w, err := zw.CreateRaw(fh)
		if err != nil {
			verifHarnessFail("zip: %v", err)
		}
		w.Write(m.payload)
	}
	if !zs.noMeta {
		raw := zs.metaRaw
		if raw == nil {
			var mb bytes.Buffer
			json.NewEncoder(&mb).Encode(&zs.meta)
			raw = mb.Bytes()
		}
		w, _ := zw.Create("meta.json")
		w.Write(raw)
		if !zs.noHash {
			sum := verifSha3(raw)
			if zs.badHash {
				sum = verifSha3(append([]byte("x"), raw...))
			}
			w, _ := zw.Create("meta.sha3_384")
			fmt.Fprintf(w, "%s\n", sum)
		}
	}
	zw.Close()
	buf.Write(zs.trailing)
	return buf.Bytes()
}

// verifParseZip reads a snapshot file written by snapd back into a spec.
func verifParseZip(b []byte) (*verifZipSpec, error) {
	zr, err := zip.NewReader(bytes.NewReader(b), int64(len(b)))
	if err != nil {
		return nil, err
	}
	zs := &verifZipSpec{}
	for _, f := range zr.File {
		rc, err := f.Open()
		if err != nil {
			return nil, err
		}
		data, err := io.ReadAll(rc)
		rc.Close()
		if err != nil {
			return nil, err
		}
		switch f.Name {
		case "meta.json":
			if err := json.Unmarshal(data, &zs.meta); err != nil {
				return nil, err
			}
		case "meta.sha3_384":
		default:
			zs.members = append(zs.members, verifMember{name: f.Name, payload: data, declSize: -1})
		}
	}
	if zs.meta.SHA3_384 == nil {
		return nil, fmt.Errorf("no metadata")
	}
	return zs, nil
}

// verifEntryTruth is the simulator's own reading of one data archive of a
// snapshot file: does what is stored match what the metadata records?
type verifEntryTruth struct {
	present  bool
	mismatch bool // stored bytes differ from the recorded digest or declared size (or are not there)
	why      string
}

// verifTruth inspects the bytes of a snapshot file without any snapd code.
// ok=false: the file cannot be understood at all (no claim is made then).
func verifTruth(b []byte) (truth map[string]*verifEntryTruth, ok bool) {
	zr, err := zip.NewReader(bytes.NewReader(b), int64(len(b)))
	if err != nil {
		return nil, false
	}
	var meta struct {
		Sums map[string]string `json:"sha3-384"`
	}
	files := map[string]*zip.File{}
	for _, f := range zr.File {
		if _, dup := files[f.Name]; !dup {
			files[f.Name] = f
		}
	}
	mf := files["meta.json"]
	if mf == nil {
		return nil, false
	}
	rc, err := mf.Open()
	if err != nil {
		return nil, false
	}
	mb, err := io.ReadAll(rc)
	rc.Close()
	if err != nil || json.Unmarshal(mb, &meta) != nil {
		return nil, false
	}
	truth = map[string]*verifEntryTruth{}
	for entry, want := range meta.Sums {
		tr := &verifEntryTruth{}
		truth[entry] = tr
		f := files[entry]
		if f == nil {
			tr.mismatch, tr.why = true, "archive missing"
			continue
		}
		tr.present = true
		var payload []byte
		if f.Method == zip.Store {
			raw, err := f.OpenRaw()
			if err != nil {
				tr.mismatch, tr.why = true, "unreadable"
				continue
			}
			payload, _ = io.ReadAll(raw)
		} else {
			rc, err := f.Open()
			if err != nil {
				tr.mismatch, tr.why = true, "unreadable"
				continue
			}
			payload, err = io.ReadAll(rc)
			rc.Close()
			if err != nil {
				tr.mismatch, tr.why = true, "damaged compressed data"
				continue
			}
		}
		switch {
		case uint64(len(payload)) != f.UncompressedSize64:
			tr.mismatch, tr.why = true, "recorded size differs from stored size"
		case verifSha3(payload) != want:
			tr.mismatch, tr.why = true, "recorded digest differs from digest of stored bytes"
		}
	}
	return truth, true
}

// ---------------------------------------------------------------------------
// import streams: a raw tar writer that can say things archive/tar refuses to

type verifTarMember struct {
	name     string
	typeflag byte
	body     []byte
	declSize int64 // -1: len(body)
	linkname string
	pax      bool // carry the name in a PAX extended header
	gnuLong  bool // carry the name in a GNU long-name member
}

func verifOctal(dst []byte, v int64) {
	s := fmt.Sprintf("%0*o", len(dst)-1, v)
	if v < 0 || len(s) > len(dst)-1 {
		// base-256 (GNU) encoding, also used for negative values
		for i := len(dst) - 1; i >= 0; i-- {
			dst[i] = byte(v)
			v >>= 8
		}
		dst[0] |= 0x80
		return
	}
	copy(dst, s)
	dst[len(dst)-1] = 0
}

func verifTarBlock(name string, typeflag byte, size int64, linkname string, gnu bool) []byte {
	b := make([]byte, 512)
	prefix := ""
	if len(name) > 100 && !gnu {
		// ustar prefix split where possible
		if i := strings.LastIndex(name[:verifMinInt(len(name), 155)], "/"); i > 0 && len(name)-i-1 <= 100 {
			prefix, name = name[:i], name[i+1:]
		}
	}
	copy(b[0:100], name)
	verifOctal(b[100:108], 0640)
	verifOctal(b[108:116], 0)
	verifOctal(b[116:124], 0)
	verifOctal(b[124:136], size)
	verifOctal(b[136:148], 1600000000)
	b[156] = typeflag
	copy(b[157:257], linkname)
	if gnu {
		copy(b[257:265], "ustar  \x00")
	} else {
		copy(b[257:263], "ustar\x00")
		copy(b[263:265], "00")
	}
	copy(b[265:297], "root")
	copy(b[297:329], "root")
	copy(b[345:500], prefix)
	copy(b[148:156], "        ")
	var sum int64
	for _, c := range b {
		sum += int64(c)
	}
	copy(b[148:156], fmt.Sprintf("%06o\x00 ", sum))
	return b
}

func verifMinInt(a, b int) int {
	if a < b {
		return a
	}
	return b
}

func verifPad(buf *bytes.Buffer, n int) {
	if r := n % 512; r != 0 {
		buf.Write(make([]byte, 512-r))
	}
}

// verifTarStream serialises members; endBlocks is the number of trailing
// zero blocks (2 in a well-formed archive).
func verifTarStream(ms []verifTarMember, endBlocks int) []byte {
	var buf bytes.Buffer
	for _, m := range ms {
		name := m.name
		switch {
		case m.pax:
			rec := " path=" + name + "\n"
			n := len(rec) + 1
			for len(fmt.Sprint(n))+len(rec) != n {
				n = len(fmt.Sprint(n)) + len(rec)
			}
			body := fmt.Sprint(n) + rec
			buf.Write(verifTarBlock("PaxHeaders.0/member", 'x', int64(len(body)), "", false))
			buf.WriteString(body)
			verifPad(&buf, len(body))
			if len(name) > 100 {
				name = name[:100]
			}
		case m.gnuLong:
			body := name + "\x00"
			buf.Write(verifTarBlock("././@LongLink", 'L', int64(len(body)), "", true))
			buf.WriteString(body)
			verifPad(&buf, len(body))
			if len(name) > 100 {
				name = name[:100]
			}
		}
		size := int64(len(m.body))
		if m.declSize >= 0 || m.declSize < -1 {
			size = m.declSize
		}
		buf.Write(verifTarBlock(name, m.typeflag, size, m.linkname, m.gnuLong))
		buf.Write(m.body)
		verifPad(&buf, len(m.body))
	}
	buf.Write(make([]byte, 512*endBlocks))
	return buf.Bytes()
}

// verifParseTar reads a well-formed stream (an export written by snapd)
// into members.
func verifParseTar(b []byte) ([]verifTarMember, error) {
	tr := tar.NewReader(bytes.NewReader(b))
	var ms []verifTarMember
	for {
		h, err := tr.Next()
		if err == io.EOF {
			return ms, nil
		}
		if err != nil {
			return nil, err
		}
		body, err := io.ReadAll(tr)
		if err != nil {
			return nil, err
		}
		ms = append(ms, verifTarMember{name: h.Name, typeflag: h.Typeflag, body: body, declSize: -1, linkname: h.Linkname})
	}
}

// verifFaultReader delivers data in short reads and can fail or end early.
type verifFaultReader struct {
	data   []byte
	pos    int
	chunk  int    // max bytes per Read (0 = unlimited)
	failAt int    // offset at which an error is returned (-1 = never)
	eofAt  int    // offset at which EOF is returned early (-1 = never)
	fired  string // which fault fired
}

type verifInjected struct{ what string }

func (e *verifInjected) Error() string { return "injected: " + e.what }

func (r *verifFaultReader) Read(p []byte) (int, error) {
	limit := len(r.data)
	if r.failAt >= 0 && r.failAt < limit {
		limit = r.failAt
	}
	if r.eofAt >= 0 && r.eofAt < limit {
		limit = r.eofAt
	}
	if r.pos >= limit {
		switch {
		case r.failAt >= 0 && limit == r.failAt && r.failAt < len(r.data):
			r.fired = "stream-error"
			return 0, &verifInjected{"stream read error"}
		case r.eofAt >= 0 && limit == r.eofAt && r.eofAt < len(r.data):
			r.fired = "stream-early-eof"
		}
		return 0, io.EOF
	}
	n := len(p)
	if r.chunk > 0 && n > r.chunk {
		n = r.chunk
	}
	if n > limit-r.pos {
		n = limit - r.pos
	}
	copy(p, r.data[r.pos:r.pos+n])
	r.pos += n
	return n, nil
}
