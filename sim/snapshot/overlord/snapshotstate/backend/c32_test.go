package backend_test

// C32: importing any snapshot archive never creates or modifies files
// outside the snapshots directory; restoring a snapshot whose data does not
// match its recorded size or digest (or that fails part-way) fails and leaves
// the snap's existing data exactly as before, while a successful restore
// reproduces the saved data.
//
// One run = a scratch root (dirs.SetRootDir) with generated snap data, one or
// more snapshot files (written by the real backend.Save or by the simulator),
// and 1-4 operations drawn from the tape: restore (optionally after damaging
// the stored snapshot and after replacing the existing data, with a fault),
// import (a stream built from real exports or by the simulator, then mutated,
// read through a faulty reader), save, restart (abandoned-import cleanup,
// clock step). Every operation is followed by its oracle, which compares
// complete before/after images of the scratch root.

import (
	"bytes"
	"compress/gzip"
	"context"
	"crypto/sha256"
	"encoding/base64"
	"encoding/json"
	"fmt"
	"io"
	"math/rand"
	"os"
	"os/exec"
	"os/user"
	"path"
	"path/filepath"
	"sort"
	"strings"
	"time"

	"github.com/snapcore/snapd/client"
	"github.com/snapcore/snapd/dirs"
	"github.com/snapcore/snapd/internal/verifsim"
	"github.com/snapcore/snapd/overlord/snapshotstate/backend"
	"github.com/snapcore/snapd/randutil"
	"github.com/snapcore/snapd/snap"
)

var verifEngineC32 = &verifsim.Engine{
	Name:   "snapshot",
	Bubble: false,
	Run:    verifRunC32,
	Real: []string{
		"overlord/snapshotstate/backend: Import/unpackVerifySnapshotImport/writeOneSnapshotFile, importTransaction, CleanupAbandonedImports, Open, Reader.Check, Reader.Restore/moveFile, RestoreState.Revert/Cleanup (incl. JSON round trip), Save, NewSnapshotExport/StreamTo, Iter, LastSnapshotSetID",
		"real files under a scratch root (dirs.SetRootDir), real GNU tar subprocesses for Save and Restore, archive/zip, archive/tar, osutil.RunWithContext",
	},
	Stubs: []string{
		"tarAsUser replaced through the package's MockTarAsUser seam: runs plain tar (no runuser/sudo), observes the order in which Restore processes archives, injects 'tar cannot be started' and cancels the context right before a given archive",
		"user lookup (MockUserLookup/MockUsersForUsernames): two fake users with homes inside the scratch root",
		"snapshot.yaml reader (MockReadSnapshotYaml: no exclusions), timeNow (simulated clock)",
		"import streams, damaged snapshot files and the existing data trees are produced by the simulator; the stream reader injects short reads, errors and early EOF",
		"Restore iterates a Go map: the engine draws the archive order from the tape and re-runs the call from a rolled-back scratch root until the real code happens to use that order",
		"not covered: cancellation while tar is running, power loss in the middle of Restore, non-root ownership changes",
	},
}

type verifRetry struct{}

type verifUser struct {
	name string
	home string // absolute
}

type verifSnapDef struct {
	name    string
	rev     snap.Revision
	version string
}

// verifShot is one snapshot file the simulator knows about.
type verifShot struct {
	file  string // absolute
	sum   [32]byte
	id    uint64
	snap  verifSnapDef
	model map[string]*verifSaved // per archive name; nil value = content not known
	spec  *verifZipSpec          // nil = cannot be rebuilt
}

type verifWorld struct {
	c        *verifsim.Ctx
	top      string // everything lives below; all oracles compare images of top
	root     string // dirs.GlobalRootDir
	snapsDir string
	now      time.Time
	snaps    []verifSnapDef
	users    []verifUser
	shots    []*verifShot
	onTar    func(username string, args []string) *exec.Cmd
	onLookup func(name string)
	// faultsOff: this run injects nothing (no damage, no malformed members,
	// no reader or context faults); drawn once per run
	faultsOff bool
}

// fd is Draw for fault decisions: 0 (no fault) when faults are off.
func (w *verifWorld) fd(label string, n int) int {
	if w.faultsOff {
		return 0
	}
	return w.c.Draw(label, n)
}

func verifHarnessFail(format string, args ...interface{}) {
	panic(verifsim.HarnessError{Msg: fmt.Sprintf(format, args...)})
}

func (w *verifWorld) fault(kind string) {
	w.c.Count("fault:" + kind)
	w.c.Nontrivial()
}

func (w *verifWorld) rel(abs string) string {
	r, err := filepath.Rel(w.top, abs)
	if err != nil {
		verifHarnessFail("rel: %v", err)
	}
	return filepath.ToSlash(r)
}

func (w *verifWorld) image() verifTree { return verifReadTree(w.top, w.snapsDir) }

func verifRunC32(c *verifsim.Ctx) {
	randutil.RandomDuration(1)
	rand.Seed(int64(c.Draw("rand-seed", 1000)) + 1)

	top, err := os.MkdirTemp("", "verif-c32-")
	if err != nil {
		c.Fatalf("mkdtemp: %v", err)
	}
	defer os.RemoveAll(top)
	w := &verifWorld{c: c, top: top, root: filepath.Join(top, "x", "y"), now: time.Unix(1700000000, 0).UTC()}
	if err := os.MkdirAll(w.root, 0755); err != nil {
		c.Fatalf("%v", err)
	}
	dirs.SetRootDir(w.root)
	defer dirs.SetRootDir("")
	w.snapsDir = dirs.SnapshotsDir

	restores := []func(){
		backend.MockIsTesting(false),
		backend.MockTimeNow(func() time.Time { return w.now }),
		backend.MockReadSnapshotYaml(func(*snap.Info) (*snap.SnapshotOptions, error) { return &snap.SnapshotOptions{}, nil }),
		backend.MockUserLookup(w.lookup),
		backend.MockUsersForUsernames(func(names []string, _ *dirs.SnapDirOptions) ([]*user.User, error) {
			var us []*user.User
			for _, n := range names {
				u, err := w.lookup(n)
				if err != nil {
					return nil, err
				}
				us = append(us, u)
			}
			return us, nil
		}),
		backend.MockTarAsUser(func(username string, args ...string) *exec.Cmd {
			c.Count("tar-invocations")
			if w.onTar != nil {
				return w.onTar(username, args)
			}
			return exec.Command("tar", args...)
		}),
	}
	defer func() {
		for _, r := range restores {
			r()
		}
	}()

	w.faultsOff = c.Draw("faults", 4) == 0
	w.setup()
	nops := 1 + c.Draw("nops", 4)
	for i := 0; i < nops && len(c.Violations) == 0; i++ {
		switch op := c.Draw("op", 8); {
		case op <= 2:
			w.opRestore()
		case op <= 5:
			w.opImport()
		case op == 6:
			w.opSave()
		default:
			w.opRestart()
		}
	}
	c.SimTime = w.now.Sub(time.Unix(1700000000, 0))
	if c.SimTime < 0 {
		c.SimTime = 0
	}
}

func (w *verifWorld) lookup(name string) (*user.User, error) {
	if w.onLookup != nil {
		w.onLookup(name)
	}
	for _, u := range w.users {
		if u.name == name {
			return &user.User{Uid: "0", Gid: "0", Username: u.name, Name: u.name, HomeDir: u.home}, nil
		}
	}
	return nil, user.UnknownUserError(name)
}

// ---------------------------------------------------------------------------
// generated data

var (
	verifNames     = []string{"a", "b.txt", ".hidden", "with space", "d", "common", "café", "-dash", strings.Repeat("long", 30), "x~"}
	verifFileModes = []uint32{0644, 0600, 0755, 0400, 0666, 0, 04755}
	verifDirModes  = []uint32{0755, 0700, 0750, 01777}
	verifLinks     = []string{"a", "../common", "/etc/passwd", "nowhere", "../../../../../etc"}
)

func (w *verifWorld) genDir(label string, depth int) verifTree {
	c := w.c
	t := verifTree{"": &verifNode{kind: 'd', mode: verifDirModes[c.Draw(label+"-dmode", len(verifDirModes))]}}
	n := c.Draw(label+"-n", 4)
	for i := 0; i < n; i++ {
		name := verifNames[c.Draw(label+"-name", len(verifNames))]
		if _, dup := t[name]; dup {
			continue
		}
		switch k := c.Draw(label+"-kind", 7); {
		case k <= 2:
			size := c.Draw(label+"-size", 200)
			if k == 2 {
				size = 1000 + c.Draw(label+"-size2", 3000)
			}
			t[name] = &verifNode{kind: 'f', mode: verifFileModes[c.Draw(label+"-fmode", len(verifFileModes))],
				data: verifBytes(uint64(c.Draw(label+"-seed", 50)), size)}
		case k == 3 || k == 4:
			if depth >= 2 {
				t[name] = &verifNode{kind: 'd', mode: 0755}
				continue
			}
			for p, nn := range w.genDir(label+"-sub", depth+1) {
				q := name
				if p != "" {
					q = name + "/" + p
				}
				t[q] = nn
			}
		case k == 5:
			t[name] = &verifNode{kind: 'l', mode: 0777, target: verifLinks[c.Draw(label+"-link", len(verifLinks))]}
		default:
			// big, incompressible: crosses io.Copy and pipe buffer sizes
			t[name] = &verifNode{kind: 'f', mode: 0644, data: verifBytes(uint64(1+3*c.Draw(label+"-bigseed", 20)), 30000+c.Draw(label+"-bigsize", 60000))}
		}
	}
	return t
}

// genParent generates a snap's data directory (the parent of the revisioned
// and common directories); forSave keeps the two directories plain.
func (w *verifWorld) genParent(label string, sn verifSnapDef, forSave bool) verifTree {
	c := w.c
	t := verifTree{}
	switch c.Draw(label+"-shape", 8) {
	case 6:
		return t // no data directory at all
	case 7:
		if !forSave {
			t[""] = &verifNode{kind: 'f', mode: 0644, data: "a file where the data directory should be\n"}
			return t
		}
	}
	t[""] = &verifNode{kind: 'd', mode: 0755}
	for _, top := range []string{sn.rev.String(), "common", "7", "2"} {
		k := c.Draw(label+"-"+top, 6)
		if (top == "7" || top == "2") && k < 3 {
			k = 2 // other revisions are mostly absent
		}
		switch k {
		case 0, 1:
			for p, n := range w.genDir(label+"-"+top, 0) {
				q := top
				if p != "" {
					q = top + "/" + p
				}
				t[q] = n
			}
		case 2:
		case 3:
			t[top] = &verifNode{kind: 'd', mode: 0755}
		case 4:
			t[top] = &verifNode{kind: 'f', mode: 0600, data: "a file named like a data directory\n"}
		case 5:
			if forSave {
				t[top] = &verifNode{kind: 'd', mode: 0700}
			} else {
				t[top] = &verifNode{kind: 'l', mode: 0777, target: []string{"2", "../elsewhere", "/nonexistent"}[c.Draw(label+"-toplink", 3)]}
			}
		}
	}
	if c.Draw(label+"-stray", 4) == 3 {
		t["stray.txt"] = &verifNode{kind: 'f', mode: 0644, data: "not part of any snapshot\n"}
	}
	return t
}

// layData replaces all snap data below the scratch root by freshly generated
// trees (system data of every snap, every user's home).
func (w *verifWorld) layData(forSave bool) {
	c := w.c
	want := w.image()
	rootRel := w.rel(w.root)
	for _, sub := range []string{"var/snap", "home"} {
		want = verifGraft(want, rootRel+"/"+sub, verifTree{})
	}
	want[rootRel+"/var"] = &verifNode{kind: 'd', mode: 0755}
	if forSave || c.Draw("var-snap", 6) != 5 {
		want[rootRel+"/var/snap"] = &verifNode{kind: 'd', mode: 0755}
		for _, sn := range w.snaps {
			want = verifGraft(want, rootRel+"/var/snap/"+sn.name, w.genParent("sys-"+sn.name, sn, forSave))
		}
	}
	want[rootRel+"/home"] = &verifNode{kind: 'd', mode: 0755}
	for _, u := range w.users {
		hrel := w.rel(u.home)
		hk := c.Draw("home-"+u.name, 8)
		switch {
		case hk == 6 && !forSave:
			continue // no home
		case hk == 7 && !forSave:
			want[hrel] = &verifNode{kind: 'f', mode: 0644, data: "home is a file\n"}
			continue
		}
		want[hrel] = &verifNode{kind: 'd', mode: 0755}
		want[hrel+"/.profile"] = &verifNode{kind: 'f', mode: 0644, data: "# " + u.name + "\n"}
		if hk == 5 && !forSave {
			continue // no ~/snap
		}
		want[hrel+"/snap"] = &verifNode{kind: 'd', mode: 0755}
		for _, sn := range w.snaps {
			want = verifGraft(want, hrel+"/snap/"+sn.name, w.genParent("usr-"+u.name+"-"+sn.name, sn, forSave))
		}
	}
	if err := verifSyncDisk(w.top, w.snapsDir, want); err != nil {
		verifHarnessFail("cannot lay out data: %v", err)
	}
}

func (w *verifWorld) setup() {
	c := w.c
	for p, content := range map[string]string{
		"etc/passwd":               "root:x:0:0::/root:/bin/sh\n",
		"var/lib/snapd/state.json": `{"data":{}}` + "\n",
		"var/lib/snapd/system-key": "{}\n",
	} {
		abs := filepath.Join(w.root, p)
		os.MkdirAll(filepath.Dir(abs), 0755)
		if err := os.WriteFile(abs, []byte(content), 0644); err != nil {
			verifHarnessFail("%v", err)
		}
	}
	os.WriteFile(filepath.Join(w.top, "outside-root.txt"), []byte("outside the root directory\n"), 0644)
	os.WriteFile(filepath.Join(w.top, "x", "above-root.txt"), []byte("one above the root directory\n"), 0644)

	w.snaps = []verifSnapDef{{"alpha", snap.R(3), "1.0"}}
	if c.Draw("two-snaps", 3) == 2 {
		w.snaps = append(w.snaps, verifSnapDef{"beta", snap.R(-2), "2.1+git"})
	}
	nu := c.Draw("nusers", 4)
	if nu == 3 {
		nu = 2
	}
	for i := 0; i < nu; i++ {
		name := []string{"ann", "bob"}[i]
		w.users = append(w.users, verifUser{name, filepath.Join(w.root, "home", name)})
	}
	c.Logf("world snaps=%d users=%d", len(w.snaps), len(w.users))
	w.layData(true)
	w.opSave()
}

// ---------------------------------------------------------------------------
// snapshots

func (w *verifWorld) nextID() uint64 {
	id, err := backend.LastSnapshotSetID()
	if err != nil {
		verifHarnessFail("LastSnapshotSetID: %v", err)
	}
	return id + 1
}

func (w *verifWorld) register(file string, id uint64, sn verifSnapDef, model map[string]*verifSaved, spec *verifZipSpec) *verifShot {
	b, err := os.ReadFile(file)
	if err != nil {
		verifHarnessFail("register: %v", err)
	}
	for i, s := range w.shots {
		if s.file == file {
			w.shots = append(w.shots[:i], w.shots[i+1:]...)
			break
		}
	}
	sh := &verifShot{file: file, sum: sha256.Sum256(b), id: id, snap: sn, model: model, spec: spec}
	w.shots = append(w.shots, sh)
	return sh
}

// refresh drops records of files that are gone and forgets what is known
// about files somebody else rewrote (an import reusing the set id).
func (w *verifWorld) refresh() {
	var keep []*verifShot
	for _, s := range w.shots {
		b, err := os.ReadFile(s.file)
		if err != nil {
			continue
		}
		if sha256.Sum256(b) != s.sum {
			s.sum = sha256.Sum256(b)
			s.spec = nil
			s.model = map[string]*verifSaved{}
		}
		keep = append(keep, s)
	}
	w.shots = keep
}

func (w *verifWorld) opSave() {
	c := w.c
	sn := w.snaps[c.Draw("save-snap", len(w.snaps))]
	id := w.nextID()
	if len(w.shots) > 0 && c.Draw("same-set", 4) == 3 {
		id = w.shots[len(w.shots)-1].id
	}
	var usernames []string
	for _, u := range w.users {
		if c.Draw("save-user-"+u.name, 3) != 2 {
			usernames = append(usernames, u.name)
		}
	}
	if c.Draw("save-real", 16) == 15 {
		w.saveReal(sn, id, usernames)
	} else {
		w.saveCrafted(sn, id, usernames)
	}
}

func (w *verifWorld) parentOf(sn verifSnapDef, entry string) string {
	if entry == "archive.tgz" {
		return filepath.Join(dirs.SnapDataDir, sn.name)
	}
	name := strings.TrimSuffix(strings.TrimPrefix(entry, "user/"), ".tgz")
	for _, u := range w.users {
		if u.name == name {
			return filepath.Join(u.home, "snap", sn.name)
		}
	}
	return ""
}

// saveReal runs backend.Save (real tar) over freshly generated data.
func (w *verifWorld) saveReal(sn verifSnapDef, id uint64, usernames []string) {
	c := w.c
	w.layData(true)
	verifPinTimes(filepath.Join(w.root, "var/snap"))
	verifPinTimes(filepath.Join(w.root, "home"))
	img := w.image()
	info := &snap.Info{SideInfo: snap.SideInfo{RealName: sn.name, Revision: sn.rev, SnapID: sn.name + "-id"}, Version: sn.version}
	sh, err := backend.Save(context.Background(), id, info, map[string]interface{}{"key": "value"}, usernames, nil, nil)
	c.Count("save-real")
	if err != nil {
		c.Logf("save real snap=%s id=%d users=%v: failed", sn.name, id, usernames)
		c.Count("save-real-failed")
		return
	}
	file := backend.Filename(sh)
	b, err := os.ReadFile(file)
	if err != nil {
		verifHarnessFail("saved snapshot unreadable: %v", err)
	}
	spec, err := verifParseZip(b)
	if err != nil {
		verifHarnessFail("saved snapshot does not parse: %v", err)
	}
	model := map[string]*verifSaved{}
	for entry := range sh.SHA3_384 {
		parent := w.parentOf(sn, entry)
		if parent == "" {
			continue
		}
		sv := &verifSaved{}
		prel := w.rel(parent)
		if n := img[prel+"/"+sn.rev.String()]; n != nil && n.kind == 'd' {
			sv.rev = verifSub(img, prel+"/"+sn.rev.String())
		}
		if n := img[prel+"/common"]; n != nil && n.kind == 'd' {
			sv.common = verifSub(img, prel+"/common")
		}
		model[entry] = sv
	}
	w.register(file, id, sn, model, spec)
	keys := make([]string, 0, len(model))
	for k := range model {
		keys = append(keys, k)
	}
	sort.Strings(keys)
	c.Logf("save real snap=%s id=%d users=%v archives=%v", sn.name, id, usernames, keys)
}

func (w *verifWorld) genSaved(label string) *verifSaved {
	c := w.c
	sv := &verifSaved{}
	k := c.Draw(label+"-dirs", 4) // 0,1: both; 2: revision only; 3: common only
	if k != 3 {
		sv.rev = w.genDir(label+"-rev", 0)
	}
	if k != 2 {
		sv.common = w.genDir(label+"-common", 0)
	}
	return sv
}

// saveCrafted writes a well-formed snapshot file without snapd's writer and
// without tar.
func (w *verifWorld) saveCrafted(sn verifSnapDef, id uint64, usernames []string) {
	c := w.c
	spec := &verifZipSpec{}
	model := map[string]*verifSaved{}
	entries := []string{}
	if len(usernames) == 0 || c.Draw("craft-root", 4) != 3 {
		entries = append(entries, "archive.tgz")
	}
	for _, u := range usernames {
		entries = append(entries, "user/"+u+".tgz")
	}
	spec.meta = client.Snapshot{SetID: id, Time: w.now, Snap: sn.name, Revision: sn.rev, SnapID: sn.name + "-id", Version: sn.version,
		Summary: "crafted", SHA3_384: map[string]string{}}
	for _, e := range entries {
		sv := w.genSaved("craft-" + e)
		payload := verifGzip(verifTarOfSaved(sn.rev.String(), sv))
		spec.members = append(spec.members, verifMember{name: e, payload: payload, declSize: -1})
		spec.meta.SHA3_384[e] = verifSha3(payload)
		spec.meta.Size += int64(len(payload))
		model[e] = sv
	}
	if c.Draw("craft-extra", 8) == 7 {
		// an archive name Restore does not know about
		payload := []byte("not an archive")
		spec.members = append(spec.members, verifMember{name: "extra.tgz", payload: payload, declSize: -1})
		spec.meta.SHA3_384["extra.tgz"] = verifSha3(payload)
	}
	os.MkdirAll(w.snapsDir, 0700)
	file := backend.Filename(&spec.meta)
	if err := os.WriteFile(file, spec.build(), 0600); err != nil {
		verifHarnessFail("%v", err)
	}
	w.register(file, id, sn, model, spec)
	c.Count("save-crafted")
	c.Logf("save crafted snap=%s id=%d archives=%v", sn.name, id, entries)
}

func verifGunzip(b []byte) ([]byte, error) {
	zr, err := gzip.NewReader(bytes.NewReader(b))
	if err != nil {
		return nil, err
	}
	return io.ReadAll(zr)
}

func verifScaled(c *verifsim.Ctx, label string, n int) int {
	if n <= 0 {
		return 0
	}
	return c.Draw(label, 1000) * n / 1000
}

// corrupt rewrites the stored snapshot file in one of several ways; returns
// a label ("" = left alone).
func (w *verifWorld) corrupt(sh *verifShot) string {
	c := w.c
	kind := w.fd("corrupt", 17) - 5
	if kind <= 0 {
		return ""
	}
	if sh.spec == nil || len(sh.spec.members) == 0 {
		kind = 1
	}
	if kind == 1 {
		// flip one byte of the file in place (archive payload, metadata or
		// zip structure, wherever it lands)
		b, err := os.ReadFile(sh.file)
		if err != nil || len(b) == 0 {
			return ""
		}
		off := verifScaled(c, "flip-at", len(b))
		b[off] ^= byte(1 << uint(c.Draw("flip-bit", 8)))
		os.WriteFile(sh.file, b, 0600)
		sh.sum = sha256.Sum256(b)
		sh.spec = nil
		w.fault("file-byte-flipped")
		return "file-byte-flipped"
	}
	spec := sh.spec.clone()
	mi := c.Draw("corrupt-member", len(spec.members))
	m := &spec.members[mi]
	label := ""
	switch kind {
	case 2, 3:
		label = "archive-byte-flipped"
		p := append([]byte(nil), m.payload...)
		if len(p) > 0 {
			p[verifScaled(c, "flip-at", len(p))] ^= byte(1 << uint(c.Draw("flip-bit", 8)))
		}
		m.payload = p
	case 4, 5:
		label = "archive-swapped"
		other := w.genSaved("swap")
		m.payload = verifGzip(verifTarOfSaved(sh.snap.rev.String(), other))
	case 6:
		label = "recorded-digest-wrong"
		d := []byte(spec.meta.SHA3_384[m.name])
		if len(d) > 0 {
			i := verifScaled(c, "digest-at", len(d))
			if d[i] == '0' {
				d[i] = '1'
			} else {
				d[i] = '0'
			}
		}
		spec.meta.SHA3_384[m.name] = string(d)
	case 7:
		label = "recorded-size-wrong"
		m.declSize = int64(len(m.payload)) + []int64{1, -1, 512, -int64(len(m.payload))}[c.Draw("size-delta", 4)]
		if m.declSize < 0 {
			m.declSize = 0
		}
	case 8:
		label = "archive-truncated"
		m.payload = append([]byte(nil), m.payload[:verifScaled(c, "cut-at", len(m.payload))]...)
	case 9, 10:
		// damaged tar stream under a matching digest: tar fails part-way
		label = "tar-damaged-digest-matching"
		raw, err := verifGunzip(m.payload)
		if err != nil || len(raw) < 1024 {
			return ""
		}
		switch c.Draw("tar-damage", 3) {
		case 0:
			raw = raw[:verifScaled(c, "cut-at", len(raw))]
		case 1:
			// wreck the header of the member at a 512-byte boundary
			blk := verifScaled(c, "blk", len(raw)/512)
			for i := 148; i < 156; i++ {
				raw[blk*512+i] = 'z'
			}
		default:
			raw[verifScaled(c, "flip-at", len(raw))] ^= 0x40
		}
		m.payload = verifGzip(raw)
		spec.meta.SHA3_384[m.name] = verifSha3(m.payload)
		if sh.model != nil {
			sh.model[m.name] = nil // what such an archive "holds" is up to tar
		}
	default:
		label = "archive-missing"
		spec.members = append(spec.members[:mi], spec.members[mi+1:]...)
	}
	b := spec.build()
	if err := os.WriteFile(sh.file, b, 0600); err != nil {
		verifHarnessFail("%v", err)
	}
	sh.sum = sha256.Sum256(b)
	sh.spec = spec
	w.fault(label)
	return label
}

// ---------------------------------------------------------------------------
// restore

type verifRestoreEntry struct {
	entry     string
	username  string
	parentRel string
}

func (w *verifWorld) dataParents(snapName string) []string {
	ps := []string{w.rel(filepath.Join(dirs.SnapDataDir, snapName))}
	for _, u := range w.users {
		ps = append(ps, w.rel(filepath.Join(u.home, "snap", snapName)))
	}
	return ps
}

// splitDiff sorts differences into: inside the given subtrees, inside the
// snap's data directories, elsewhere. New empty directories that are proper
// ancestors of a data directory are not counted (Restore has to create the
// way down to the data directory; they are nobody's data).
func verifSplitDiff(d []verifDiffEntry, inner []string, parents []string) (in, data, outside []verifDiffEntry) {
next:
	for _, e := range d {
		for _, p := range inner {
			if verifUnder(e.path, p) {
				in = append(in, e)
				continue next
			}
		}
		for _, p := range parents {
			if verifUnder(e.path, p) {
				data = append(data, e)
				continue next
			}
		}
		if e.what == "created (d)" {
			for _, p := range parents {
				if strings.HasPrefix(p, e.path+"/") {
					continue next
				}
			}
		}
		outside = append(outside, e)
	}
	return in, data, outside
}

func (w *verifWorld) opRestore() {
	c := w.c
	w.refresh()
	if len(w.shots) == 0 {
		c.Logf("restore: no snapshot files left")
		return
	}
	sh := w.shots[c.Draw("shot", len(w.shots))]
	damage := w.corrupt(sh)
	if c.Draw("replace-data", 3) != 0 {
		w.layData(false)
	}

	fileBytes, err := os.ReadFile(sh.file)
	if err != nil {
		verifHarnessFail("%v", err)
	}
	truth, truthOK := verifTruth(fileBytes)

	r, err := backend.Open(sh.file, backend.ExtractFnameSetID)
	if err != nil {
		c.Count("probe:open-refused")
		c.Logf("restore %s damage=%q: cannot be opened", filepath.Base(sh.file), damage)
		return
	}
	defer r.Close()

	var usernames []string
	switch c.Draw("usernames", 4) {
	case 1:
		if len(w.users) > 0 {
			usernames = []string{w.users[0].name}
		}
	case 2:
		usernames = []string{"ghost"}
	case 3:
		usernames = []string{"ghost"}
		for _, u := range w.users {
			usernames = append(usernames, u.name)
		}
	}
	current := snap.Revision{}
	switch c.Draw("current", 3) {
	case 1:
		current = r.Revision
	case 2:
		current = snap.R(7)
		c.Count("probe:current-revision-differs")
	}
	revName := r.Revision.String()
	curName := revName
	if !current.Unset() {
		curName = current.String()
	}

	before := w.image()
	parents := w.dataParents(r.Snap)

	// which archives is this restore asked to restore, as far as the statement
	// is concerned: the system archive, and the archives of the requested
	// users that exist and have a home directory
	var entries []verifRestoreEntry
	var keys []string
	for k := range r.SHA3_384 {
		keys = append(keys, k)
	}
	sort.Strings(keys)
	wanted := func(name string) bool {
		if len(usernames) == 0 {
			return true
		}
		for _, u := range usernames {
			if u == name {
				return true
			}
		}
		return false
	}
	for _, k := range keys {
		switch {
		case k == "archive.tgz":
			entries = append(entries, verifRestoreEntry{k, "root", w.rel(filepath.Join(dirs.SnapDataDir, r.Snap))})
		case strings.HasPrefix(k, "user/") && strings.HasSuffix(k, ".tgz"):
			name := strings.TrimSuffix(strings.TrimPrefix(k, "user/"), ".tgz")
			if !wanted(name) {
				continue
			}
			for _, u := range w.users {
				if u.name != name {
					continue
				}
				if n := before[w.rel(u.home)]; n != nil && n.kind == 'd' {
					entries = append(entries, verifRestoreEntry{k, name, w.rel(filepath.Join(u.home, "snap", r.Snap))})
				}
			}
		}
	}
	mismatch := ""
	if truthOK {
		for _, e := range entries {
			if t := truth[e.entry]; t != nil && t.mismatch {
				mismatch = e.entry + ": " + t.why
				break
			}
		}
	}

	// the check-snapshot task that precedes restore-snapshot in snapd
	mode := c.Draw("mode", 5) - 2
	if mode == 2 && w.fd("check-cancelled", 2) == 1 {
		mode = 3
	} // <2: restore directly; 2: check first; 3: check with a context cancelled on the way
	if mode >= 2 {
		cc := &verifCountCtx{Context: context.Background()}
		cc.Context, cc.cancel = context.WithCancel(context.Background())
		if mode == 3 {
			cc.cancelAtDone = 1 + c.Draw("check-cancel-at", 6)
		}
		err := r.Check(cc, append([]string(nil), usernames...))
		cc.cancel()
		if cc.fired {
			w.fault("check-cancelled")
		}
		checkMismatch := ""
		if truthOK {
			for _, k := range keys {
				if strings.HasPrefix(k, "user/") && strings.HasSuffix(k, ".tgz") && len(usernames) > 0 &&
					!wanted(strings.TrimSuffix(strings.TrimPrefix(k, "user/"), ".tgz")) {
					continue
				}
				if t := truth[k]; t != nil && t.mismatch {
					checkMismatch = k + ": " + t.why
					break
				}
			}
		}
		c.Logf("check %s damage=%q users=%v: failed=%v", filepath.Base(sh.file), damage, usernames, err != nil)
		if err == nil && checkMismatch != "" {
			c.Violate("C32/check-accepted-mismatch", "Check passed a snapshot whose stored data does not match what it records (%s; damage %q)", checkMismatch, damage)
		}
		if err != nil {
			c.Count("probe:check-failed")
			if d := verifDiff(before, w.image(), false); len(d) > 0 {
				c.Violate("C32/restore-failed-data-changed", "a failed Check changed files: %s", verifDiffText(d))
			}
			return
		}
	}

	// fault plan of the restore itself
	fault := w.fd("restore-fault", 6) // 0,1,2: none
	faultAt := 0
	if fault >= 4 && len(entries) > 0 {
		faultAt = c.Draw("fault-at", len(entries))
	}
	// Restore walks a Go map. The order in which it takes the archives it
	// has to deal with (the system archive and those of the requested users)
	// is drawn from the tape; the call is observed through the seams it
	// passes (context checks, user lookup, log function, tar) and abandoned
	// and repeated from a rolled-back scratch root whenever the real order
	// deviates. Archives of users that were not asked for and archives with
	// unknown names have no effect and cannot fail, so their place is free.
	var active []string
	for _, k := range keys {
		switch {
		case k == "archive.tgz":
			active = append(active, "root")
		case strings.HasPrefix(k, "user/") && strings.HasSuffix(k, ".tgz"):
			if name := strings.TrimSuffix(strings.TrimPrefix(k, "user/"), ".tgz"); wanted(name) {
				active = append(active, name)
			}
		}
	}
	// (A small Go map is walked from a random slot on, wrapping around, and
	// the metadata decoder filled it in sorted key order: only rotations of
	// the sorted list can occur, so a rotation is what is drawn.)
	order := make([]string, len(active))
	rot := c.Draw("archive-order", len(active))
	for i := range active {
		order[i] = active[(i+rot)%len(active)]
	}
	orderDrawn := append([]string(nil), order...)
	isActive := func(name string) bool {
		for _, o := range order {
			if o == name {
				return true
			}
		}
		return false
	}
	if len(entries) >= 2 {
		c.Count("probe:restore-several-archives")
	}

	var rs *backend.RestoreState
	var rerr error
	var tarCalls int
	fired := ""
	attempts := 0
	for {
		attempts++
		if attempts == 200 {
			// never seen; should the runtime walk maps differently one day,
			// take the order as it comes (the verdicts on a correct snapd do
			// not depend on it) and say so in the evidence
			c.Count("restore-order-not-forced")
			order = nil
		}
		base, cancel := context.WithCancel(context.Background())
		if fault == 3 {
			cancel()
			fired = "context-already-cancelled"
		}
		tarCalls = 0
		pos := 0           // next archive of order expected to start
		afterTar := false  // the next context check is RunWithContext's
		iterOpen := false  // a loop iteration has started ...
		iterEvent := false // ... and has identified itself
		iterCancelled := false
		expect := func(name string) {
			if !isActive(name) {
				return
			}
			if pos < len(order) && order[pos] == name {
				pos++
				return
			}
			panic(verifRetry{})
		}
		ctx := &verifRestoreCtx{Context: base, onErr: func(e error) {
			if afterTar {
				afterTar = false
				return
			}
			iterOpen, iterEvent, iterCancelled = true, false, e != nil
		}}
		w.onLookup = func(name string) {
			iterEvent = true
			expect(name)
		}
		w.onTar = func(username string, args []string) *exec.Cmd {
			idx := tarCalls
			tarCalls++
			iterEvent = true
			afterTar = true
			if username == "root" {
				expect("root")
			}
			if idx == faultAt && fault == 4 {
				cancel()
				fired = "context-cancelled-before-archive"
			}
			if idx == faultAt && fault == 5 {
				fired = "tar-cannot-start"
				return exec.Command(filepath.Join(w.top, "no-such-dir", "tar"), args...)
			}
			return exec.Command("tar", args...)
		}
		logf := func(format string, args ...interface{}) {
			if strings.Contains(format, "unknown entry") {
				iterEvent = true
			}
		}
		retry := false
		func() {
			defer func() {
				if p := recover(); p != nil {
					if _, ok := p.(verifRetry); ok {
						retry = true
						return
					}
					panic(p)
				}
			}()
			rs, rerr = r.Restore(ctx, current, append([]string(nil), usernames...), logf, nil)
		}()
		w.onTar, w.onLookup = nil, nil
		cancel()
		if !retry && rerr != nil && iterOpen && !iterEvent && !iterCancelled {
			// the archive that failed never identified itself: only the
			// system archive can do that (its data directory is unusable or
			// it is not in the file)
			if pos >= len(order) || order[pos] != "root" {
				retry = isActive("root")
			}
		}
		if !retry {
			break
		}
		c.Count("restore-order-retries")
		if err := verifSyncDisk(w.top, w.snapsDir, before); err != nil {
			verifHarnessFail("cannot roll back the scratch root: %v", err)
		}
	}
	if fired != "" {
		w.fault(fired)
	}
	if damage != "" {
		c.Count("restores-of-damaged-snapshot")
	}
	c.Logf("restore %s damage=%q users=%v current=%q archives=%d order=%v fault=%q: failed=%v", filepath.Base(sh.file), damage, usernames,
		current.String(), len(entries), orderDrawn, fired, rerr != nil)

	after := w.image()
	if rerr != nil {
		c.Count("probe:restore-failed")
		if tarCalls >= 2 {
			c.Count("probe:restore-failed-after-an-archive-was-moved-in")
		}
		if damage == "tar-damaged-digest-matching" && mismatch == "" && fired == "" && tarCalls > 0 {
			c.Count("probe:tar-failed-part-way-under-matching-digest")
		}
		// why, as a counter only (tar's and gzip's complaints race for the
		// first line of stderr, so the text stays out of the event log)
		why := "other"
		for _, k := range []string{"context canceled", "cannot unpack archive", "tar failed", "expected size", "expected hash", "not a directory", "missing archive member", "no such file or directory", "zip: "} {
			if strings.Contains(rerr.Error(), k) {
				why = strings.TrimSuffix(strings.ReplaceAll(k, " ", "-"), ":-")
				break
			}
		}
		c.Count("restore-error:" + why)
		if damage == "" && mismatch == "" && fired == "" {
			c.Count("note:undamaged-restore-failed:" + why)
			// nothing wrong with the snapshot and no fault: the existing data
			// stood in the way, or (see NOTES.md) the snapshot holds no
			// revisioned directory while a different current revision was given
			c.Count("note:undamaged-restore-failed")
		}
		for _, e := range verifDiff(before, after, false) {
			if e.what != "created (d)" {
				continue
			}
			for _, p := range parents {
				if strings.HasPrefix(p, e.path+"/") {
					// tolerated (see verifSplitDiff), but worth knowing
					c.Count("note:failed-restore-left-a-new-empty-directory-above-the-data-directory")
					break
				}
			}
		}
		_, data, outside := verifSplitDiff(verifDiff(before, after, false), nil, parents)
		if len(data) > 0 {
			c.Violate("C32/restore-failed-data-changed", "Restore failed (damage %q, fault %q) but the snap's data is not what it was: %s", damage, fired, verifDiffText(data))
		}
		if len(outside) > 0 {
			c.Violate("C32/restore-outside", "failed Restore changed files outside the snap's data directories: %s", verifDiffText(outside))
		}
		return
	}

	c.Count("probe:restore-succeeded")
	if mismatch != "" {
		c.Violate("C32/restore-accepted-mismatch", "Restore succeeded on a snapshot whose stored data does not match what it records (%s; damage %q)", mismatch, damage)
		return
	}
	if rs == nil {
		c.Violate("C32/restore-wrong-data", "Restore returned neither an error nor a restore state")
		return
	}

	// what the data directories have to look like now
	expect := verifTree{}
	for p, n := range before {
		expect[p] = n
	}
	var restoredDirs []string
	for _, e := range entries {
		var sv *verifSaved
		known := false
		if sh.model != nil {
			sv, known = sh.model[e.entry]
			known = known && sv != nil
		}
		// directories leading to the data directory may be new
		for p := e.parentRel; p != "." && p != ""; p = filepath.ToSlash(filepath.Dir(p)) {
			if expect[p] == nil && after[p] != nil && after[p].kind == 'd' {
				expect[p] = after[p]
				if p == e.parentRel {
					c.Count("probe:data-directory-created")
				}
			}
		}
		for _, d := range []struct {
			dir  string
			tree func() verifTree
		}{
			{"common", func() verifTree { return sv.common }},
			{curName, func() verifTree { return sv.rev }},
		} {
			rel := e.parentRel + "/" + d.dir
			restoredDirs = append(restoredDirs, rel)
			if !known {
				c.Count("restored-archive-of-unknown-content")
				expect = verifGraft(expect, rel, verifSub(after, rel))
				continue
			}
			if t := d.tree(); t != nil {
				expect = verifGraft(expect, rel, t)
			}
		}
	}
	// right after Restore: restored directories in place (backups of the old
	// ones still lie next to them)
	in, _, _ := verifSplitDiff(verifDiff(expect, after, false), restoredDirs, parents)
	if len(in) > 0 {
		c.Violate("C32/restore-wrong-data", "Restore succeeded but the data is not the saved data: %s", verifDiffText(in))
		return
	}

	// what snapd does next: cleanup-after-restore, or undo of the restore
	if c.Draw("restart-between", 2) == 1 {
		// the restore state travels through the task's JSON data (and a
		// restart of snapd)
		b, err := json.Marshal(rs)
		if err != nil {
			verifHarnessFail("%v", err)
		}
		rs = &backend.RestoreState{}
		if err := json.Unmarshal(b, rs); err != nil {
			verifHarnessFail("%v", err)
		}
		w.now = w.now.Add(time.Duration(c.Draw("restart-gap", 3600)) * time.Second)
		c.Count("restore-state-json-roundtrips")
	}
	if c.Draw("then", 3) == 2 {
		rs.Revert()
		c.Count("probe:undo-of-successful-restore")
		c.Logf("restore undone")
		_, data, outside := verifSplitDiff(verifDiff(before, w.image(), false), nil, parents)
		if len(data) > 0 {
			c.Violate("C32/revert-not-exact", "undoing a successful Restore did not bring the old data back: %s", verifDiffText(data))
		}
		if len(outside) > 0 {
			c.Violate("C32/restore-outside", "Restore+Revert changed files outside the snap's data directories: %s", verifDiffText(outside))
		}
		return
	}
	rs.Cleanup()
	c.Logf("restore cleaned up")
	in, data, outside := verifSplitDiff(verifDiff(expect, w.image(), false), restoredDirs, parents)
	if len(in) > 0 {
		c.Violate("C32/restore-wrong-data", "after Restore and Cleanup the data is not the saved data: %s", verifDiffText(in))
	}
	if len(data) > 0 {
		c.Violate("C32/restore-collateral", "Restore and Cleanup changed other data of the snap: %s", verifDiffText(data))
	}
	if len(outside) > 0 {
		c.Violate("C32/restore-outside", "Restore changed files outside the snap's data directories: %s", verifDiffText(outside))
	}
}

// verifRestoreCtx reports every Err() call (made by Restore at the start of
// each archive and by RunWithContext, always on the calling goroutine).
type verifRestoreCtx struct {
	context.Context
	onErr func(error)
}

func (x *verifRestoreCtx) Err() error {
	e := x.Context.Err()
	x.onErr(e)
	return e
}

// verifCountCtx cancels itself at the n-th Done() (resp. Err()) call: a
// deterministic "cancelled while the k-th chunk is hashed".
type verifCountCtx struct {
	context.Context
	cancel       func()
	cancelAtDone int
	cancelAtErr  int
	dones, errs  int
	fired        bool
}

func (x *verifCountCtx) Done() <-chan struct{} {
	x.dones++
	if x.cancelAtDone > 0 && x.dones == x.cancelAtDone {
		x.fired = true
		x.cancel()
	}
	return x.Context.Done()
}

func (x *verifCountCtx) Err() error {
	x.errs++
	if x.cancelAtErr > 0 && x.errs == x.cancelAtErr {
		x.fired = true
		x.cancel()
	}
	return x.Context.Err()
}

// ---------------------------------------------------------------------------
// import

// importName makes up a member name. Most kinds aim somewhere. The name is
//
//	front + oldid + "_" + mid + "../"... + tail
//
// Import drops everything up to the first "_" and puts "<new id>_" in its
// place, so where the file would land (were the name let through) is
// computed here the same lexical way from what follows the first "_": one
// of the ancestors of the snapshots directory, never above the scratch
// directory. The tail then names a new file there or a file that exists
// below it (system files, snap data), so that a name that gets through is
// seen creating or modifying something. front is nothing, or just enough
// (or one more than enough) directory components — plain, "./", doubled
// slashes, containing a "_" themselves — to make the name as a whole look
// local although the part that is kept is not.
func (w *verifWorld) importName(good string) string {
	c := w.c
	prefix := []string{"5", "1", "", "x", "007", "99999999999999999999"}[c.Draw("name-prefix", 6)]
	kind := c.Draw("name-kind", 20)
	switch kind {
	case 0:
		return prefix + "_" + strings.SplitN(good+"_x", "_", 2)[1]
	case 1:
		return prefix + "_sub/dir/x.zip"
	case 2:
		return "nounderscore.zip"
	case 3:
		return []string{"", "_", prefix + "_importing", prefix + "_", "..", ".", prefix + "_..", prefix + "_a/..", "a/" + prefix + "_/..", "a/b/" + prefix + "_x/../.."}[c.Draw("name-odd", 10)]
	}
	nups := 1 + c.Draw("name-ups", 7)
	mid := []string{"a/", "", "/", "a/./", "a//", "./", strings.Repeat("n", 150) + "/", "a/b/", "a/../"}[c.Draw("name-mid", 9)]
	ups := strings.Repeat("../", nups)
	if c.Draw("name-ups-form", 4) == 3 {
		ups = strings.Repeat(".././", nups)
	}
	frontForm := 0
	if kind >= 10 {
		frontForm = 1 + c.Draw("name-front", 5)
	}
	front := func(k int) string {
		switch frontForm {
		case 0:
			return ""
		case 1:
			return strings.Repeat("d/", k)
		case 2:
			return "./" + strings.Repeat("d/", k)
		case 3:
			return strings.Repeat("d//", k)
		case 4:
			return strings.Repeat("d/", k) + "e/../"
		default:
			return strings.Repeat("d_e/", k) // moves the first "_" to the front
		}
	}
	local := func(name string) bool {
		cl := path.Clean(name)
		return !path.IsAbs(cl) && cl != ".." && !strings.HasPrefix(cl, "../")
	}
	k := 0
	if frontForm != 0 {
		for k < 12 && !local(front(k)+prefix+"_"+mid+ups+"t") {
			k++
		}
		switch c.Draw("name-front-depth", 4) {
		case 2:
			k++
		case 3:
			if k > 0 {
				k--
			}
		}
	}
	base := front(k) + prefix + "_" + mid + ups
	// where would it land
	landing := ""
	if l := strings.SplitN(base, "_", 2); len(l) == 2 {
		landing = path.Join(w.snapsDir, "0_"+l[1])
	}
	if landing == "" || !(landing == w.top || strings.HasPrefix(landing, w.top+"/")) {
		// would leave the scratch directory (or no "_" at all): do not go up
		base = front(k) + prefix + "_" + mid
		landing = w.snapsDir
	}
	tail := "esc.zip"
	switch c.Draw("name-tail", 4) {
	case 1:
		tail = "esc_1.zip"
	case 2, 3:
		var files []string
		img := verifReadTree(landing, w.snapsDir)
		for _, p := range verifSortedPaths(img) {
			if img[p].kind == 'f' {
				files = append(files, p)
			}
		}
		if len(files) > 0 {
			tail = files[c.Draw("name-target", len(files))]
		}
	}
	switch kind {
	case 4:
		return ups + tail // no id part at all
	case 5:
		return "/" + tail
	case 6:
		return prefix + "_/" + tail
	}
	return base + tail
}

func (w *verifWorld) opImport() {
	c := w.c
	w.refresh()
	os.MkdirAll(filepath.Dir(w.snapsDir), 0755)

	// the stream
	var members []verifTarMember
	var pristine []byte
	src := c.Draw("import-src", 4)
	if w.faultsOff && src == 3 {
		src = 0
	}
	var srcShots []*verifShot
	if len(w.shots) > 0 {
		pick := w.shots[c.Draw("import-set", len(w.shots))]
		for _, s := range w.shots {
			if s.id == pick.id {
				srcShots = append(srcShots, s)
			}
		}
	}
	if src == 2 && len(srcShots) > 0 {
		// what snapd itself exports
		se, err := backend.NewSnapshotExport(context.Background(), srcShots[0].id)
		if err == nil {
			var buf bytes.Buffer
			if err = se.Init(); err == nil {
				err = se.StreamTo(&buf)
			}
			se.Close()
			if err == nil {
				pristine = buf.Bytes()
				members, err = verifParseTar(pristine)
				if err != nil {
					verifHarnessFail("export does not parse: %v", err)
				}
				c.Count("real-exports")
			}
		}
		if pristine == nil {
			c.Count("real-export-failed")
		}
	}
	if members == nil && src != 3 {
		var sets []*client.Snapshot
		for _, s := range srcShots {
			if s.spec != nil {
				m := s.spec.meta
				sets = append(sets, &m)
			}
		}
		hash := []byte(verifBytes(uint64(c.Draw("content-hash", 5)), 32))
		if len(sets) > 0 && c.Draw("true-content-hash", 2) == 1 {
			if h, err := (client.SnapshotSet{Snapshots: sets}).ContentHash(); err == nil {
				hash = h
			}
		}
		cj, _ := json.Marshal(map[string]string{"content-hash": base64.StdEncoding.EncodeToString(hash)})
		members = append(members, verifTarMember{name: "content.json", typeflag: '0', body: cj, declSize: -1})
		var files []string
		for _, s := range srcShots {
			b, err := os.ReadFile(s.file)
			if err != nil {
				continue
			}
			members = append(members, verifTarMember{name: filepath.Base(s.file), typeflag: '0', body: b, declSize: -1})
			files = append(files, filepath.Base(s.file))
		}
		ej, _ := json.Marshal(map[string]interface{}{"format": 1, "date": w.now, "files": files})
		members = append(members, verifTarMember{name: "export.json", typeflag: '0', body: ej, declSize: -1})
	}
	mutated := 0
	if src != 3 {
		nmut := w.fd("member-mutations", 6) - 2
		for i := 0; i < nmut && len(members) > 0; i++ {
			mi := c.Draw("mut-member", len(members))
			m := &members[mi]
			mutated++
			switch c.Draw("mut-kind", 10) {
			case 0, 1, 2:
				m.name = w.importName(m.name)
				w.fault("member-renamed")
			case 3:
				m.typeflag = []byte{'5', '2', '1', '3', '6', 'g', 'S', 0}[c.Draw("typeflag", 8)]
				m.linkname = []string{"", "/etc/passwd", "../../../etc/passwd"}[c.Draw("linkname", 3)]
				w.fault("member-type-changed")
			case 4:
				dup := *m
				if c.Draw("dup-rename", 2) == 1 {
					dup.name = w.importName(m.name)
				}
				members = append(members, dup)
				w.fault("member-duplicated")
			case 5:
				members = append(members[:mi], members[mi+1:]...)
				w.fault("member-dropped")
			case 6:
				junk := verifTarMember{name: w.importName("5_alpha_1.0_3.zip"), typeflag: '0', declSize: -1,
					body: []byte(verifBytes(uint64(c.Draw("junk-seed", 9)), c.Draw("junk-size", 600)))}
				if c.Draw("junk-dir", 4) == 3 {
					junk.typeflag = '5'
					junk.body = nil
				}
				at := c.Draw("junk-at", len(members)+1)
				members = append(members[:at], append([]verifTarMember{junk}, members[at:]...)...)
				w.fault("member-inserted")
			case 7:
				m.declSize = []int64{int64(len(m.body)) + 1, int64(len(m.body)) + 100000, int64(len(m.body)) / 2, 0, 1 << 40, -5}[c.Draw("decl-size", 6)]
				w.fault("member-size-lies")
			case 8:
				b := append([]byte(nil), m.body...)
				if len(b) > 0 {
					b[verifScaled(c, "body-flip-at", len(b))] ^= 0x20
				}
				m.body = b
				w.fault("member-body-flipped")
			default:
				if c.Draw("long-kind", 2) == 1 {
					m.gnuLong = true
				} else {
					m.pax = true
				}
				if c.Draw("long-rename", 2) == 1 {
					m.name = w.importName(m.name)
				}
				w.fault("member-extended-name")
			}
		}
	}
	var stream []byte
	if pristine != nil && mutated == 0 {
		stream = pristine
	} else {
		stream = verifTarStream(members, 2)
	}
	switch w.fd("stream-mutation", 12) - 4 {
	case 3:
		stream = stream[:verifScaled(c, "cut-at", len(stream))]
		w.fault("stream-truncated")
	case 4:
		if len(stream) > 0 {
			stream = append([]byte(nil), stream...)
			stream[verifScaled(c, "flip-at", len(stream))] ^= byte(1 << uint(c.Draw("flip-bit", 8)))
			w.fault("stream-byte-flipped")
		}
	case 5:
		if len(stream) >= 1024 {
			stream = stream[:len(stream)-1024]
			w.fault("stream-without-end-blocks")
		}
	case 6:
		stream = append(append([]byte(nil), stream...), []byte(verifBytes(7, 700))...)
		w.fault("stream-trailing-junk")
	case 7:
		stream = []byte(verifBytes(uint64(c.Draw("junk-seed", 9)), c.Draw("junk-len", 3000)))
		w.fault("stream-is-junk")
	}

	rd := &verifFaultReader{data: stream, failAt: -1, eofAt: -1,
		chunk: []int{0, 1, 7, 512, 4096, 100}[c.Draw("read-chunk", 6)]}
	if rd.chunk == 1 && len(stream) > 20000 {
		rd.chunk = 13
	}
	switch w.fd("reader-fault", 8) - 3 {
	case 3:
		rd.failAt = verifScaled(c, "fail-at", len(stream))
	case 4:
		rd.eofAt = verifScaled(c, "eof-at", len(stream))
	}

	id := w.nextID()
	switch w.fd("import-id", 5) {
	case 3:
		if len(w.shots) > 0 {
			id = w.shots[c.Draw("import-id-of", len(w.shots))].id
			c.Count("import-into-existing-set-id")
		}
	case 4:
		id = 0
	}
	var flags *backend.ImportFlags
	if c.Draw("import-flags", 2) == 1 {
		flags = &backend.ImportFlags{NoDuplicatedImportCheck: true}
	}
	if w.fd("lock-present", 10) == 9 {
		os.MkdirAll(w.snapsDir, 0700)
		os.WriteFile(filepath.Join(w.snapsDir, fmt.Sprintf("%d_importing", id)), nil, 0644)
		w.fault("import-already-in-progress")
	}
	cc := &verifCountCtx{}
	cc.Context, cc.cancel = context.WithCancel(context.Background())
	switch w.fd("import-ctx", 8) {
	case 6:
		cc.cancel()
	case 7:
		cc.cancelAtErr = 1 + c.Draw("import-cancel-at", 5)
	}

	before := verifReadTree(w.top, w.snapsDir)
	inside := verifReadTree(w.snapsDir, "")
	names, err := backend.Import(cc, id, rd, flags)
	cc.cancel()
	after := verifReadTree(w.top, w.snapsDir)
	if err != nil {
		// not part of the property (it is inside the snapshots directory),
		// recorded for NOTES.md: files a failed import leaves behind
		for _, e := range verifDiff(inside, verifReadTree(w.snapsDir, ""), false) {
			if strings.HasPrefix(e.what, "created") {
				c.Count("note:failed-import-left-a-file-in-the-snapshots-directory")
				break
			}
		}
	}
	if rd.fired != "" {
		w.fault(rd.fired)
	}
	if cc.fired {
		w.fault("import-cancelled")
	}
	sort.Strings(names)
	c.Logf("import src=%d members=%d mutated=%d id=%d nodupcheck=%v: failed=%v names=%v", src, len(members), mutated, id, flags != nil, err != nil, names)
	if err != nil {
		c.Count("probe:import-failed")
		msg := err.Error()
		switch {
		case strings.Contains(msg, "invalid filename in import file"):
			c.Count("probe:import-refused-parent-element")
		case strings.Contains(msg, "unexpected directory"):
			c.Count("probe:import-refused-directory")
		case strings.Contains(msg, "already available as snapshot"):
			c.Count("probe:import-duplicate-detected")
		case strings.Contains(msg, "validation failed"):
			c.Count("probe:import-validation-failed")
		case strings.Contains(msg, "already in progress"):
			c.Count("probe:import-in-progress-refused")
		}
	} else {
		c.Count("probe:import-succeeded")
	}

	var created, changed []verifDiffEntry
	for _, e := range verifDiff(before, after, true) {
		if strings.HasPrefix(e.what, "created") {
			created = append(created, e)
		} else {
			changed = append(changed, e)
		}
	}
	if len(created) > 0 {
		c.Violate("C32/import-escape", "Import (failed=%v) created files outside the snapshots directory: %s", err != nil, verifDiffText(created))
	}
	if len(changed) > 0 {
		c.Violate("C32/import-modified-outside", "Import (failed=%v) modified files outside the snapshots directory: %s", err != nil, verifDiffText(changed))
	}

	// pick up what was imported, so that later operations restore from it
	nshots := len(w.shots)
	w.refresh()
	if err != nil && len(w.shots) < nshots {
		// inside the snapshots directory, so not this property's business:
		// a failed import into a set id that is in use removes the
		// snapshots that were there
		c.Count("note:failed-import-into-used-set-id-removed-existing-snapshots")
	}
	if err == nil {
		ents, _ := os.ReadDir(w.snapsDir)
		for _, e := range ents {
			if !strings.HasPrefix(e.Name(), fmt.Sprintf("%d_", id)) || !strings.HasSuffix(e.Name(), ".zip") {
				continue
			}
			file := filepath.Join(w.snapsDir, e.Name())
			b, rerr := os.ReadFile(file)
			if rerr != nil {
				continue
			}
			sum := sha256.Sum256(b)
			known := false
			for _, s := range w.shots {
				if s.file == file {
					known = true
				}
			}
			if known {
				continue
			}
			var from *verifShot
			for _, s := range w.shots {
				if s.sum == sum {
					from = s
				}
			}
			if from == nil {
				continue
			}
			model := map[string]*verifSaved{}
			for k, v := range from.model {
				model[k] = v
			}
			var spec *verifZipSpec
			if from.spec != nil {
				spec = from.spec.clone()
			}
			w.register(file, id, from.snap, model, spec)
			c.Count("imported-snapshots-available-for-restore")
		}
	}
}

// ---------------------------------------------------------------------------
// restart: snapd starts up, cleans abandoned imports; the clock moves

func (w *verifWorld) opRestart() {
	c := w.c
	w.now = w.now.Add(time.Duration(c.Draw("clock-step", 200000)-3600) * time.Second)
	os.MkdirAll(w.snapsDir, 0700)
	n := w.fd("leftovers", 4)
	for i := 0; i < n; i++ {
		id := uint64(1 + c.Draw("leftover-id", 6))
		switch c.Draw("leftover-kind", 5) {
		case 0, 1:
			os.WriteFile(filepath.Join(w.snapsDir, fmt.Sprintf("%d_importing", id)), nil, 0644)
			os.WriteFile(filepath.Join(w.snapsDir, fmt.Sprintf("%d_half_1.0_3.zip", id)), []byte("PK\x03\x04 half written"), 0600)
		case 2:
			os.WriteFile(filepath.Join(w.snapsDir, fmt.Sprintf("%d_importing", id)), nil, 0644)
		case 3:
			os.Mkdir(filepath.Join(w.snapsDir, fmt.Sprintf("%d_importing", id)), 0755)
			os.WriteFile(filepath.Join(w.snapsDir, fmt.Sprintf("%d_importing", id), "x"), nil, 0644)
		default:
			os.Symlink("../../../../etc/passwd", filepath.Join(w.snapsDir, fmt.Sprintf("%d_link_1.0_3.zip", id)))
			os.WriteFile(filepath.Join(w.snapsDir, fmt.Sprintf("%d_importing", id)), nil, 0644)
		}
		w.fault("abandoned-import-left-behind")
	}
	before := verifReadTree(w.top, w.snapsDir)
	cleaned, err := backend.CleanupAbandonedImports()
	after := verifReadTree(w.top, w.snapsDir)
	c.Logf("restart: leftovers=%d cleaned=%d failed=%v", n, cleaned, err != nil)
	if d := verifDiff(before, after, true); len(d) > 0 {
		c.Violate("C32/import-cleanup-outside", "cleaning abandoned imports touched files outside the snapshots directory: %s", verifDiffText(d))
	}
	w.refresh()
}
