package daemon

// C08 (second engine): "a user-specific notice is returned only to that user
// (public notices to everyone)" as the REST API builds its filter: the real
// daemon.getNotices handler is called for local users with and without a
// store login, with and without the admin-only filters.

import (
	"fmt"
	"net/http"
	"sort"
	"strconv"
	"strings"
	"time"

	"github.com/snapcore/snapd/dirs"
	"github.com/snapcore/snapd/internal/verifsim"
	"github.com/snapcore/snapd/overlord"
	"github.com/snapcore/snapd/overlord/auth"
	"github.com/snapcore/snapd/overlord/state"
)

func verifRunNoticesUsers(c *verifsim.Ctx) {
	st := state.New(nil)
	o := overlord.MockWithState(st)
	cmd := &Command{d: &Daemon{overlord: o, state: st}}
	uids := []uint32{0, 1000, 1234}

	st.Lock()
	loggedIn, err := auth.NewUser(st, auth.NewUserParams{Username: "someone", Email: "someone@example.com", Macaroon: "macaroon", Discharges: []string{"discharge"}})
	if err != nil {
		st.Unlock()
		c.Fatalf("auth.NewUser: %v", err)
	}
	owner := map[string]int64{} // notice id -> uid, -1 public
	nn := 2 + c.Draw("nnotices", 8)
	for i := 0; i < nn; i++ {
		var uid *uint32
		own := int64(-1)
		if k := c.Draw("notice-owner", len(uids)+1); k < len(uids) {
			u := uids[k]
			uid = &u
			own = int64(u)
		}
		typ := []state.NoticeType{state.WarningNotice, state.SnapRunInhibitNotice, state.ChangeUpdateNotice}[c.Draw("ntype", 3)]
		key := "k" + strconv.Itoa(c.Draw("nkey", 4))
		if typ == state.ChangeUpdateNotice {
			key = strconv.Itoa(1 + c.Draw("nchg", 5))
		}
		id, err := st.AddNotice(uid, typ, key, nil)
		if err == nil {
			if _, seen := owner[id]; !seen {
				owner[id] = own
			}
			c.Logf("notice %s owner=%d %s %s", id, own, typ, key)
		}
		st.Unlock()
		time.Sleep(time.Microsecond)
		st.Lock()
	}
	st.Unlock()

	nreq := 3 + c.Draw("nrequests", 10)
	for i := 0; i < nreq && len(c.Violations) == 0; i++ {
		uid := uids[c.Draw("req-uid", len(uids))]
		var user *auth.UserState
		if c.Draw("logged-in-to-the-store", 2) == 1 {
			user = loggedIn
		}
		var q []string
		switch c.Draw("admin-filter", 4) {
		case 1:
			q = append(q, "user-id="+strconv.Itoa(int(uids[c.Draw("filter-uid", len(uids))])))
		case 2:
			q = append(q, "users=all")
		}
		if c.Draw("types-filter", 3) == 2 {
			q = append(q, "types="+[]string{"warning", "snap-run-inhibit", "change-update"}[c.Draw("type", 3)])
		}
		if c.Draw("keys-filter", 4) == 3 {
			q = append(q, "keys=k"+strconv.Itoa(c.Draw("key", 4)))
		}
		req, err := http.NewRequest("GET", "/v2/notices?"+strings.Join(q, "&"), nil)
		if err != nil {
			c.Fatalf("NewRequest: %v", err)
		}
		req.RemoteAddr = fmt.Sprintf("pid=100;uid=%d;socket=%s;", uid, dirs.SnapdSocket)
		rsp := getNotices(cmd, req, user)
		c.Count("requests")
		c.Nontrivial()
		switch v := rsp.(type) {
		case *apiError:
			c.Logf("uid %d login=%v %v -> error %d", uid, user != nil, q, v.Status)
			c.Count("probe:request-refused")
		case *respJSON:
			notices, _ := v.Result.([]*state.Notice)
			var got []string
			for _, n := range notices {
				nuid, isSet := n.UserID()
				got = append(got, n.String())
				if isSet && uid != 0 && nuid != uid {
					c.Violate("C08/other-users-notice-returned", "GET /v2/notices?%s by local uid %d (store login: %v) returned %s, which belongs to uid %d", strings.Join(q, "&"), uid, user != nil, n.String(), nuid)
				}
			}
			sort.Strings(got)
			c.Logf("uid %d login=%v %v -> %d %v", uid, user != nil, q, v.Status, got)
			if len(notices) > 0 {
				c.Count("probe:notices-returned")
			}
		default:
			c.Logf("uid %d %v -> %T", uid, q, rsp)
		}
	}
}

var verifEngineNoticesUsers = &verifsim.Engine{
	Name:   "daemon: real getNotices handler for local users with/without a store login and the admin-only filters (C08)",
	Bubble: false,
	Run:    verifRunNoticesUsers,
	Real:   []string{"daemon.getNotices (request uid, user-id/users/types/keys filters -> state.NoticeFilter)", "overlord/state notices"},
	Stubs:  []string{"HTTP transport and access checks before the handler (handler called directly with a ucrednet-style remote address)", "store login (an auth.UserState created in state)"},
}
