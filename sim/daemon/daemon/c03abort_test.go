package daemon

// C03 (second engine): the real daemon.abortChange handler racing with task
// completions. The request body is a reader that yields to the scheduler
// whenever the handler reads it without holding the state lock (never the
// case on the unchanged tree, where the whole handler runs under the lock),
// so a stale "is it ready?" sample taken before the read is exposed.

import (
	"errors"
	"fmt"
	"net/http"
	"sort"
	"strconv"
	"sync"
	"testing"
	"testing/synctest"
	"time"

	"gopkg.in/tomb.v2"

	"github.com/snapcore/snapd/internal/verifsim"
	"github.com/snapcore/snapd/overlord"
	"github.com/snapcore/snapd/overlord/state"
)

type verifAbortParked struct {
	id    string
	label string
	undo  bool
	ch    chan error
}

type verifYieldBody struct {
	data []byte
	st   *state.State
	park func()
}

func (b *verifYieldBody) Read(p []byte) (int, error) {
	if !b.st.VerifLockHeld() {
		b.park()
	}
	if len(b.data) == 0 {
		return 0, errors.New("EOF")
	}
	n := copy(p, b.data)
	b.data = b.data[n:]
	return n, nil
}

func (b *verifYieldBody) Close() error { return nil }

func verifRunAbort(c *verifsim.Ctx) {
	st := state.New(nil)
	o := overlord.MockWithState(st)
	r := o.TaskRunner()
	cmd := &Command{d: &Daemon{overlord: o, state: st}}
	var mu sync.Mutex
	var parked []*verifAbortParked
	labels := map[string]string{}
	mk := func(undo bool) state.HandlerFunc {
		return func(t *state.Task, tb *tomb.Tomb) error {
			p := &verifAbortParked{id: t.ID(), undo: undo, ch: make(chan error)}
			mu.Lock()
			p.label = labels[p.id]
			parked = append(parked, p)
			mu.Unlock()
			return <-p.ch
		}
	}
	r.AddHandler("u", mk(false), mk(true))
	state.VerifOrderTasks = func(ts []*state.Task) {
		sort.Slice(ts, func(i, j int) bool {
			a, _ := strconv.Atoi(ts[i].ID())
			b, _ := strconv.Atoi(ts[j].ID())
			return a < b
		})
	}
	defer func() { state.VerifOrderTasks = nil }()

	st.Lock()
	chg := st.NewChange("kind", "change")
	n := 1 + c.Draw("ntasks", 4)
	var prev *state.Task
	for i := 0; i < n; i++ {
		t := st.NewTask("u", "t"+strconv.Itoa(i))
		labels[t.ID()] = "t" + strconv.Itoa(i)
		if prev != nil && c.Draw("edge", 2) == 1 {
			t.WaitFor(prev)
		}
		chg.AddTask(t)
		prev = t
	}
	notifiedReady := false
	st.AddChangeStatusChangedHandler(func(ch *state.Change, old, new state.Status) {
		if notifiedReady && !new.Ready() {
			c.Violate("C03/unready-after-ready", "change notified status %v -> %v after it had been notified ready", old, new)
		}
		if new.Ready() {
			notifiedReady = true
		}
	})
	chgID := chg.ID()
	st.Unlock()

	restore := MockMuxVars(func(*http.Request) map[string]string { return map[string]string{"id": chgID} })
	defer restore()

	// at most one abort request in flight; its body read may park
	var bodyPark chan struct{}
	reqDone := make(chan string, 1)
	inflight := false
	defer func() {
		mu.Lock()
		ps := parked
		parked = nil
		mu.Unlock()
		if bodyPark != nil {
			close(bodyPark)
			bodyPark = nil
		}
		for _, p := range ps {
			p.ch <- errors.New("verif: torn down")
		}
		synctest.Wait()
		r.Stop()
		synctest.Wait()
	}()

	everReady := false
	var readyTime time.Time
	aborts := 0
	for step := 0; step < 400 && len(c.Violations) == 0; step++ {
		r.Ensure()
		synctest.Wait()
		select {
		case res := <-reqDone:
			inflight = false
			c.Logf("abort request returned: %s", res)
		default:
		}
		st.Lock()
		ready := chg.IsReady()
		cs := chg.Status()
		allReady := true
		for _, t := range chg.Tasks() {
			if !t.Status().Ready() {
				allReady = false
			}
		}
		if everReady && (!ready || !cs.Ready() || !allReady) {
			c.Violate("C03/unready-after-ready", "the change was ready and is now %v (IsReady=%v, all tasks ready=%v)", cs, ready, allReady)
		}
		if everReady && !chg.ReadyTime().Equal(readyTime) {
			c.Violate("C03/ready-time-changed", "ready time moved")
		}
		if ready && !everReady {
			everReady = true
			readyTime = chg.ReadyTime()
			c.Logf("change ready: %v", cs)
		}
		st.Unlock()
		mu.Lock()
		sort.Slice(parked, func(i, j int) bool {
			if parked[i].label != parked[j].label {
				return parked[i].label < parked[j].label
			}
			return !parked[i].undo
		})
		ps := append([]*verifAbortParked(nil), parked...)
		mu.Unlock()
		if everReady && len(ps) == 0 && !inflight {
			break
		}
		type act struct {
			kind string
			p    *verifAbortParked
		}
		var acts []act
		for _, p := range ps {
			acts = append(acts, act{"release", p})
		}
		if bodyPark != nil {
			acts = append(acts, act{kind: "body-continues"})
		}
		if !inflight && aborts < 2 {
			acts = append(acts, act{kind: "abort-request"})
		}
		if len(acts) == 0 {
			time.Sleep(time.Second)
			continue
		}
		a := acts[c.Draw("act", len(acts))]
		switch a.kind {
		case "release":
			mu.Lock()
			for i, q := range parked {
				if q == a.p {
					parked = append(parked[:i], parked[i+1:]...)
				}
			}
			mu.Unlock()
			c.Logf("end %s undo=%v", a.p.label, a.p.undo)
			a.p.ch <- nil
			synctest.Wait()
		case "body-continues":
			c.Logf("request body read continues")
			c.Count("probe:body-read-without-state-lock")
			ch := bodyPark
			bodyPark = nil
			ch <- struct{}{}
			synctest.Wait()
		case "abort-request":
			aborts++
			inflight = true
			c.Logf("abort request")
			c.Count("fault:user-abort-request")
			c.Nontrivial()
			body := &verifYieldBody{data: []byte(`{"action":"abort"}`), st: st}
			body.park = func() {
				ch := make(chan struct{})
				bodyPark = ch
				<-ch
			}
			req, _ := http.NewRequest("POST", "/v2/changes/"+chgID, body)
			go func() {
				defer func() {
					if rec := recover(); rec != nil {
						c.Violate("C03/abort-panic", "the abort request panics: %v", rec)
						reqDone <- "panic"
					}
				}()
				rsp := abortChange(cmd, req, nil)
				reqDone <- fmt.Sprintf("%T", rsp)
			}()
			synctest.Wait()
		}
	}
}

var verifEngineAbort = &verifsim.Engine{
	Name:   "daemon: real abortChange handler racing with task completions (C03)",
	Bubble: true,
	Run:    verifRunAbort,
	Real:   []string{"daemon.abortChange (the REST handler behind POST /v2/changes/<id>)", "overlord/state Change.Abort, TaskRunner"},
	Stubs:  []string{"HTTP transport (handler called directly with a request whose body yields to the scheduler when read without the state lock)", "task handlers (parked)"},
}

func TestVerifSim(t *testing.T) {
	verifsim.Main(t, map[string]*verifsim.Engine{"C03": verifEngineAbort, "C08": verifEngineNoticesUsers})
}
