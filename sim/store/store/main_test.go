package store_test

import (
	"testing"

	"github.com/snapcore/snapd/internal/verifsim"
)

func TestVerifSim(t *testing.T) {
	verifC31Setup()
	verifsim.Main(t, map[string]*verifsim.Engine{
		"C31": verifEngineC31,
	})
}
