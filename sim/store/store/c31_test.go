package store_test

// C31: a downloaded snap is only kept if its digest matches.
//
// One run = one snap (content with declared size and SHA3-384), 1-3 calls of
// the real Store.Download to the same target path, against an in-memory
// http.RoundTripper whose behaviour per request is drawn from the tape.
// Everything below the RoundTripper (sockets) and the clock are simulated;
// everything above it (http.Client incl. redirect following, doRequest,
// downloadImpl, retry strategy, speed monitor, rate limiter, partial/target
// file handling, download cache) is the unmodified code of the tree.

import (
	"bytes"
	"context"
	"crypto"
	"errors"
	"fmt"
	"io"
	"net"
	"net/http"
	"os"
	"path/filepath"
	"strconv"
	"strings"
	"sync"
	"syscall"
	"testing/synctest"
	"time"

	_ "golang.org/x/crypto/sha3"

	"github.com/snapcore/snapd/dirs"
	"github.com/snapcore/snapd/httputil"
	"github.com/snapcore/snapd/internal/verifsim"
	"github.com/snapcore/snapd/snap"
	"github.com/snapcore/snapd/store"
)

var verifEngineC31 = &verifsim.Engine{
	Name:   "store-download",
	Bubble: true,
	Run:    verifRunC31,
	Real: []string{
		"store.Store.Download and downloadImpl (resume, Range handling, hash seeding, hash-mismatch retry from scratch, rename to target)",
		"store.Store.doRequest/newRequest, httputil.NewHTTPClient's http.Client (CheckRedirect preserved) and net/http redirect following",
		"gopkg.in/retry.v1 downloadRetryStrategy and httputil.ShouldRetryAttempt/ShouldRetryHttpResponse",
		"store.TransferSpeedMonitoringWriter (5 min window on the simulated clock), juju/ratelimit reader",
		"store.CacheManager (download cache on/off, hard links) on a real scratch directory",
		"real files for <target> and <target>.partial under a per-run temp root",
	},
	Stubs: []string{
		"network: in-memory http.RoundTripper installed through store's httputilNewHTTPClient variable; per request the tape decides refuse/reset/timeout/DNS/5xx/4xx/429 or 503 with or without Retry-After/redirect chains/Range honoured or ignored/wrong offset/corrupt, extra, garbage, truncated bodies/cut with retryable or fatal error/stall/drip/declared Content-Length",
		"clock: testing/synctest fake clock (retry back-off, stalls, speed-monitor windows, rate limiter cost no wall time)",
		"delta downloads disabled (SNAPD_USE_DELTAS_EXPERIMENTAL=0), no user/device authentication, progress bar nil",
	},
}

const (
	verifDLHost = "http://sim.invalid"
	verifDLPath = "/download/foo_7.snap"
)

var verifC31Once sync.Once

// verifC31Base is the directory below which every run creates (and removes)
// its own root. The runs create, rename, link and unlink a few files each;
// on the disk-backed per-worker TMPDIR that is 3-4 ms of journalling per run
// (4x the cost of everything else), so a memory-backed directory is used
// when there is one. "" = the worker's TMPDIR. Override: VERIF_STORE_TMP.
var verifC31Base string

// verifC31Setup is called from TestVerifSim before any bubble exists (the
// sweep compares real modification times with the real clock).
func verifC31Setup() {
	verifC31Once.Do(func() {
		os.Setenv("SNAPD_USE_DELTAS_EXPERIMENTAL", "0")
		os.Unsetenv("SNAPD_DEBUG")
		os.Unsetenv("SNAPD_DEBUG_HTTP")
		os.Unsetenv("SNAPPY_STORE_NO_CDN")
		verifC31Base = verifPickBase()
	})
}

func verifPickBase() string {
	if v := os.Getenv("VERIF_STORE_TMP"); v != "" {
		return v
	}
	const shm = "/dev/shm"
	probe, err := os.MkdirTemp(shm, "verifdl-probe-")
	if err != nil {
		return ""
	}
	os.Remove(probe)
	// sweep what a killed worker may have left (a run never lasts minutes)
	if ents, err := os.ReadDir(shm); err == nil {
		for _, e := range ents {
			if !strings.HasPrefix(e.Name(), "verifdl-") {
				continue
			}
			if fi, err := e.Info(); err == nil && time.Since(fi.ModTime()) > 15*time.Minute {
				os.RemoveAll(filepath.Join(shm, e.Name()))
			}
		}
	}
	return shm
}

// ---------------------------------------------------------------------------
// helpers

type verifTimeoutErr struct{ what string }

func (e verifTimeoutErr) Error() string { return "sim " + e.what + ": i/o timeout" }
func (verifTimeoutErr) Timeout() bool   { return true }
func (verifTimeoutErr) Temporary() bool { return true }

func verifSha(b []byte) string {
	h := crypto.SHA3_384.New()
	h.Write(b)
	return fmt.Sprintf("%x", h.Sum(nil))
}

// verifBytes is a deterministic byte stream (splitmix64) for contents and junk.
func verifBytes(seed uint64, n int) []byte {
	out := make([]byte, n)
	s := seed*0x9e3779b97f4a7c15 + 0x1234567
	var z uint64
	for i := 0; i < n; i++ {
		if i%8 == 0 {
			s += 0x9e3779b97f4a7c15
			z = s
			z = (z ^ (z >> 30)) * 0xbf58476d1ce4e5b9
			z = (z ^ (z >> 27)) * 0x94d049bb133111eb
			z ^= z >> 31
		}
		out[i] = byte(z >> (8 * uint(i%8)))
	}
	return out
}

func verifMin(a, b int) int {
	if a < b {
		return a
	}
	return b
}

func verifFileSize(p string) int64 {
	fi, err := os.Lstat(p)
	if err != nil {
		return -1
	}
	return fi.Size()
}

// ---------------------------------------------------------------------------
// fault plan (swarm configuration of one run)

var verifFaultKinds = []string{
	// request level
	"refuse", "reset", "req-timeout", "dns", "req-fatal", "http-5xx", "http-4xx", "redirect-loop", "redirect-bad",
	// 429/503 with or without a Retry-After header (seconds or HTTP-date)
	"throttle",
	// response/body level
	"cut", "truncate", "corrupt", "extra", "garbage", "stall", "drip", "wrong-range", "bad-length",
}

var verifReqLevel = map[string]bool{"refuse": true, "reset": true, "req-timeout": true, "dns": true, "req-fatal": true,
	"http-5xx": true, "http-4xx": true, "redirect-loop": true, "redirect-bad": true, "throttle": true}

type verifPlan struct {
	on       bool
	kinds    []string
	num, den int
	budget   int
	fired    int
	// sticky: once a faulty answer was given in a call, every remaining
	// attempt of that call fails too, outside the budget, so that retry
	// budgets really get exhausted: 1 = the same way, 2 = throttled
	// (429/503 with the same Retry-After form) from then on
	sticky int
}

func verifDrawPlan(c *verifsim.Ctx) *verifPlan {
	p := &verifPlan{}
	p.on = c.Draw("faults", 4) != 0
	if !p.on {
		c.Logf("plan: faults off")
		return p
	}
	for _, k := range verifFaultKinds {
		if c.Draw("en:"+k, 2) == 1 {
			p.kinds = append(p.kinds, k)
		}
	}
	switch c.Draw("fault-rate", 4) {
	case 0:
		p.num, p.den = 1, 6
	case 1:
		p.num, p.den = 1, 3
	case 2:
		p.num, p.den = 2, 3
	case 3:
		p.num, p.den = 1, 1
	}
	p.budget = 1 + c.Draw("fault-budget", 14)
	switch c.Draw("sticky", 4) {
	case 2:
		p.sticky = 1
	case 3:
		p.sticky = 2
	}
	c.Logf("plan: faults on kinds=%v rate=%d/%d budget=%d sticky=%d", p.kinds, p.num, p.den, p.budget, p.sticky)
	return p
}

// ---------------------------------------------------------------------------
// simulated network

type verifNet struct {
	c       *verifsim.Ctx
	plan    *verifPlan
	content []byte
	sha     string
	target  string
	partial string
	junk    uint64

	call        int
	reqs        int // transport round trips in this call (redirect hops included)
	logical     int // requests as issued by snapd in this call
	faultsCall  int // faults fired in this call
	pending     []string
	havePending bool
	maxPartial  int64
	truncated   bool
	served206   bool
	ignored200  bool
	redirects   int
	// snapd asked to resume from beyond the declared size: the partial grew
	// past it from data received during this very call (a partial that is
	// already that long when Download starts never leads to a request)
	beyondAsked bool

	sticky       []string       // faults every remaining attempt of this call gets
	throttle     *verifThrottle // frozen parameters of a sticky throttle
	lastThrottle bool           // the latest request was answered 429/503 with Retry-After
}

type verifThrottle struct {
	code int
	ra   int // 0 no Retry-After, 1 "1", 2 "120", 3 HTTP-date
}

func (n *verifNet) newCall(i int) {
	n.call = i
	n.reqs, n.logical, n.faultsCall, n.redirects = 0, 0, 0, 0
	n.sticky, n.throttle, n.lastThrottle = nil, nil, false
	n.pending, n.havePending = nil, false
	n.maxPartial = verifFileSize(n.partial)
	n.truncated, n.served206, n.ignored200, n.beyondAsked = false, false, false, false
}

func (n *verifNet) fire(kind string) {
	n.c.Count("fault:" + kind)
	n.faultsCall++
	n.c.Nontrivial()
}

func (n *verifNet) junkBytes(k int) []byte {
	n.junk++
	return verifBytes(n.junk*7919+13, k)
}

// checkTarget is the "no wrong file at the target at any point during the
// call" part of the oracle; it runs at every round trip and every body read.
func (n *verifNet) checkTarget(where string) {
	n.c.Count("midcall-target-checks")
	fi, err := os.Lstat(n.target)
	if err != nil {
		return
	}
	n.c.Count("midcall-target-present")
	if !n.c.Active("C31") {
		return
	}
	if !fi.Mode().IsRegular() {
		n.c.Violate("C31/wrong-digest-during-call", "call %d, at %s: target path holds a non-regular file (%v) while the download is in progress", n.call, where, fi.Mode())
		return
	}
	data, _ := os.ReadFile(n.target)
	if verifSha(data) != n.sha {
		n.c.Violate("C31/wrong-digest-during-call", "call %d, at %s: a file of %d bytes whose SHA3-384 is not the expected one exists at the target path while the download is still in progress (expected size %d)", n.call, where, len(data), len(n.content))
	}
}

// wait lets d of simulated time pass unless ctx ends first. Two timers of the
// bubble that expire at the same simulated instant (this one and the
// deadline of ctx, say) are delivered in an order the tape does not control,
// so: all simulated durations of the engine are chosen with odd residues that
// make such coincidences practically impossible, and after waking up the
// other goroutines are allowed to settle and ctx wins.
func (n *verifNet) wait(ctx context.Context, d time.Duration) error {
	if d <= 0 {
		return ctx.Err()
	}
	t := time.NewTimer(d)
	select {
	case <-t.C:
	case <-ctx.Done():
	}
	t.Stop()
	synctest.Wait()
	return ctx.Err()
}

func (n *verifNet) drawFaults() []string {
	p := n.plan
	if p.on && n.sticky != nil {
		n.c.Count("sticky-repeats")
		return n.sticky
	}
	if !p.on || len(p.kinds) == 0 || p.fired >= p.budget {
		return nil
	}
	if !n.c.Chance("fault?", p.num, p.den) {
		return nil
	}
	p.fired++
	k := p.kinds[n.c.Draw("fault-kind", len(p.kinds))]
	fs := []string{k}
	// faults compose (a corrupted body that is also cut short, ...)
	if len(p.kinds) > 1 && n.c.Chance("fault2?", 1, 2) {
		k2 := p.kinds[n.c.Draw("fault-kind2", len(p.kinds))]
		if k2 != k {
			fs = append(fs, k2)
		}
		if n.c.Chance("fault3?", 1, 3) {
			k3 := p.kinds[n.c.Draw("fault-kind3", len(p.kinds))]
			if k3 != k && k3 != k2 {
				fs = append(fs, k3)
			}
		}
	}
	switch p.sticky {
	case 1:
		n.sticky = fs
	case 2:
		n.sticky = []string{"throttle"}
	}
	return fs
}

func (n *verifNet) resp(req *http.Request, code int, hdr http.Header, body io.ReadCloser, cl int64) *http.Response {
	if hdr == nil {
		hdr = http.Header{}
	}
	if cl >= 0 {
		hdr.Set("Content-Length", strconv.FormatInt(cl, 10))
	}
	return &http.Response{
		Status: fmt.Sprintf("%d %s", code, http.StatusText(code)), StatusCode: code,
		Proto: "HTTP/1.1", ProtoMajor: 1, ProtoMinor: 1,
		Header: hdr, Body: body, ContentLength: cl, Request: req,
	}
}

func (n *verifNet) plainBody(req *http.Request, s string) *verifBody {
	return &verifBody{n: n, ctx: req.Context(), data: []byte(s), limit: -1, cutAt: -1, stallAt: -1}
}

func (n *verifNet) redirectTo(req *http.Request, hopsLeft int) *http.Response {
	codes := []int{302, 301, 303, 307, 308}
	code := codes[n.c.Draw("redirect-code", len(codes))]
	loc := fmt.Sprintf("http://cdn.sim.invalid/hop/%d", hopsLeft)
	n.redirects++
	n.c.Logf("  call%d rt%d %s -> %d Location: %s", n.call, n.reqs, req.URL.Path, code, loc)
	return n.resp(req, code, http.Header{"Location": []string{loc}}, n.plainBody(req, "moved"), 5)
}

func (n *verifNet) RoundTrip(req *http.Request) (*http.Response, error) {
	n.reqs++
	n.c.Count("round-trips")
	n.checkTarget("request")
	if err := req.Context().Err(); err != nil {
		n.c.Logf("  call%d rt%d %s -> context already done (%v)", n.call, n.reqs, req.URL.Path, err)
		return nil, err
	}
	if rh := req.Header.Get("Range"); strings.HasPrefix(rh, "bytes=") {
		if v, err := strconv.Atoi(strings.TrimSuffix(strings.TrimPrefix(rh, "bytes="), "-")); err == nil && v > len(n.content) && !n.beyondAsked {
			n.beyondAsked = true
			n.c.Count("probe:resume-offset-beyond-declared-size-requested")
		}
	}
	psize := verifFileSize(n.partial)
	if psize >= 0 && psize < n.maxPartial && !n.truncated {
		n.truncated = true
		n.c.Count("probe:truncate-and-restart")
	}
	if psize > n.maxPartial {
		n.maxPartial = psize
	}
	if psize > int64(len(n.content)) {
		n.c.Count("probe:partial-longer-than-declared-size-midcall")
	}

	path := req.URL.Path
	if strings.HasPrefix(path, "/hop/") {
		k, _ := strconv.Atoi(strings.TrimPrefix(path, "/hop/"))
		if k > 0 {
			return n.redirectTo(req, k-1), nil
		}
		fs := n.pending
		n.pending, n.havePending = nil, false
		return n.serve(req, fs, psize)
	}
	if path != verifDLPath {
		n.c.Fatalf("unexpected request path %q", path)
	}
	n.logical++
	n.lastThrottle = false
	n.c.Count("requests")
	fs := n.drawFaults()
	hops := 0
	for _, f := range fs {
		if f == "redirect-bad" {
			n.fire("redirect-bad")
			code := []int{302, 307}[n.c.Draw("redirect-bad-code", 2)]
			n.c.Logf("  call%d rt%d %s range=%q partial=%d -> %d without Location", n.call, n.reqs, path, req.Header.Get("Range"), psize, code)
			return n.resp(req, code, nil, n.plainBody(req, "moved"), 5), nil
		}
		if f == "redirect-loop" {
			n.fire("redirect-loop")
			hops = []int{11, 10, 15}[n.c.Draw("redirect-loop-hops", 3)]
			break
		}
	}
	if hops == 0 && n.c.Draw("cdn-redirect", 4) == 3 {
		hops = 1 + n.c.Draw("cdn-hops", 3)
	}
	if hops > 0 {
		n.pending, n.havePending = fs, true
		n.c.Logf("  call%d rt%d %s range=%q partial=%d -> redirect chain of %d", n.call, n.reqs, path, req.Header.Get("Range"), psize, hops)
		return n.redirectTo(req, hops-1), nil
	}
	return n.serve(req, fs, psize)
}

func (n *verifNet) serve(req *http.Request, faults []string, psize int64) (*http.Response, error) {
	c := n.c
	rangeHdr := req.Header.Get("Range")
	pfx := fmt.Sprintf("  call%d rt%d %s range=%q partial=%d faults=%v ->", n.call, n.reqs, req.URL.Path, rangeHdr, psize, faults)
	has := func(k string) bool {
		for _, f := range faults {
			if f == k {
				return true
			}
		}
		return false
	}
	if n.redirects > 0 {
		c.Count("probe:redirect-followed-to-final-hop")
	}

	// request-level faults: the first one listed wins
	for _, f := range faults {
		if !verifReqLevel[f] {
			continue
		}
		switch f {
		case "refuse":
			n.fire(f)
			c.Logf("%s connection refused", pfx)
			return nil, &net.OpError{Op: "dial", Net: "tcp", Err: &os.SyscallError{Syscall: "connect", Err: syscall.ECONNREFUSED}}
		case "reset":
			n.fire(f)
			c.Logf("%s connection reset before response", pfx)
			return nil, &net.OpError{Op: "read", Net: "tcp", Err: &os.SyscallError{Syscall: "read", Err: syscall.ECONNRESET}}
		case "req-timeout":
			n.fire(f)
			d := []time.Duration{0, 10300 * time.Millisecond, 75100 * time.Millisecond}[c.Draw("req-timeout-after", 3)]
			c.Logf("%s no response, times out after %v", pfx, d)
			if err := n.wait(req.Context(), d); err != nil {
				return nil, err
			}
			return nil, verifTimeoutErr{"awaiting headers"}
		case "dns":
			n.fire(f)
			c.Logf("%s no such host", pfx)
			return nil, &net.OpError{Op: "dial", Net: "tcp", Err: &net.DNSError{Err: "no such host", Name: "sim.invalid", IsNotFound: true}}
		case "req-fatal":
			n.fire(f)
			c.Logf("%s fatal transport error", pfx)
			return nil, errors.New("sim tls: handshake failure")
		case "http-5xx":
			n.fire(f)
			code := []int{503, 500, 502, 504}[c.Draw("5xx-code", 4)]
			c.Logf("%s %d", pfx, code)
			return n.resp(req, code, nil, n.plainBody(req, "server trouble"), 14), nil
		case "throttle":
			n.fire(f)
			tp := n.throttle
			if tp == nil {
				tp = &verifThrottle{code: []int{503, 429}[c.Draw("throttle-code", 2)], ra: c.Draw("retry-after", 4)}
				if n.sticky != nil {
					n.throttle = tp
				}
			}
			hdr := http.Header{}
			switch tp.ra {
			case 1:
				hdr.Set("Retry-After", "1")
			case 2:
				hdr.Set("Retry-After", "120")
			case 3:
				hdr.Set("Retry-After", time.Now().Add(97*time.Second).UTC().Format(http.TimeFormat))
			}
			n.lastThrottle = tp.ra != 0
			c.Logf("%s %d Retry-After=%q", pfx, tp.code, hdr.Get("Retry-After"))
			return n.resp(req, tp.code, hdr, n.plainBody(req, "come back later"), 15), nil
		case "http-4xx":
			n.fire(f)
			code := []int{404, 400, 401, 402, 403, 410, 416, 429}[c.Draw("4xx-code", 8)]
			c.Logf("%s %d", pfx, code)
			return n.resp(req, code, nil, n.plainBody(req, "client trouble"), 14), nil
		}
	}

	// which bytes does the server mean to send
	full := n.content
	start := -1
	if strings.HasPrefix(rangeHdr, "bytes=") && strings.HasSuffix(rangeHdr, "-") {
		v, err := strconv.Atoi(strings.TrimSuffix(strings.TrimPrefix(rangeHdr, "bytes="), "-"))
		if err == nil {
			start = v
		}
	} else if rangeHdr != "" {
		c.Fatalf("unexpected Range header %q", rangeHdr)
	}
	code, off := 200, 0
	if start >= 0 {
		// both are legitimate servers: one that honours Range, one that
		// ignores it and sends the whole file with 200
		if c.Draw("range-ignored", 3) == 2 {
			n.ignored200 = true
			c.Count("range-ignored-200")
		} else if start >= len(full) {
			c.Count("range-unsatisfiable-416")
			c.Logf("%s 416 (range starts at or beyond the end)", pfx)
			return n.resp(req, 416, http.Header{"Content-Range": []string{fmt.Sprintf("bytes */%d", len(full))}}, n.plainBody(req, ""), 0), nil
		} else {
			code, off = 206, start
			n.served206 = true
			c.Count("range-honoured-206")
		}
	}
	if has("wrong-range") {
		n.fire("wrong-range")
		code = 206
		off = c.Draw("wrong-range-offset", len(full)+1)
	}
	data := full[off:]
	desc := fmt.Sprintf("%d from offset %d", code, off)
	owned := false
	own := func() {
		if !owned {
			data = append([]byte(nil), data...)
			owned = true
		}
	}
	if has("garbage") {
		n.fire("garbage")
		glen := c.Draw("garbage-len", 2*len(full)+2)
		if c.Draw("garbage-same-len", 3) == 2 {
			glen = len(data)
		}
		data = n.junkBytes(glen)
		owned = true
		desc += fmt.Sprintf(", unrelated body of %d bytes", glen)
	}
	if has("corrupt") && len(data) > 0 {
		n.fire("corrupt")
		own()
		nflip := 1 + c.Draw("corrupt-count", 3)
		for i := 0; i < nflip; i++ {
			at := c.Draw("corrupt-at", len(data))
			data[at] ^= byte(1 + c.Draw("corrupt-xor", 255))
			desc += fmt.Sprintf(", byte %d altered", at)
		}
	}
	if has("extra") {
		n.fire("extra")
		own()
		k := 1 + c.Draw("extra-len", len(full)+64)
		data = append(data, n.junkBytes(k)...)
		desc += fmt.Sprintf(", %d extra bytes appended", k)
	}
	if has("truncate") && len(data) > 0 {
		n.fire("truncate")
		k := c.Draw("truncate-at", len(data))
		data = data[:k]
		desc += fmt.Sprintf(", ends cleanly after %d bytes", k)
	}
	body := &verifBody{n: n, ctx: req.Context(), data: data, limit: -1, cutAt: -1, stallAt: -1}
	if has("cut") {
		body.cutAt = c.Draw("cut-at", len(data)+1)
		switch c.Draw("cut-err", 5) {
		case 0:
			body.cutErr = io.ErrUnexpectedEOF
		case 1:
			body.cutErr = &net.OpError{Op: "read", Net: "tcp", Err: &os.SyscallError{Syscall: "read", Err: syscall.ECONNRESET}}
		case 2:
			body.cutErr = verifTimeoutErr{"reading body"}
		case 3:
			body.cutErr = errors.New("sim stream error: stream ID 1; PROTOCOL_ERROR")
		case 4:
			body.cutErr = errors.New("sim tls: bad record MAC")
		}
		desc += fmt.Sprintf(", connection breaks after %d bytes with %q", body.cutAt, body.cutErr.Error())
	}
	if has("stall") {
		body.stallAt = c.Draw("stall-at", len(data)+1)
		body.stallDur = []time.Duration{20100 * time.Millisecond, 100300 * time.Millisecond, 301700 * time.Millisecond, 660900 * time.Millisecond}[c.Draw("stall-for", 4)]
		desc += fmt.Sprintf(", stalls %v after %d bytes", body.stallDur, body.stallAt)
	}
	switch c.Draw("chunk", 4) {
	case 0:
		body.chunk = 1 << 30
	case 1:
		body.chunk = 4096
	case 2:
		body.chunk = 1 + c.Draw("chunk-size", 700)
	case 3:
		body.chunk = 1 + c.Draw("chunk-size-big", 70000)
	}
	// at most ~48 reads per body: every read costs an lstat of the target and
	// a write to the partial file
	if floor := len(data) / 48; body.chunk < floor {
		body.chunk = floor
	}
	if has("drip") {
		body.drip = []time.Duration{1003 * time.Millisecond, 40700 * time.Millisecond}[c.Draw("drip-delay", 2)]
		if len(data) > 40 {
			body.chunk = verifMin(body.chunk, 1+len(data)/(4+c.Draw("drip-reads", 40)))
		}
		desc += fmt.Sprintf(", %v pause before every read of <=%d bytes", body.drip, body.chunk)
	}
	cl := int64(len(data))
	if has("bad-length") {
		n.fire("bad-length")
		// what a real transport does with a wrong Content-Length: the body
		// ends cleanly after that many bytes, or with unexpected EOF if the
		// data is shorter
		body.limit = c.Draw("declared-length", 2*len(data)+2)
		cl = int64(body.limit)
		desc += fmt.Sprintf(", declares Content-Length %d for %d bytes", cl, len(data))
	} else if c.Draw("no-content-length", 4) == 3 {
		cl = -1
		desc += ", no Content-Length"
	}
	hdr := http.Header{}
	if code == 206 {
		hdr.Set("Content-Range", fmt.Sprintf("bytes %d-%d/%d", off, len(full)-1, len(full)))
	}
	c.Logf("%s %s (%d bytes to send)", pfx, desc, len(data))
	return n.resp(req, code, hdr, body, cl), nil
}

type verifBody struct {
	n        *verifNet
	ctx      context.Context
	data     []byte
	pos      int
	chunk    int
	limit    int // declared Content-Length enforced the way net/http does; -1 none
	cutAt    int
	cutErr   error
	cutFired bool
	stallAt  int
	stallDur time.Duration
	stalled  bool
	drip     time.Duration
	dripped  bool
	closed   bool
}

func (b *verifBody) Read(p []byte) (int, error) {
	b.n.checkTarget("body read")
	if b.closed {
		return 0, errors.New("sim: read on closed response body")
	}
	if err := b.ctx.Err(); err != nil {
		return 0, err
	}
	if len(p) == 0 {
		return 0, nil
	}
	if b.stallAt >= 0 && !b.stalled && b.pos >= b.stallAt {
		b.stalled = true
		b.n.fire("stall")
		if err := b.n.wait(b.ctx, b.stallDur); err != nil {
			b.n.c.Logf("    body: stall interrupted at %d: %v", b.pos, err)
			return 0, err
		}
	}
	if b.drip > 0 {
		if !b.dripped {
			b.dripped = true
			b.n.fire("drip")
		}
		if err := b.n.wait(b.ctx, b.drip); err != nil {
			b.n.c.Logf("    body: drip interrupted at %d: %v", b.pos, err)
			return 0, err
		}
	}
	end := len(b.data)
	if b.limit >= 0 && b.limit < end {
		end = b.limit
	}
	if b.cutAt >= 0 && b.pos >= b.cutAt {
		if !b.cutFired {
			b.cutFired = true
			b.n.fire("cut")
		}
		return 0, b.cutErr
	}
	if b.pos >= end {
		if b.limit > len(b.data) {
			return 0, io.ErrUnexpectedEOF
		}
		return 0, io.EOF
	}
	k := verifMin(len(p), end-b.pos)
	if b.chunk > 0 {
		k = verifMin(k, b.chunk)
	}
	if b.cutAt >= 0 {
		k = verifMin(k, b.cutAt-b.pos)
	}
	if b.stallAt > b.pos && !b.stalled {
		k = verifMin(k, b.stallAt-b.pos)
	}
	copy(p, b.data[b.pos:b.pos+k])
	b.pos += k
	return k, nil
}

func (b *verifBody) Close() error {
	b.closed = true
	return nil
}

// ---------------------------------------------------------------------------
// one run

func verifDescribePartial(path string, content []byte) string {
	data, err := os.ReadFile(path)
	if err != nil {
		return "absent"
	}
	rel := "differs from the content"
	switch {
	case len(data) == 0:
		rel = "empty"
	case len(data) <= len(content) && bytes.Equal(data, content[:len(data)]):
		rel = "correct prefix"
		if len(data) == len(content) {
			rel = "complete and correct"
		}
	case len(data) > len(content) && bytes.Equal(data[:len(content)], content):
		rel = "content plus tail"
	}
	return fmt.Sprintf("%d bytes, %s", len(data), rel)
}

// verifWritePartial synthesises the partial file "a previous attempt left
// behind"; kind 0 = none.
func verifWritePartial(c *verifsim.Ctx, n *verifNet, kind int) {
	size := len(n.content)
	os.Remove(n.partial)
	var data []byte
	switch kind {
	case 0:
		return
	case 1:
		data = []byte{}
	case 2: // correct prefix
		if size > 1 {
			data = append([]byte(nil), n.content[:1+c.Draw("partial-len", size-1)]...)
		} else {
			data = []byte{}
		}
	case 3: // wrong prefix
		k := 1
		if size > 1 {
			k = 1 + c.Draw("partial-len", size-1)
		}
		if c.Draw("partial-wrong-how", 2) == 0 {
			data = append([]byte(nil), n.content[:k]...)
			data[c.Draw("partial-flip-at", k)] ^= 0x5a
		} else {
			data = n.junkBytes(k)
		}
	case 4: // complete and correct
		data = append([]byte(nil), n.content...)
	case 5: // complete size, wrong content
		data = append([]byte(nil), n.content...)
		data[c.Draw("partial-flip-at", size)] ^= 0xa5
	case 6: // over-long: content plus tail
		data = append(append([]byte(nil), n.content...), n.junkBytes(1+c.Draw("partial-tail", 200))...)
	case 7: // over-long junk
		data = n.junkBytes(size + 1 + c.Draw("partial-tail", 200))
	}
	if err := os.WriteFile(n.partial, data, 0600); err != nil {
		c.Fatalf("cannot write partial: %v", err)
	}
}

func verifRunC31(c *verifsim.Ctx) {
	verifC31Setup()
	t0 := time.Now()
	root, err := os.MkdirTemp(verifC31Base, "verifdl-")
	if err != nil {
		c.Fatalf("mkdtemp: %v", err)
	}
	defer os.RemoveAll(root)
	dirs.SetRootDir(root)
	defer dirs.SetRootDir("")

	// the snap: content with declared size (>= 1) and digest
	size := 1
	switch c.Draw("size-class", 4) {
	case 0:
		size = 1 + c.Draw("size", 16)
	case 1:
		size = 1 + c.Draw("size", 4096)
	case 2:
		size = 1 + c.Draw("size", 40000)
	case 3:
		size = 1 + c.Draw("size", 200000)
	}
	cseed := uint64(c.Draw("content-seed", 1<<20))
	content := verifBytes(cseed, size)
	sha := verifSha(content)
	c.Logf("snap: size=%d content-seed=%d sha3-384=%s...", size, cseed, sha[:12])

	plan := verifDrawPlan(c)
	targetDir := filepath.Join(root, "dl")
	if err := os.MkdirAll(targetDir, 0755); err != nil {
		c.Fatalf("mkdir: %v", err)
	}
	target := filepath.Join(targetDir, "foo_7.snap")
	vnet := &verifNet{c: c, plan: plan, content: content, sha: sha, target: target, partial: target + ".partial", junk: cseed}

	restore := store.MockHttputilNewHTTPClient(func(opts *httputil.ClientOptions) *http.Client {
		// the real client (Timeout, CheckRedirect) with only the transport replaced
		cli := httputil.NewHTTPClient(opts)
		cli.Transport = vnet
		return cli
	})
	defer restore()

	sto := store.New(&store.Config{}, nil)
	cacheOn := c.Draw("download-cache", 2) == 1
	if cacheOn {
		sto.SetCacheDownloads(1 + c.Draw("cache-items", 3))
	}
	c.Logf("store: download cache on=%v", cacheOn)

	ncalls := 1 + c.Draw("more-calls", 3)
	prevLeft := false
	for call := 0; call < ncalls; call++ {
		// the partial file a previous attempt left behind
		if call == 0 {
			verifWritePartial(c, vnet, c.Draw("partial", 8))
		} else {
			switch c.Draw("partial-between-calls", 4) {
			case 0: // whatever the previous call left
			case 1:
				os.Remove(vnet.partial)
				prevLeft = false
			case 2, 3:
				verifWritePartial(c, vnet, 1+c.Draw("partial", 7))
				prevLeft = false
			}
			if cacheOn && c.Draw("cache-evicted", 2) == 1 {
				os.Remove(filepath.Join(dirs.SnapDownloadCacheDir, sha))
			}
		}
		pstart := verifFileSize(vnet.partial)
		pdesc := verifDescribePartial(vnet.partial, content)
		if pstart >= 0 {
			c.Nontrivial()
		}
		if pstart > int64(size) {
			c.Count("probe:overlong-partial-at-start")
		}
		if prevLeft && pstart > 0 {
			c.Count("probe:resumes-partial-left-by-failed-call")
		}

		var opts *store.DownloadOptions
		leave := c.Draw("leave-partial-on-error", 3) == 2
		rate := []int64{0, 0, 0, 100000, 2000, 300}[c.Draw("rate-limit", 6)]
		sched := c.Draw("scheduled", 4) == 3
		if leave || rate > 0 || sched || c.Draw("opts-non-nil", 2) == 1 {
			opts = &store.DownloadOptions{LeavePartialOnError: leave, RateLimit: rate, Scheduled: sched}
		}
		ctx := context.Background()
		cancel := func() {}
		ctxDesc := "background"
		if c.Draw("caller-cancels", 8) == 7 {
			d := []time.Duration{0, 300700*time.Microsecond + 137, 5300*time.Millisecond + 137, 40900*time.Millisecond + 137, 250300*time.Millisecond + 137}[c.Draw("cancel-after", 5)]
			if d == 0 {
				ctx, cancel = context.WithCancel(ctx)
				cancel()
			} else {
				ctx, cancel = context.WithTimeout(ctx, d)
			}
			ctxDesc = fmt.Sprintf("cancelled after %v", d)
		}
		di := &snap.DownloadInfo{DownloadURL: verifDLHost + verifDLPath, Size: int64(size), Sha3_384: sha}
		vnet.newCall(call)
		c.Logf("call%d: partial before: %s; opts=%+v ctx=%s", call, pdesc, opts, ctxDesc)

		tcall := time.Now()
		derr := sto.Download(ctx, "foo", target, di, nil, nil, opts)
		cancel()
		elapsed := time.Since(tcall)

		// ---- oracle ----
		c.Count("downloads")
		fi, lerr := os.Lstat(target)
		var got []byte
		if lerr == nil && fi.Mode().IsRegular() {
			got, _ = os.ReadFile(target)
		}
		errText := "<nil>"
		if derr != nil {
			errText = strings.ReplaceAll(derr.Error(), root, "$ROOT")
		}
		c.Logf("call%d: Download returned %s after %v simulated, %d round trips; target=%d bytes, partial after: %s",
			call, errText, elapsed, vnet.reqs, verifFileSize(target), verifDescribePartial(vnet.partial, content))
		if c.Active("C31") {
			switch {
			case derr == nil && lerr != nil:
				c.Violate("C31/success-no-target", "call %d: Download reported success but there is no file at the target path (%v)", call, strings.ReplaceAll(lerr.Error(), root, "$ROOT"))
			case derr == nil && !fi.Mode().IsRegular():
				c.Violate("C31/success-no-target", "call %d: Download reported success but the target path holds a non-regular file (%v)", call, fi.Mode())
			case derr == nil && verifSha(got) != sha:
				class := "C31/success-wrong-digest"
				how := fmt.Sprintf("target has %d bytes, declared size %d", len(got), size)
				if len(got) > size && bytes.Equal(got[:size], content) && vnet.beyondAsked {
					// the expected content followed by bytes that a response
					// of this very call wrote beyond the declared size
					class = "C31/success-stale-tail-after-overlong-response"
					how = fmt.Sprintf("target is the expected %d bytes followed by %d stale bytes which an earlier response of this call had written beyond the declared size before its connection broke; the retry asked for a range starting beyond the declared size, did not get a 206, restarted from offset 0 without truncating the partial file and accepted the (correct, shorter) body by its digest alone", size, len(got)-size)
				}
				c.Violate(class, "call %d: Download reported success but the SHA3-384 of the file at the target path is not the expected one: %s", call, how)
			case derr != nil && lerr == nil:
				right := fi.Mode().IsRegular() && verifSha(got) == sha
				c.Violate("C31/failure-leaves-target", "call %d: Download failed (%s) but left a file at the target path (%d bytes, digest matches: %v)", call, errText, fi.Size(), right)
			}
		}

		// ---- probes ----
		if derr == nil {
			c.Count("outcome:success")
			if vnet.reqs == 0 {
				if cacheOn && call > 0 && pstart != int64(size) {
					c.Count("probe:cache-hit")
				} else if pstart == int64(size) {
					c.Count("probe:complete-partial-accepted-without-request")
				} else if cacheOn {
					c.Count("probe:cache-hit")
				}
			}
			if vnet.faultsCall > 0 {
				c.Count("probe:success-after-faults")
			}
			if vnet.served206 {
				c.Count("probe:success-with-resume-206")
			}
			if vnet.ignored200 {
				c.Count("probe:success-with-range-ignored")
			}
			if vnet.truncated {
				c.Count("probe:success-after-truncate-and-restart")
			}
			if pstart >= int64(size) && vnet.reqs > 0 {
				c.Count("probe:success-from-bad-complete-or-overlong-partial")
			}
		} else {
			c.Count("outcome:failure")
			var he store.HashError
			var de *store.DownloadError
			switch {
			case errors.As(derr, &he):
				c.Count("probe:fails-with-hash-error")
			case errors.As(derr, &de):
				c.Count("probe:fails-with-http-status")
			case strings.Contains(errText, "download too slow"):
				c.Count("probe:speed-monitor-cancels")
			case strings.Contains(errText, "has been cancelled"):
				c.Count("probe:caller-cancel-observed")
			case strings.Contains(errText, "stopped after 10 redirects"):
				c.Count("probe:redirect-limit")
			}
			if vnet.logical >= 7 {
				c.Count("probe:retries-exhausted")
				if vnet.lastThrottle {
					c.Count("probe:retries-exhausted-last-answer-throttled-with-retry-after")
				}
			}
			if vnet.lastThrottle && vnet.logical < 7 {
				c.Count("probe:fails-on-429-with-retry-after")
			}
			if verifFileSize(vnet.partial) > 0 {
				c.Count("probe:failed-call-leaves-partial")
			}
		}
		prevLeft = derr != nil && verifFileSize(vnet.partial) > 0

		// pre-existing target files are outside the property's quantifier:
		// clear the target before the next call (the cache keeps its link)
		os.Remove(target)
		if len(c.Violations) > 0 {
			break
		}
	}
	c.SimTime = time.Since(t0)
}
