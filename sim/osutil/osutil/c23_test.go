package osutil_test

// C23: security profile files are synchronized exactly and fail closed.
//
// One run = one scratch directory (flat or tree) that is populated from the
// tape, then synchronized 1-3 times with the real EnsureDirState /
// EnsureDirStateGlobs / EnsureTreeState / EnsureFileState, with drift of the
// directory between the rounds. Desired content goes through the real
// MemoryFileState / FileReference / FileReferencePlusMode / SymlinkFileState
// wrapped in a fault injecting FileState. The oracle only looks at the
// directory before and after each call (lstat view), at the returned lists
// and error, and at which faults fired.

import (
	"errors"
	"fmt"
	"hash/fnv"
	"io"
	"math/rand"
	"os"
	"path/filepath"
	"sort"
	"strings"
	"syscall"
	"unsafe"

	"github.com/snapcore/snapd/internal/verifsim"
	"github.com/snapcore/snapd/osutil"
	"github.com/snapcore/snapd/randutil"
)

var verifEngineC23 = &verifsim.Engine{
	Name:   "osutil",
	Bubble: false,
	Run:    verifRunC23,
	Real: []string{
		"osutil.EnsureDirState, EnsureDirStateGlobs, EnsureTreeState, EnsureFileState (unmodified)",
		"osutil.MemoryFileState, FileReference, FileReferencePlusMode, SymlinkFileState",
		"osutil.AtomicWrite, AtomicSymlink, AtomicRename, streamsEqualChunked",
		"real file system syscalls on a per-run scratch directory (ext4, immutable inode flag for EPERM)",
	},
	Stubs: []string{
		"FileState wrapper around the real states: State() failing at its k-th call, reader failing after n bytes, short reads",
		"environment obstacles placed by the simulator: directory or symlink-to-directory squatting on a desired name, non-empty directory matching the patterns, immutable file / immutable directory (chattr +i), over-long name (temp name exceeds NAME_MAX), missing reference source, unsupported mode, missing target directory, regular file squatting on a sub-directory path",
		"interfaces/apparmor and interfaces/seccomp backends are not run (only the osutil primitives they call)",
		"fsync is bypassed by snapd itself in test binaries (SNAPD_UNSAFE_IO)",
	},
}

var verifErrInjected = errors.New("verif: injected fault")

// ---------------------------------------------------------------------------
// one-time process setup

var (
	verifInitDone    bool
	verifImmutableOK bool
	// verifScratchBase is where the per-run scratch roots are made. The
	// driver's binary is not named like a go test binary, so snapd really
	// fsyncs (3 ms per call on the ext4 scratch disk, and slow unlinks after
	// it); a tmpfs keeps the same code path at memory speed. Falls back to
	// TMPDIR.
	verifScratchBase string
)

func verifPickScratch() {
	if v := os.Getenv("VERIF_C23_SCRATCH"); v != "" {
		verifScratchBase = v
		os.MkdirAll(v, 0755)
		return
	}
	const shm = "/dev/shm"
	var st syscall.Statfs_t
	if syscall.Statfs(shm, &st) != nil || st.Type != 0x01021994 /* TMPFS_MAGIC */ {
		return
	}
	top := filepath.Join(shm, "verif-osutil-c23")
	if os.MkdirAll(top, 0755) != nil {
		return
	}
	// sweep what dead workers left behind
	ents, _ := os.ReadDir(top)
	for _, e := range ents {
		var pid int
		if _, err := fmt.Sscanf(e.Name(), "pid%d", &pid); err == nil && pid > 0 && syscall.Kill(pid, 0) == syscall.ESRCH {
			p := filepath.Join(top, e.Name())
			filepath.Walk(p, func(q string, fi os.FileInfo, err error) error {
				if err == nil {
					verifSetImmutable(q, false)
				}
				return nil
			})
			os.RemoveAll(p)
		}
	}
	mine := filepath.Join(top, fmt.Sprintf("pid%d", os.Getpid()))
	if os.MkdirAll(mine, 0755) == nil {
		verifScratchBase = mine
	}
}

func verifSetImmutable(path string, on bool) error {
	f, err := os.Open(path)
	if err != nil {
		return err
	}
	defer f.Close()
	var attr uint64
	if _, _, e := syscall.Syscall(syscall.SYS_IOCTL, f.Fd(), 0x80086601 /* FS_IOC_GETFLAGS */, uintptr(unsafe.Pointer(&attr))); e != 0 {
		return e
	}
	if on {
		attr |= 0x10 // FS_IMMUTABLE_FL
	} else {
		attr &^= 0x10
	}
	if _, _, e := syscall.Syscall(syscall.SYS_IOCTL, f.Fd(), 0x40086602 /* FS_IOC_SETFLAGS */, uintptr(unsafe.Pointer(&attr))); e != 0 {
		return e
	}
	return nil
}

func verifInit() {
	if verifInitDone {
		return
	}
	verifInitDone = true
	// burn randutil's one-time reseed so that rand.Seed below sticks
	randutil.RandomDuration(1)
	syscall.Umask(0022)
	verifPickScratch()
	d, err := os.MkdirTemp(verifScratchBase, "verifc23probe")
	if err != nil {
		return
	}
	defer os.RemoveAll(d)
	p := filepath.Join(d, "f")
	if os.WriteFile(p, []byte("x"), 0644) != nil {
		return
	}
	if verifSetImmutable(p, true) == nil {
		if os.Remove(p) != nil {
			verifImmutableOK = true
		}
		verifSetImmutable(p, false)
	}
}

// ---------------------------------------------------------------------------
// small helpers

// verifGlobMatch: '*' any sequence, '?' one character, the rest literal.
// Written independently of path/filepath (the patterns used here have no
// character classes and names have no separators).
func verifGlobMatch(pat, name string) bool {
	p, n := 0, 0
	starP, starN := -1, 0
	for n < len(name) {
		if p < len(pat) && pat[p] != '*' && (pat[p] == '?' || pat[p] == name[n]) {
			p++
			n++
			continue
		}
		if p < len(pat) && pat[p] == '*' {
			starP, starN = p, n
			p++
			continue
		}
		if starP >= 0 {
			starN++
			n = starN
			p = starP + 1
			continue
		}
		return false
	}
	for p < len(pat) && pat[p] == '*' {
		p++
	}
	return p == len(pat)
}

func verifMatchAny(globs []string, base string) bool {
	for _, g := range globs {
		if verifGlobMatch(g, base) {
			return true
		}
	}
	return false
}

var verifLongName = "snap.foo." + strings.Repeat("x", 241) // 250 bytes: fits NAME_MAX, its temp name does not

func verifShort(rel string) string {
	if strings.HasSuffix(rel, verifLongName) {
		return strings.TrimSuffix(rel, verifLongName) + "snap.foo.<long250>"
	}
	return rel
}

var verifContentCache = map[string][]byte{}

// verifContent: variants 0/1 have the same length (forces a byte comparison),
// 2 is empty, 3/4 are exactly one compare chunk (16 KiB) and differ in the
// last byte, 5/6/7 span three chunks and differ in the first byte of the
// second chunk / the last byte.
func verifContent(name string, v int) []byte {
	key := fmt.Sprintf("%d/%s", v, name)
	if b, ok := verifContentCache[key]; ok {
		return b
	}
	var b []byte
	switch v {
	case 0, 1:
		b = []byte(fmt.Sprintf("# generated for %s variant %d\n", verifShort(name), v))
	case 2:
		b = []byte{}
	default:
		size := 16384
		if v >= 5 {
			size = 40000
		}
		b = make([]byte, size)
		for i := range b {
			b[i] = byte('a' + (i*7+len(name))%23)
		}
		switch v {
		case 4, 7:
			b[size-1] ^= 1
		case 6:
			b[16384] ^= 1
		}
	}
	if len(verifContentCache) < 4096 {
		verifContentCache[key] = b
	}
	return b
}

var verifContentWeights = []int{0, 0, 0, 0, 0, 1, 1, 1, 1, 2, 3, 4, 5, 6, 7, 3}
var verifModes = []os.FileMode{0644, 0600, 0755, 0444, 0700}

func verifDigest(b []byte) string {
	if len(b) <= 48 {
		return fmt.Sprintf("%q", b)
	}
	h := fnv.New64a()
	h.Write(b)
	return fmt.Sprintf("len%d:%016x", len(b), h.Sum64())
}

func verifFileDesc(perm os.FileMode, data []byte) string {
	return fmt.Sprintf("file:%04o:%s", perm.Perm(), verifDigest(data))
}

// ---------------------------------------------------------------------------
// fault injecting FileState

type verifState struct {
	inner        osutil.FileState
	calls        int
	failCall     int // State() fails at this call (1-based), 0 never
	readFailCall int // the reader handed out by this call fails ..., 0 never
	readFailAt   int // ... after this many bytes
	chunk        int // >0: reads return at most this many bytes
	pipeMode     bool

	firedState bool
	firedRead  bool
	firedShort bool
	opens      int
	closes     int
}

type verifReader struct {
	r      io.ReadCloser
	st     *verifState
	left   int // -1: never fails
	closed bool
}

func (r *verifReader) Read(p []byte) (int, error) {
	if r.left == 0 {
		r.st.firedRead = true
		return 0, verifErrInjected
	}
	if r.st.chunk > 0 && len(p) > r.st.chunk {
		p = p[:r.st.chunk]
		r.st.firedShort = true
	}
	if r.left > 0 && len(p) > r.left {
		p = p[:r.left]
	}
	n, err := r.r.Read(p)
	if r.left > 0 {
		r.left -= n
	}
	return n, err
}

func (r *verifReader) Close() error {
	if !r.closed {
		r.closed = true
		r.st.closes++
	}
	return r.r.Close()
}

func (s *verifState) State() (io.ReadCloser, int64, os.FileMode, error) {
	s.calls++
	if s.failCall == s.calls {
		s.firedState = true
		return nil, 0, 0, verifErrInjected
	}
	r, size, mode, err := s.inner.State()
	if err != nil {
		return nil, 0, 0, err
	}
	if s.pipeMode {
		mode = os.ModeNamedPipe | 0644
	}
	s.opens++
	vr := &verifReader{r: r, st: s, left: -1}
	if s.readFailCall == s.calls {
		vr.left = s.readFailAt
	}
	return vr, size, mode, nil
}

// ---------------------------------------------------------------------------
// desired state of one name

const (
	verifWantNone = iota
	verifWantMemory
	verifWantRef
	verifWantRefMode
	verifWantSymlink
)

type verifWant struct {
	kind   int
	data   []byte
	mode   os.FileMode
	target string
	bad    string // non-empty: the state can never be satisfied (real error out of snapd's own FileState code)
	fault  string // description of the injected fault, for the log
	st     *verifState
}

func (w *verifWant) desc() string {
	if w.kind == verifWantSymlink {
		return "link:" + strings.Replace(w.target, verifCurRoot, "<root>", 1)
	}
	return verifFileDesc(w.mode, w.data)
}

func (w *verifWant) String() string {
	k := []string{"none", "memory", "ref", "ref+mode", "symlink"}[w.kind]
	s := k + " " + w.desc()
	if w.bad != "" {
		s += " BAD(" + w.bad + ")"
	}
	if w.fault != "" {
		s += " FAULT(" + w.fault + ")"
	}
	return s
}

// ---------------------------------------------------------------------------
// snapshots

type verifSnap struct {
	direct   map[string]string // relpath -> lstat descriptor
	resolved map[string]string // symlinks only: descriptor of what they resolve to
	fullDir  map[string]bool   // directories with at least one entry
	size     map[string]int64  // regular files
}

// verifCurRoot is the scratch root of the current run; it is cut out of every
// descriptor because its name differs between executions.
var verifCurRoot string

func verifDescribeTree(path string) string {
	ents, _ := os.ReadDir(path)
	parts := []string{}
	for _, e := range ents {
		parts = append(parts, e.Name()+"="+verifDescribe(filepath.Join(path, e.Name())))
	}
	return "dir[" + strings.Join(parts, ",") + "]"
}

func verifDescribe(p string) string {
	fi, err := os.Lstat(p)
	if err != nil {
		return "error:" + fmt.Sprint(err.(*os.PathError).Err)
	}
	switch {
	case fi.IsDir():
		return verifDescribeTree(p)
	case fi.Mode()&os.ModeSymlink != 0:
		t, _ := os.Readlink(p)
		return "link:" + strings.Replace(t, verifCurRoot, "<root>", 1)
	case fi.Mode().IsRegular():
		b, err := os.ReadFile(p)
		if err != nil {
			return "unreadable"
		}
		return verifFileDesc(fi.Mode(), b)
	}
	return "other:" + fi.Mode().Type().String()
}

func verifResolve(p string) string {
	fi, err := os.Stat(p)
	if err != nil {
		return "dangling"
	}
	if fi.IsDir() {
		return "dir"
	}
	if fi.Mode().IsRegular() {
		b, err := os.ReadFile(p)
		if err != nil {
			return "unreadable"
		}
		return verifFileDesc(fi.Mode(), b)
	}
	return "other"
}

// verifSnapshot: flat mode records every entry of root (directories with a
// recursive descriptor); tree mode records every non-directory below root by
// relative path plus the directories whose name matches the patterns.
func verifSnapshot(root string, tree bool, managedBase func(string) bool) *verifSnap {
	s := &verifSnap{direct: map[string]string{}, resolved: map[string]string{}, fullDir: map[string]bool{}, size: map[string]int64{}}
	var walk func(rel string)
	walk = func(rel string) {
		ents, _ := os.ReadDir(filepath.Join(root, rel))
		for _, e := range ents {
			r := filepath.Join(rel, e.Name())
			p := filepath.Join(root, r)
			fi, err := os.Lstat(p)
			if err != nil {
				continue
			}
			if fi.IsDir() {
				sub, _ := os.ReadDir(p)
				if len(sub) > 0 {
					s.fullDir[r] = true
				}
				if !tree {
					s.direct[r] = verifDescribeTree(p)
					continue
				}
				if managedBase(e.Name()) {
					s.direct[r] = "dir"
				}
				walk(r)
				continue
			}
			s.direct[r] = verifDescribe(p)
			if fi.Mode().IsRegular() {
				s.size[r] = fi.Size()
			}
			if fi.Mode()&os.ModeSymlink != 0 {
				s.resolved[r] = verifResolve(p)
			}
		}
	}
	walk(".")
	return s
}

func verifSortedKeys(m map[string]string) []string {
	ks := make([]string, 0, len(m))
	for k := range m {
		ks = append(ks, k)
	}
	sort.Strings(ks)
	return ks
}

func (s *verifSnap) String() string {
	parts := []string{}
	for _, k := range verifSortedKeys(s.direct) {
		d := s.direct[k]
		if r, ok := s.resolved[k]; ok {
			d += "->" + r
		}
		parts = append(parts, verifShort(k)+"="+d)
	}
	return "{" + strings.Join(parts, " ") + "}"
}

// ---------------------------------------------------------------------------
// the world of one run

type verifWorld struct {
	c         *verifsim.Ctx
	root      string
	dir       string // the synchronized directory
	outside   string // symlink targets, must never change
	src       string // FileReference sources, must never change
	tree      bool
	globs     []string
	faultsOn  bool
	obstacles bool // directories / immutable files may sit on names matching the patterns
	immut     []string
	srcSeq    int
	dirGone   bool
}

func (w *verifWorld) managed(rel string) bool {
	return verifMatchAny(w.globs, filepath.Base(rel))
}

func (w *verifWorld) clearImmutable() {
	for i := len(w.immut) - 1; i >= 0; i-- {
		verifSetImmutable(w.immut[i], false)
	}
	w.immut = nil
}

func (w *verifWorld) setImmutable(p string) bool {
	if !verifImmutableOK {
		return false
	}
	if err := verifSetImmutable(p, true); err != nil {
		return false
	}
	w.immut = append(w.immut, p)
	return true
}

func (w *verifWorld) mustWrite(p string, data []byte, mode os.FileMode) {
	if err := os.MkdirAll(filepath.Dir(p), 0755); err != nil {
		w.c.Fatalf("mkdir for %s: %v", p, err)
	}
	if err := os.WriteFile(p, data, 0600); err != nil {
		w.c.Fatalf("write %s: %v", p, err)
	}
	if err := os.Chmod(p, mode); err != nil {
		w.c.Fatalf("chmod %s: %v", p, err)
	}
}

// outsideFile makes sure outside/<tag> exists with the given content and
// returns the link target to use from inside dir/<rel>.
func (w *verifWorld) outsideFile(tag string, data []byte, mode os.FileMode) string {
	p := filepath.Join(w.outside, tag)
	w.mustWrite(p, data, mode)
	return p
}

const (
	verifInitAbsent = iota
	verifInitFile
	verifInitDirEmpty
	verifInitDirFull
	verifInitLink
	verifInitImmutable
)

// place (re)creates dir/<rel> according to tape draws. want may be nil.
func (w *verifWorld) place(rel string, want *verifWant, label string) {
	c := w.c
	p := filepath.Join(w.dir, rel)
	os.RemoveAll(p)
	kindTab := []int{verifInitAbsent, verifInitAbsent, verifInitAbsent, verifInitAbsent, verifInitAbsent, verifInitFile, verifInitFile, verifInitFile, verifInitFile,
		verifInitFile, verifInitFile, verifInitLink, verifInitLink, verifInitDirEmpty, verifInitDirFull, verifInitImmutable}
	kind := kindTab[c.Draw(label+"-kind:"+verifShort(rel), len(kindTab))]
	managed := w.managed(rel)
	if !w.obstacles && (kind == verifInitImmutable || (managed && (kind == verifInitDirEmpty || kind == verifInitDirFull))) {
		kind = verifInitFile
	}
	if w.tree && kind == verifInitDirEmpty {
		// empty directories matching the patterns are left out of the tree
		// variant: whether EnsureTreeState re-creates and removes them
		// again depends on its map iteration order
		kind = verifInitDirFull
	}
	if w.tree && !managed && (kind == verifInitDirEmpty || kind == verifInitDirFull) {
		kind = verifInitFile
	}
	if len(filepath.Base(rel)) > 200 && kind != verifInitAbsent && kind != verifInitFile {
		kind = verifInitFile
	}
	switch kind {
	case verifInitAbsent:
		c.Logf("%s %s: absent", label, verifShort(rel))
	case verifInitFile, verifInitImmutable:
		var data []byte
		mode := os.FileMode(0644)
		wantRegular := want != nil && want.kind != verifWantNone && want.kind != verifWantSymlink && want.bad == ""
		cs := c.Draw(label+"-content", 4)
		if cs == 0 && wantRegular {
			data = want.data
		} else {
			data = verifContent(filepath.Base(rel), verifContentWeights[c.Draw(label+"-variant", len(verifContentWeights))])
		}
		ms := c.Draw(label+"-mode", 3)
		if ms == 0 && wantRegular {
			mode = want.mode
		} else {
			mode = verifModes[c.Draw(label+"-modeval", len(verifModes))]
		}
		w.mustWrite(p, data, mode)
		imm := false
		if kind == verifInitImmutable {
			imm = w.setImmutable(p)
		}
		c.Logf("%s %s: %s immutable=%v", label, verifShort(rel), verifFileDesc(mode, data), imm)
	case verifInitDirEmpty:
		if err := os.MkdirAll(p, 0755); err != nil {
			c.Fatalf("mkdir %s: %v", p, err)
		}
		c.Logf("%s %s: empty directory", label, verifShort(rel))
	case verifInitDirFull:
		w.mustWrite(filepath.Join(p, "inner"), []byte("inner file of "+verifShort(rel)), 0644)
		c.Logf("%s %s: non-empty directory", label, verifShort(rel))
	case verifInitLink:
		var target string
		tag := strings.ReplaceAll(rel, "/", "_")
		switch c.Draw(label+"-link", 4) {
		case 0:
			// resolves to a regular file equal to the desired state (or to
			// some other file if nothing regular is desired)
			if want != nil && want.kind != verifWantNone && want.kind != verifWantSymlink && want.bad == "" {
				target = w.outsideFile("same-"+tag, want.data, want.mode)
			} else {
				target = w.outsideFile("some-"+tag, verifContent(tag, 1), 0644)
			}
		case 1:
			target = filepath.Join(w.outside, "victim.txt")
		case 2:
			target = filepath.Join(w.outside, "no-such-file")
		case 3:
			if w.obstacles {
				target = filepath.Join(w.outside, "adir")
			} else {
				target = filepath.Join(w.outside, "victim.txt")
			}
		}
		if want != nil && want.kind == verifWantSymlink && c.Draw(label+"-link-same", 3) == 0 {
			target = want.target
		}
		if err := os.MkdirAll(filepath.Dir(p), 0755); err != nil {
			c.Fatalf("mkdir: %v", err)
		}
		if err := os.Symlink(target, p); err != nil {
			c.Fatalf("symlink %s: %v", p, err)
		}
		c.Logf("%s %s: symlink -> %s", label, verifShort(rel), strings.TrimPrefix(target, w.root))
	}
}

// drawWant draws the desired state of one managed name (0 = not desired).
func (w *verifWorld) drawWant(rel string) *verifWant {
	c := w.c
	kindTab := []int{verifWantNone, verifWantNone, verifWantNone, verifWantMemory, verifWantMemory, verifWantMemory, verifWantRef, verifWantRefMode, verifWantSymlink, verifWantMemory}
	want := &verifWant{kind: kindTab[c.Draw("want-kind:"+verifShort(rel), len(kindTab))]}
	if want.kind == verifWantNone {
		return want
	}
	if want.kind == verifWantSymlink {
		want.target = []string{"../outside/victim.txt", "/nonexistent/target", "snap.foo.elsewhere"}[c.Draw("want-target", 3)]
		return want
	}
	want.data = verifContent(filepath.Base(rel), verifContentWeights[c.Draw("want-variant", len(verifContentWeights))])
	want.mode = verifModes[c.Draw("want-mode", len(verifModes))]
	return want
}

// arm draws the fault of one desired name and builds the FileState that is
// handed to snapd.
func (w *verifWorld) arm(rel string, want *verifWant) {
	c := w.c
	st := &verifState{}
	want.st = st
	want.bad, want.fault = "", ""
	var inner osutil.FileState
	switch want.kind {
	case verifWantMemory:
		inner = &osutil.MemoryFileState{Content: want.data, Mode: want.mode}
	case verifWantRef:
		w.srcSeq++
		p := filepath.Join(w.src, fmt.Sprintf("ref%d", w.srcSeq))
		w.mustWrite(p, want.data, want.mode)
		inner = osutil.FileReference{Path: p}
	case verifWantRefMode:
		w.srcSeq++
		p := filepath.Join(w.src, fmt.Sprintf("ref%d", w.srcSeq))
		w.mustWrite(p, want.data, 0600)
		inner = osutil.FileReferencePlusMode{FileReference: osutil.FileReference{Path: p}, Mode: want.mode}
	case verifWantSymlink:
		inner = osutil.SymlinkFileState{Target: want.target}
	}
	if w.faultsOn {
		f := c.Draw("fault:"+verifShort(rel), 24)
		switch {
		case f <= 16:
		case f <= 18:
			st.failCall = 1 + c.Draw("fail-call", 3)
			want.fault = fmt.Sprintf("State() fails at call %d", st.failCall)
		case f <= 20:
			st.readFailCall = 3 - c.Draw("read-fail-call", 3)
			st.readFailAt = c.Draw("read-fail-at", len(want.data)+len(want.target)+1)
			want.fault = fmt.Sprintf("reader of call %d fails after %d bytes", st.readFailCall, st.readFailAt)
		case f <= 22:
			if len(want.data) > 1000 {
				st.chunk = []int{4096, 16383, 5000, 16385}[c.Draw("chunk", 4)]
			} else {
				st.chunk = 1 + c.Draw("chunk", 7)
			}
			want.fault = fmt.Sprintf("short reads of %d bytes", st.chunk)
		default:
			switch c.Draw("bad-kind", 4) {
			case 0:
				inner = osutil.FileReference{Path: filepath.Join(w.src, "no-such-source")}
				want.bad = "reference to a missing file"
			case 1:
				inner = osutil.FileReference{Path: w.src}
				want.bad = "reference to a directory"
			case 2:
				inner = &osutil.MemoryFileState{Content: want.data, Mode: os.ModeDir | 0755}
				want.bad = "memory state with directory mode"
			case 3:
				st.pipeMode = true
				want.bad = "state reporting a named pipe mode"
			}
		}
	}
	st.inner = inner
}

type verifRound struct {
	wants       map[string]*verifWant // only desired ones
	immutDir    bool
	before      *verifSnap
	after       *verifSnap
	outBefore   string
	outAfter    string
	changed     []string
	removed     []string
	err         error
	immutPaths  map[string]bool
	contentDirs []string // tree variant: keys of the content map
}

// ---------------------------------------------------------------------------
// the oracle

// exact tells whether the entry rel in snap is the desired one. A symlink
// that resolves to a regular file with exactly the desired bytes and
// permission bits is accepted for a desired regular file: the statement does
// not speak about symlinks in the initial directory, and a reader of the
// name sees the desired content.
func verifExact(s *verifSnap, rel string, want *verifWant) (ok bool, lenient bool) {
	if want.bad != "" {
		return false, false
	}
	d, present := s.direct[rel]
	if !present {
		return false, false
	}
	if d == want.desc() {
		return true, false
	}
	if want.kind != verifWantSymlink && strings.HasPrefix(d, "link:") && s.resolved[rel] == want.desc() {
		return true, true
	}
	return false, false
}

func verifMismatchClass(d string, want *verifWant) string {
	wd := want.desc()
	switch {
	case want.bad != "":
		return "C23/success-despite-unsatisfiable-state"
	case strings.HasPrefix(d, "file:") && strings.HasPrefix(wd, "file:"):
		if d[len("file:0000"):] == wd[len("file:0000"):] {
			return "C23/wrong-mode"
		}
		return "C23/wrong-content"
	case strings.HasPrefix(d, "link:") && strings.HasPrefix(wd, "link:"):
		return "C23/wrong-content"
	}
	return "C23/wrong-type"
}

func verifSet(l []string) (map[string]bool, bool) {
	m := map[string]bool{}
	dup := false
	for _, x := range l {
		if m[x] {
			dup = true
		}
		m[x] = true
	}
	return m, dup
}

func (w *verifWorld) judge(r *verifRound, round int) {
	c := w.c
	before, after := r.before, r.after

	// undeletable: entries whose removal cannot succeed in this round
	undeletable := func(rel string) bool {
		if r.immutDir || r.immutPaths[rel] {
			return true
		}
		if w.tree {
			// a file below an immutable directory does not occur; a
			// directory matching the patterns is always non-empty here
			return before.direct[rel] == "dir"
		}
		return before.fullDir[rel]
	}

	// 1. unrelated entries
	for _, rel := range verifSortedKeys(before.direct) {
		if w.managed(rel) {
			continue
		}
		if a, ok := after.direct[rel]; !ok {
			c.Violate("C23/unrelated-changed", "round %d: entry %s not matching %v disappeared (was %s)", round, verifShort(rel), w.globs, before.direct[rel])
		} else if a != before.direct[rel] {
			c.Violate("C23/unrelated-changed", "round %d: entry %s not matching %v changed from %s to %s", round, verifShort(rel), w.globs, before.direct[rel], a)
		}
	}
	for _, rel := range verifSortedKeys(after.direct) {
		if _, ok := before.direct[rel]; !ok && !w.managed(rel) {
			c.Violate("C23/stray-entry", "round %d: entry %s not matching %v appeared: %s", round, verifShort(rel), w.globs, after.direct[rel])
		}
	}
	if r.outBefore != r.outAfter {
		c.Violate("C23/outside-changed", "round %d: files outside the synchronized directory changed: %s -> %s", round, r.outBefore, r.outAfter)
	}

	// facts about faults
	anyFired := false
	obstacle := ""
	undeletableStale := ""
	readFired := map[string]bool{}
	for _, rel := range verifSortedWants(r.wants) {
		want := r.wants[rel]
		if want.st.firedState || want.st.firedRead {
			anyFired = true
		}
		if want.st.firedRead {
			readFired[rel] = true
		}
		if want.bad != "" && obstacle == "" {
			obstacle = verifShort(rel) + ": " + want.bad
		}
		if len(filepath.Base(rel)) > 240 && obstacle == "" {
			obstacle = verifShort(rel) + ": temporary name exceeds NAME_MAX"
		}
		d := before.direct[rel]
		if strings.HasPrefix(d, "dir") && obstacle == "" {
			obstacle = verifShort(rel) + ": directory in the way"
		}
		if strings.HasPrefix(d, "link:") && before.resolved[rel] == "dir" && want.kind != verifWantSymlink && obstacle == "" {
			obstacle = verifShort(rel) + ": symlink to a directory in the way"
		}
	}
	if r.immutDir && obstacle == "" {
		obstacle = "directory is immutable"
	}
	if w.dirGone && len(r.wants) > 0 && obstacle == "" {
		obstacle = "directory does not exist"
	}
	for _, p := range verifSortedBool(r.immutPaths) {
		if obstacle == "" && w.managed(p) {
			obstacle = verifShort(p) + ": immutable"
		}
	}
	if w.tree {
		// a regular file squatting on a directory of the content map
		for _, rel := range r.contentDirs {
			for d := rel; d != "."; d = filepath.Dir(d) {
				if strings.HasPrefix(before.direct[d], "file:") || strings.HasPrefix(before.direct[d], "link:") {
					if obstacle == "" {
						obstacle = d + ": not a directory"
					}
				}
			}
		}
	}
	for _, rel := range verifSortedKeys(before.direct) {
		if w.managed(rel) && r.wants[rel] == nil && undeletable(rel) && undeletableStale == "" {
			undeletableStale = verifShort(rel)
		}
	}

	// state predicates
	var survivors []string // managed entries left that could have been removed
	allExact := true       // every managed entry left is desired and exact, or undeletable; every desired one is exact
	for _, rel := range verifSortedKeys(after.direct) {
		if !w.managed(rel) {
			continue
		}
		if !undeletable(rel) {
			survivors = append(survivors, verifShort(rel))
		}
		want := r.wants[rel]
		if want == nil {
			if !undeletable(rel) {
				allExact = false
			}
			continue
		}
		if ok, _ := verifExact(after, rel, want); !ok && !undeletable(rel) {
			allExact = false
		}
	}
	for _, rel := range verifSortedWants(r.wants) {
		if ok, _ := verifExact(after, rel, r.wants[rel]); !ok {
			allExact = false
		}
	}

	if r.err == nil {
		c.Count("outcome:success")
		// 2. success: exactly the desired files
		for _, rel := range verifSortedKeys(after.direct) {
			if !w.managed(rel) {
				continue
			}
			want := r.wants[rel]
			if want == nil {
				c.Violate("C23/stale-managed-entry", "round %d: call succeeded but %s (matching %v, not desired) is still there: %s", round, verifShort(rel), w.globs, after.direct[rel])
				continue
			}
			ok, lenient := verifExact(after, rel, want)
			if !ok {
				c.Violate(verifMismatchClass(after.direct[rel], want), "round %d: call succeeded but %s is %s, desired %s", round, verifShort(rel), after.direct[rel], want.desc())
			}
			if lenient {
				c.Count("probe:symlink-left-in-place")
			}
		}
		for _, rel := range verifSortedWants(r.wants) {
			if _, ok := after.direct[rel]; !ok {
				if r.wants[rel].bad != "" {
					c.Violate("C23/success-despite-unsatisfiable-state", "round %d: call succeeded although the state of %s is %s", round, verifShort(rel), r.wants[rel].bad)
				} else {
					c.Violate("C23/desired-missing", "round %d: call succeeded but desired %s is missing", round, verifShort(rel))
				}
			}
		}
		// reported lists: exactly what differs on disk
		chg, dup := verifSet(r.changed)
		if dup {
			c.Violate("C23/changed-list", "round %d: duplicates in changed list %v", round, verifShortAll(r.changed))
		}
		for _, rel := range verifSortedWants(r.wants) {
			differs := before.direct[rel] != after.direct[rel]
			switch {
			case differs && !chg[rel]:
				c.Violate("C23/changed-list", "round %d: %s went from %q to %q but is not in changed list %v", round, verifShort(rel), before.direct[rel], after.direct[rel], verifShortAll(r.changed))
			case !differs && chg[rel] && !readFired[rel]:
				c.Violate("C23/changed-list", "round %d: %s is unchanged (%s) but reported in changed list %v", round, verifShort(rel), after.direct[rel], verifShortAll(r.changed))
			}
			delete(chg, rel)
		}
		for _, rel := range verifSortedBool(chg) {
			c.Violate("C23/changed-list", "round %d: changed list names %s which is not a desired file", round, verifShort(rel))
		}
		rem, dup := verifSet(r.removed)
		if dup {
			c.Violate("C23/removed-list", "round %d: duplicates in removed list %v", round, verifShortAll(r.removed))
		}
		for _, rel := range verifSortedKeys(before.direct) {
			if !w.managed(rel) {
				continue
			}
			_, still := after.direct[rel]
			switch {
			case !still && !rem[rel]:
				c.Violate("C23/removed-list", "round %d: %s was removed but is not in removed list %v", round, verifShort(rel), verifShortAll(r.removed))
			case still && rem[rel]:
				c.Violate("C23/removed-list", "round %d: %s is reported removed but still exists", round, verifShort(rel))
			}
			delete(rem, rel)
		}
		for _, rel := range verifSortedBool(rem) {
			c.Violate("C23/removed-list", "round %d: removed list names %s which did not exist before", round, verifShort(rel))
		}
		// probes
		if len(r.wants) > 0 && len(r.changed) == 0 && len(r.removed) == 0 {
			c.Count("probe:nothing-to-do")
		}
		for _, rel := range verifSortedWants(r.wants) {
			b, a := before.direct[rel], after.direct[rel]
			if strings.HasPrefix(b, "file:") && strings.HasPrefix(a, "file:") && b != a && b[:9] == a[:9] && before.size[rel] == after.size[rel] && after.size[rel] > 0 {
				c.Count("probe:same-size-same-mode-rewritten")
			}
			if b == a && len(r.wants[rel].data) > 16384 {
				c.Count("probe:multi-chunk-equal")
			}
			if strings.HasPrefix(b, "link:") && strings.HasPrefix(a, "file:") {
				c.Count("probe:symlink-replaced")
			}
		}
		return
	}

	// 3. failure
	c.Count("outcome:error")
	excuse := anyFired || obstacle != "" || undeletableStale != ""
	failClosed := len(survivors) == 0
	switch {
	case failClosed:
		if !excuse {
			c.Violate("C23/spurious-error", "round %d: call failed with %q although nothing was in the way and no fault fired", round, verifErrText(r.err))
		}
		c.Count("probe:fail-closed")
		nManagedBefore := 0
		for rel := range before.direct {
			if w.managed(rel) && !undeletable(rel) {
				nManagedBefore++
			}
		}
		if nManagedBefore > 0 {
			c.Count("probe:erase-removed-existing")
		}
	case allExact && undeletableStale != "":
		// only a removal failed: the desired files are all in place, and
		// nothing stale that could be removed is left
		c.Count("probe:removal-only-failure")
	default:
		switch {
		case anyFired || obstacle != "":
			w.note("removable survivors: %v; error: %s", survivors, verifErrText(r.err))
			c.Violate("C23/fail-open:managed-entry-survives-write-failure", "round %d: a write failed (%s) but removable entries matching %v remain (see the unhashed lines of the trace for which)", round, verifCause(anyFired, obstacle), w.globs)
		case undeletableStale != "":
			w.note("error: %s", verifErrText(r.err))
			c.Violate("C23/removal-failure:neither-synchronized-nor-erased", "round %d: removal of %s failed; entries matching %v are neither all desired nor all gone: %s", round, undeletableStale, w.globs, after)
		default:
			c.Violate("C23/spurious-error", "round %d: call failed with %q although nothing was in the way and no fault fired; left %s", round, verifErrText(r.err), after)
		}
	}
}

// note adds a line to the human readable trace only (not to the hashed event
// log): details that depend on snapd's map iteration order.
func (w *verifWorld) note(format string, args ...interface{}) {
	if w.c.Verbose {
		w.c.Trace = append(w.c.Trace, "    (unhashed) "+fmt.Sprintf(format, args...))
	}
}

func verifCause(fired bool, obstacle string) string {
	if fired && obstacle != "" {
		return "injected fault fired; " + obstacle
	}
	if fired {
		return "injected fault fired"
	}
	return obstacle
}

// verifErrText strips the scratch path (it differs between executions).
func verifErrText(err error) string {
	s := err.Error()
	for {
		i := strings.Index(s, verifCurRoot)
		if i < 0 {
			break
		}
		j := i
		for j < len(s) && s[j] != ' ' && s[j] != ':' && s[j] != '"' {
			j++
		}
		s = s[:i] + "<scratch>" + s[j:]
	}
	if len(s) > 160 {
		s = s[:160] + "..."
	}
	return s
}

func verifShortAll(l []string) []string {
	out := make([]string, len(l))
	for i, x := range l {
		out[i] = verifShort(x)
	}
	return out
}

func verifSortedWants(m map[string]*verifWant) []string {
	ks := make([]string, 0, len(m))
	for k := range m {
		ks = append(ks, k)
	}
	sort.Strings(ks)
	return ks
}

func verifSortedBool(m map[string]bool) []string {
	ks := make([]string, 0, len(m))
	for k := range m {
		ks = append(ks, k)
	}
	sort.Strings(ks)
	return ks
}

// ---------------------------------------------------------------------------
// name pools

var verifFlatNames = []string{
	"snap.foo.app", "snap.foo.svc", "snap.foo.hook.configure", "snap-update-ns.foo", "snap.foo",
	"snap.foo.app.Qx7PlmZk31aB~", // what a crashed AtomicWrite leaves behind
	"snap.foo_inst.app", "snap.foobar.app", "snap.bar.app", "other.txt", ".snap.foo.app.swp",
}

var verifGlobSets = [][]string{
	{"snap.foo.*"},
	{"snap.foo.*", "snap-update-ns.foo"},
	{"snap.foo.*", "snap.foo"},
	{"snap.foo.???", "snap.foo.hook.*", "snap-update-ns.foo"},
	{"*"},
}

var verifTreeDirs = []string{".", "hicolor", "hicolor/48x48/apps", "hicolor/scalable/apps", "other-theme"}
var verifTreeNames = []string{"snap.foo.icon.png", "snap.foo.app.svg", "snap.bar.icon.png", "index.theme"}
var verifTreeGlobSets = [][]string{
	{"snap.foo.*"},
	{"snap.foo.*.png", "snap.foo.*.svg"},
}

// ---------------------------------------------------------------------------
// the run

func verifRunC23(c *verifsim.Ctx) {
	verifInit()
	rand.Seed(int64(c.Draw("tmp-name-seed", 1<<16)))

	root, err := os.MkdirTemp(verifScratchBase, "verifc23")
	if err != nil {
		c.Fatalf("mkdtemp: %v", err)
	}
	verifCurRoot = root
	w := &verifWorld{c: c, root: root, dir: filepath.Join(root, "dir"), outside: filepath.Join(root, "outside"), src: filepath.Join(root, "src")}
	defer func() {
		w.clearImmutable()
		if err := os.RemoveAll(root); err != nil {
			panic(verifsim.HarnessError{Msg: "cannot clean scratch: " + err.Error()})
		}
	}()
	for _, d := range []string{w.dir, w.outside, w.src} {
		if err := os.MkdirAll(d, 0755); err != nil {
			c.Fatalf("mkdir: %v", err)
		}
	}
	w.mustWrite(filepath.Join(w.outside, "victim.txt"), []byte("victim: must never change\n"), 0644)
	w.mustWrite(filepath.Join(w.outside, "adir", "file-in-adir"), []byte("x"), 0644)

	variant := []int{0, 0, 0, 0, 0, 1, 1, 2}[c.Draw("variant", 8)]
	w.faultsOn = c.Draw("faults", 4) != 0
	w.obstacles = w.faultsOn && c.Draw("obstacles", 2) == 1
	// snapd skips fsync in binaries named like go test binaries; the driver's
	// binary is not, so both settings are reachable: draw it
	realSync := c.Draw("fsync", 2) == 0
	defer osutil.SetUnsafeIO(!realSync)()
	c.Logf("variant=%s faults=%v obstacles=%v immutable-supported=%v fsync=%v", []string{"dir", "tree", "file"}[variant], w.faultsOn, w.obstacles, verifImmutableOK, realSync)
	switch variant {
	case 0:
		verifRunDir(w)
	case 1:
		w.tree = true
		verifRunTree(w)
	case 2:
		verifRunFile(w)
	}
}

func (w *verifWorld) finishRound(r *verifRound, round int) {
	c := w.c
	// what fired
	for _, rel := range verifSortedWants(r.wants) {
		st := r.wants[rel].st
		if st.firedState {
			c.Count("fault:state-error")
		}
		if st.firedRead {
			c.Count("fault:reader-error")
		}
		if st.firedShort {
			c.Count("fault:short-read")
		}
		if st.firedState || st.firedRead {
			c.Nontrivial()
		}
		if st.opens > st.closes {
			c.Add("obs:readers-not-closed", int64(st.opens-st.closes))
		}
	}
	if r.err != nil {
		c.Nontrivial()
		// environment obstacles are counted when the call failed in their presence
		for _, rel := range verifSortedWants(r.wants) {
			want := r.wants[rel]
			d := r.before.direct[rel]
			switch {
			case want.bad != "":
				c.Count("fault:unsatisfiable-state")
			case len(filepath.Base(rel)) > 240 && !verifSameBefore(r, rel):
				c.Count("fault:name-too-long")
			case strings.HasPrefix(d, "dir"):
				c.Count("fault:directory-in-the-way")
			case strings.HasPrefix(d, "link:") && r.before.resolved[rel] == "dir" && want.kind != verifWantSymlink:
				c.Count("fault:symlink-to-directory-in-the-way")
			}
		}
		if r.immutDir {
			c.Count("fault:immutable-directory")
		}
		if len(r.immutPaths) > 0 {
			c.Count("fault:immutable-file")
		}
		for _, rel := range verifSortedKeys(r.before.direct) {
			if w.managed(rel) && r.wants[rel] == nil && strings.HasPrefix(r.before.direct[rel], "dir") {
				if _, still := r.after.direct[rel]; still {
					c.Count("fault:undeletable-directory")
				}
			}
		}
		if w.dirGone {
			c.Count("fault:missing-directory")
		}
	}
	if len(r.changed) > 0 && len(r.removed) > 0 {
		c.Nontrivial()
	}
	w.judge(r, round)
}

func verifSameBefore(r *verifRound, rel string) bool {
	ok, _ := verifExact(r.before, rel, r.wants[rel])
	return ok
}

func (w *verifWorld) outsideDesc() string {
	return verifDescribeTree(w.outside) + verifDescribeTree(w.src)
}

func (w *verifWorld) logWants(r *verifRound) {
	for _, rel := range verifSortedWants(r.wants) {
		w.c.Logf("  want %s: %s", verifShort(rel), r.wants[rel])
	}
}

func (w *verifWorld) immutMap() map[string]bool {
	m := map[string]bool{}
	for _, p := range w.immut {
		if p == w.dir {
			continue
		}
		rel, err := filepath.Rel(w.dir, p)
		if err == nil {
			m[rel] = true
		}
	}
	return m
}

// verifRunDir: EnsureDirState / EnsureDirStateGlobs on a flat directory.
func verifRunDir(w *verifWorld) {
	c := w.c
	w.globs = verifGlobSets[c.Draw("globs", len(verifGlobSets))]
	names := append([]string{}, verifFlatNames...)
	if c.Draw("long-name", 6) == 5 {
		names = append(names, verifLongName)
	}
	useSingle := len(w.globs) == 1 && c.Draw("single-glob-api", 2) == 0
	c.Logf("globs=%v api=%s", w.globs, map[bool]string{true: "EnsureDirState", false: "EnsureDirStateGlobs"}[useSingle])
	if w.obstacles && c.Draw("dir-missing", 40) == 39 {
		os.Remove(w.dir)
		w.dirGone = true
		c.Logf("the directory does not exist")
	}

	rounds := 1 + c.Draw("rounds", 3)
	var wants map[string]*verifWant
	for round := 0; round < rounds && len(c.Violations) == 0; round++ {
		r := &verifRound{}
		// desired map: redraw, or keep the previous one (idempotence)
		if round == 0 || c.Draw("redraw-wants", 3) != 0 {
			wants = map[string]*verifWant{}
			for _, n := range names {
				if !w.managed(n) {
					continue
				}
				if want := w.drawWant(n); want.kind != verifWantNone {
					wants[n] = want
				}
			}
		}
		r.wants = wants
		// the directory: initial population, later drift
		if !w.dirGone {
			for _, n := range names {
				if round == 0 {
					w.place(n, wants[n], "init")
				} else if c.Draw("drift:"+verifShort(n), 5) == 4 {
					w.place(n, wants[n], "drift")
				}
			}
		}
		content := map[string]osutil.FileState{}
		for _, n := range verifSortedWants(wants) {
			w.arm(n, wants[n])
			content[n] = wants[n].st
		}
		r.immutPaths = w.immutMap()
		if w.obstacles && !w.dirGone && c.Draw("immutable-dir", 24) == 23 {
			r.immutDir = w.setImmutable(w.dir)
		}
		r.before = verifSnapshot(w.dir, false, nil)
		r.outBefore = w.outsideDesc()
		c.Logf("round %d: before=%s immutable-dir=%v", round, r.before, r.immutDir)
		w.logWants(r)

		if useSingle {
			r.changed, r.removed, r.err = osutil.EnsureDirState(w.dir, w.globs[0], content)
		} else {
			r.changed, r.removed, r.err = osutil.EnsureDirStateGlobs(w.dir, w.globs, content)
		}
		c.Count("calls:dir")

		w.clearImmutable()
		r.after = verifSnapshot(w.dir, false, nil)
		r.outAfter = w.outsideDesc()
		verifLogResult(c, round, r)
		w.finishRound(r, round)
	}
}

func verifLogResult(c *verifsim.Ctx, round int, r *verifRound) {
	if r.err == nil {
		ch := append([]string{}, r.changed...)
		rm := append([]string{}, r.removed...)
		sort.Strings(ch)
		sort.Strings(rm)
		c.Logf("round %d: ok changed=%v removed=%v after=%s", round, verifShortAll(ch), verifShortAll(rm), r.after)
	} else {
		// neither the error text nor the lists are hashed on failure: with
		// several obstacles they depend on snapd's map iteration order
		c.Logf("round %d: error after=%s", round, r.after)
		if c.Verbose {
			c.Trace = append(c.Trace, fmt.Sprintf("    (unhashed) error=%q changed=%v removed=%v", verifErrText(r.err), verifShortAll(r.changed), verifShortAll(r.removed)))
		}
	}
}

// verifRunTree: EnsureTreeState on a directory tree.
func verifRunTree(w *verifWorld) {
	c := w.c
	w.globs = verifTreeGlobSets[c.Draw("globs", len(verifTreeGlobSets))]
	c.Logf("globs=%v api=EnsureTreeState", w.globs)
	rounds := 1 + c.Draw("rounds", 3)
	var wants map[string]*verifWant
	var contentDirs map[string]bool
	squat := false
	for round := 0; round < rounds && len(c.Violations) == 0; round++ {
		r := &verifRound{}
		if round == 0 {
			// a regular file where the content map may want a directory
			if w.obstacles && c.Draw("file-squats-dir", 6) == 5 {
				squat = true
				w.mustWrite(filepath.Join(w.dir, "other-theme"), []byte("i am a file"), 0644)
				c.Logf("init other-theme: regular file")
			}
		}
		if round == 0 || c.Draw("redraw-wants", 3) != 0 {
			wants = map[string]*verifWant{}
			contentDirs = map[string]bool{}
			for _, d := range verifTreeDirs {
				if c.Draw("in-content:"+d, 2) == 0 {
					continue
				}
				contentDirs[d] = true
				for _, n := range verifTreeNames {
					rel := filepath.Join(d, n)
					if !w.managed(rel) {
						continue
					}
					if want := w.drawWant(rel); want.kind != verifWantNone {
						wants[rel] = want
					}
				}
			}
		}
		r.wants = wants
		for _, d := range verifTreeDirs {
			if squat && d == "other-theme" {
				continue
			}
			if round == 0 {
				if d != "." && c.Draw("dir-exists:"+d, 3) == 0 {
					continue
				}
				if err := os.MkdirAll(filepath.Join(w.dir, d), 0755); err != nil {
					c.Fatalf("mkdir: %v", err)
				}
				for _, n := range verifTreeNames {
					w.place(filepath.Join(d, n), wants[filepath.Join(d, n)], "init")
				}
			} else {
				// (not conditional on the directory still being there: whether
				// EnsureTreeState removed an emptied directory depends on its
				// map iteration order)
				for _, n := range verifTreeNames {
					if c.Draw("drift:"+filepath.Join(d, n), 6) == 5 {
						w.place(filepath.Join(d, n), wants[filepath.Join(d, n)], "drift")
					}
				}
			}
		}
		content := map[string]map[string]osutil.FileState{}
		for _, d := range verifSortedBool(contentDirs) {
			content[d] = map[string]osutil.FileState{}
		}
		for _, rel := range verifSortedWants(wants) {
			w.arm(rel, wants[rel])
			content[filepath.Dir(rel)][filepath.Base(rel)] = wants[rel].st
		}
		r.immutPaths = w.immutMap()
		r.contentDirs = verifSortedBool(contentDirs)
		r.before = verifSnapshot(w.dir, true, func(b string) bool { return verifMatchAny(w.globs, b) })
		r.outBefore = w.outsideDesc()
		c.Logf("round %d: content-dirs=%v before=%s", round, verifSortedBool(contentDirs), r.before)
		w.logWants(r)

		r.changed, r.removed, r.err = osutil.EnsureTreeState(w.dir, w.globs, content)
		c.Count("calls:tree")

		w.clearImmutable()
		r.after = verifSnapshot(w.dir, true, func(b string) bool { return verifMatchAny(w.globs, b) })
		r.outAfter = w.outsideDesc()
		verifLogResult(c, round, r)
		if r.err != nil && squat && contentDirs["other-theme"] {
			c.Count("fault:file-squats-directory")
		}
		if r.err != nil {
			n := 0
			for rel := range r.before.direct {
				if _, still := r.after.direct[rel]; w.managed(rel) && !still {
					n++
				}
			}
			if n > 1 {
				c.Count("probe:tree-erase-several")
			}
		}
		w.finishRound(r, round)
	}
}

// verifRunFile: EnsureFileState on a single path.
func verifRunFile(w *verifWorld) {
	c := w.c
	name := []string{"snap.foo.app", "70-snap.foo.rules", verifLongName}[[]int{0, 0, 0, 1, 1, 2}[c.Draw("file-name", 6)]]
	w.globs = []string{name}
	others := []string{"snap.foo.svc", "other.txt"}
	rounds := 1 + c.Draw("rounds", 3)
	var want *verifWant
	for round := 0; round < rounds && len(c.Violations) == 0; round++ {
		if round == 0 || c.Draw("redraw-wants", 3) != 0 {
			want = w.drawWant(name)
			if want.kind == verifWantNone {
				want.kind = verifWantMemory
				want.data = verifContent(name, 0)
				want.mode = 0644
			}
		}
		for _, n := range append([]string{name}, others...) {
			if round == 0 {
				if n == name {
					w.place(n, want, "init")
				} else {
					w.place(n, nil, "init")
				}
			} else if c.Draw("drift:"+verifShort(n), 4) == 3 {
				if n == name {
					w.place(n, want, "drift")
				} else {
					w.place(n, nil, "drift")
				}
			}
		}
		w.arm(name, want)
		immut := w.immutMap()
		immutDir := false
		if w.obstacles && c.Draw("immutable-dir", 24) == 23 {
			immutDir = w.setImmutable(w.dir)
		}
		before := verifSnapshot(w.dir, false, nil)
		outBefore := w.outsideDesc()
		c.Logf("round %d: EnsureFileState(%s) before=%s immutable-dir=%v", round, verifShort(name), before, immutDir)
		c.Logf("  want %s", want)

		err := osutil.EnsureFileState(filepath.Join(w.dir, name), want.st)
		c.Count("calls:file")

		w.clearImmutable()
		after := verifSnapshot(w.dir, false, nil)
		outAfter := w.outsideDesc()
		st := want.st
		if st.firedState {
			c.Count("fault:state-error")
		}
		if st.firedRead {
			c.Count("fault:reader-error")
		}
		if st.firedShort {
			c.Count("fault:short-read")
		}
		if st.opens > st.closes {
			c.Add("obs:readers-not-closed", int64(st.opens-st.closes))
		}
		outcome := "ok"
		if err == osutil.ErrSameState {
			outcome = "same"
		} else if err != nil {
			outcome = "error"
			c.Nontrivial()
		}
		c.Logf("round %d: %s after=%s", round, outcome, after)

		// oracle
		for _, rel := range verifSortedKeys(before.direct) {
			if rel != name && after.direct[rel] != before.direct[rel] {
				c.Violate("C23/unrelated-changed", "round %d: EnsureFileState(%s) changed %s from %s to %q", round, verifShort(name), verifShort(rel), before.direct[rel], after.direct[rel])
			}
		}
		for _, rel := range verifSortedKeys(after.direct) {
			if _, ok := before.direct[rel]; !ok && rel != name {
				c.Violate("C23/stray-entry", "round %d: EnsureFileState(%s) left %s behind: %s", round, verifShort(name), verifShort(rel), after.direct[rel])
			}
		}
		if outBefore != outAfter {
			c.Violate("C23/outside-changed", "round %d: files outside the directory changed: %s -> %s", round, outBefore, outAfter)
		}
		wasExact, _ := verifExact(before, name, want)
		isExact, lenient := verifExact(after, name, want)
		switch outcome {
		case "ok":
			if !isExact {
				d, present := after.direct[name]
				if !present {
					c.Violate("C23/desired-missing", "round %d: EnsureFileState succeeded but %s is missing", round, verifShort(name))
				} else {
					c.Violate(verifMismatchClass(d, want), "round %d: EnsureFileState succeeded but %s is %s, desired %s", round, verifShort(name), d, want.desc())
				}
			}
			if wasExact && before.direct[name] == after.direct[name] && !st.firedRead {
				c.Violate("C23/changed-list", "round %d: EnsureFileState reported a change of %s although it already was %s", round, verifShort(name), before.direct[name])
			}
			c.Count("outcome:success")
		case "same":
			if !wasExact {
				c.Violate("C23/same-state-misreported", "round %d: EnsureFileState reported no change but %s was %q, desired %s", round, verifShort(name), before.direct[name], want.desc())
			}
			if before.direct[name] != after.direct[name] {
				c.Violate("C23/same-state-misreported", "round %d: EnsureFileState reported no change but %s went from %q to %q", round, verifShort(name), before.direct[name], after.direct[name])
			}
			if lenient {
				c.Count("probe:symlink-left-in-place")
			}
			c.Count("probe:nothing-to-do")
			c.Count("outcome:success")
		case "error":
			c.Count("outcome:error")
			// an atomic write that fails leaves the previous entry alone
			if before.direct[name] != after.direct[name] {
				c.Violate("C23/partial-write", "round %d: EnsureFileState failed (%s) but %s went from %q to %q", round, verifErrText(err), verifShort(name), before.direct[name], after.direct[name])
			}
			d := before.direct[name]
			excuse := st.firedState || st.firedRead || want.bad != "" || immutDir || immut[name] || strings.HasPrefix(d, "dir") ||
				(strings.HasPrefix(d, "link:") && before.resolved[name] == "dir" && want.kind != verifWantSymlink) || len(name) > 240
			if !excuse {
				c.Violate("C23/spurious-error", "round %d: EnsureFileState failed with %q although nothing was in the way and no fault fired", round, verifErrText(err))
			}
			switch {
			case want.bad != "":
				c.Count("fault:unsatisfiable-state")
			case len(name) > 240:
				c.Count("fault:name-too-long")
			case strings.HasPrefix(d, "dir"):
				c.Count("fault:directory-in-the-way")
			case strings.HasPrefix(d, "link:") && before.resolved[name] == "dir":
				c.Count("fault:symlink-to-directory-in-the-way")
			case immutDir:
				c.Count("fault:immutable-directory")
			case immut[name]:
				c.Count("fault:immutable-file")
			}
		}
	}
}
