package osutil_test

// C23: security profile files are synchronized exactly and fail closed.
//
// One run = one scratch directory (flat or tree) that is populated from the
// tape, then synchronized 1-3 times with the real EnsureDirState /
// EnsureDirStateGlobs / EnsureTreeState / EnsureFileState, with drift of the
// directory between the rounds. Desired content goes through the real
// MemoryFileState / FileReference / FileReferencePlusMode / SymlinkFileState
// wrapped in a fault injecting FileState. The oracle only looks at the
// directory before and after each call (lstat view), at the returned lists
// and error, and at which faults fired.

import (
	"errors"
	"fmt"
	"hash/fnv"
	"io"
	"math/rand"
	"os"
	"path/filepath"
	"sort"
	"strings"
	"syscall"
	"unsafe"

	"github.com/snapcore/snapd/internal/verifsim"
	"github.com/snapcore/snapd/osutil"
	"github.com/snapcore/snapd/randutil"
)

var verifEngineC23 = &verifsim.Engine{
	Name:   "osutil",
	Bubble: false,
	Run:    verifRunC23,
	Real: []string{
		"osutil.EnsureDirState, EnsureDirStateGlobs, EnsureTreeState, EnsureFileState (unmodified)",
		"osutil.MemoryFileState, FileReference, FileReferencePlusMode, SymlinkFileState",
		"osutil.AtomicWrite, AtomicSymlink, AtomicRename, streamsEqualChunked",
		"real file system syscalls on a per-run scratch directory (tmpfs under /dev/shm, else TMPDIR; immutable inode flag for EPERM); snapd's fsync path on in half of the runs, bypassed (osutil.SetUnsafeIO, as in snapd's own unit tests) in the other half",
	},
	Stubs: []string{
		"FileState wrapper around the real states: State() failing at its k-th call, reader failing after n bytes, short reads",
		"environment obstacles placed by the simulator: directory or symlink-to-directory squatting on a desired name, non-empty directory matching the patterns, immutable file / immutable directory (chattr +i), over-long name (temp name exceeds NAME_MAX), missing reference source, unsupported mode, missing target directory, regular file squatting on a sub-directory path",
		"interfaces/apparmor and interfaces/seccomp backends are not run (only the osutil primitives they call)",
		"durability is not modelled (fsync on tmpfs is a no-op); crash atomicity of the single write is C06's subject",
	},
}

var verifErrInjected = errors.New("verif: injected fault")

// ---------------------------------------------------------------------------
// one-time process setup

var (
	verifInitDone    bool
	verifImmutableOK bool
	// verifScratchBase is where the per-run scratch roots are made. The
	// driver's binary is not named like a go test binary, so snapd really
	// fsyncs (3 ms per call on the ext4 scratch disk, and slow unlinks after
	// it); a tmpfs keeps the same code path at memory speed. Falls back to
	// TMPDIR.
	verifScratchBase string
)

func verifPickScratch() {
	if v := os.Getenv("VERIF_C23_SCRATCH"); v != "" {
		verifScratchBase = v
		os.MkdirAll(v, 0755)
		return
	}
	const shm = "/dev/shm"
	var st syscall.Statfs_t
	if syscall.Statfs(shm, &st) != nil || st.Type != 0x01021994 /* TMPFS_MAGIC */ {
		return
	}
	top := filepath.Join(shm, "verif-osutil-c23")
	if os.MkdirAll(top, 0755) != nil {
		return
	}
	// sweep what dead workers left behind
	ents, _ := os.ReadDir(top)
	for _, e := range ents {
		var pid int
		if _, err := fmt.Sscanf(e.Name(), "pid%d-", &pid); err == nil && pid > 0 && syscall.Kill(pid, 0) == syscall.ESRCH {
			p := filepath.Join(top, e.Name())
			filepath.Walk(p, func(q string, fi os.FileInfo, err error) error {
				if err == nil {
					verifSetImmutable(q, false)
				}
				return nil
			})
			os.RemoveAll(p)
		}
	}
	verifScratchBase = top
}

// verifScratchPattern names the scratch roots after the process so that a
// later worker can sweep what a killed one left behind.
func verifScratchPattern(kind string) string {
	return fmt.Sprintf("pid%d-%s-", os.Getpid(), kind)
}

func verifSetImmutable(path string, on bool) error {
	f, err := os.Open(path)
	if err != nil {
		return err
	}
	defer f.Close()
	var attr uint64
	if _, _, e := syscall.Syscall(syscall.SYS_IOCTL, f.Fd(), 0x80086601 /* FS_IOC_GETFLAGS */, uintptr(unsafe.Pointer(&attr))); e != 0 {
		return e
	}
	if on {
		attr |= 0x10 // FS_IMMUTABLE_FL
	} else {
		attr &^= 0x10
	}
	if _, _, e := syscall.Syscall(syscall.SYS_IOCTL, f.Fd(), 0x40086602 /* FS_IOC_SETFLAGS */, uintptr(unsafe.Pointer(&attr))); e != 0 {
		return e
	}
	return nil
}

func verifInit() {
	if verifInitDone {
		return
	}
	verifInitDone = true
	// burn randutil's one-time reseed so that rand.Seed below sticks
	randutil.RandomDuration(1)
	syscall.Umask(0022)
	verifPickScratch()
	d, err := os.MkdirTemp(verifScratchBase, verifScratchPattern("probe"))
	if err != nil {
		return
	}
	defer os.RemoveAll(d)
	p := filepath.Join(d, "f")
	if os.WriteFile(p, []byte("x"), 0644) != nil {
		return
	}
	if verifSetImmutable(p, true) == nil {
		if os.Remove(p) != nil {
			verifImmutableOK = true
		}
		verifSetImmutable(p, false)
	}
}

// ---------------------------------------------------------------------------
// small helpers

// verifGlobMatch: '*' any sequence, '?' one character, the rest literal.
// Written independently of path/filepath (the patterns used here have no
// character classes and names have no separators).
func verifGlobMatch(pat, name string) bool {
	p, n := 0, 0
	starP, starN := -1, 0
	for n < len(name) {
		if p < len(pat) && pat[p] != '*' && (pat[p] == '?' || pat[p] == name[n]) {
			p++
			n++
			continue
		}
		if p < len(pat) && pat[p] == '*' {
			starP, starN = p, n
			p++
			continue
		}
		if starP >= 0 {
			starN++
			n = starN
			p = starP + 1
			continue
		}
		return false
	}
	for p < len(pat) && pat[p] == '*' {
		p++
	}
	return p == len(pat)
}

func verifMatchAny(globs []string, base string) bool {
	for _, g := range globs {
		if verifGlobMatch(g, base) {
			return true
		}
	}
	return false
}

var verifLongName = "snap.foo." + strings.Repeat("x", 241) // 250 bytes: fits NAME_MAX, its temp name does not

// verifShort is the display form of a name: the 250 byte name is abbreviated
// and the random part of AtomicWrite's temporary names is masked.
func verifShort(rel string) string {
	if n := len(rel); n >= 14 && rel[n-1] == '~' && rel[n-14] == '.' {
		rel = rel[:n-13] + "<tmp>~"
	}
	if i := strings.Index(rel, verifLongName); i >= 0 {
		rel = rel[:i] + "snap.foo.<long250>" + rel[i+len(verifLongName):]
	}
	return rel
}

var verifContentCache = map[string][]byte{}

// verifContent: variants 0/1 have the same length (forces a byte comparison),
// 2 is empty, 3/4 are exactly one compare chunk (16 KiB) and differ in the
// last byte, 5/6/7 span three chunks and differ in the first byte of the
// second chunk / the last byte.
func verifContent(name string, v int) []byte {
	key := fmt.Sprintf("%d/%s", v, name)
	if b, ok := verifContentCache[key]; ok {
		return b
	}
	var b []byte
	switch v {
	case 0, 1:
		b = []byte(fmt.Sprintf("# generated for %s variant %d\n", verifShort(name), v))
	case 2:
		b = []byte{}
	default:
		size := 16384
		if v >= 5 {
			size = 40000
		}
		b = make([]byte, size)
		for i := range b {
			b[i] = byte('a' + (i*7+len(name))%23)
		}
		switch v {
		case 4, 7:
			b[size-1] ^= 1
		case 6:
			b[16384] ^= 1
		}
	}
	if len(verifContentCache) < 4096 {
		verifContentCache[key] = b
	}
	return b
}

var verifContentWeights = []int{0, 0, 0, 0, 0, 1, 1, 1, 1, 2, 3, 4, 5, 6, 7, 3}
var verifModes = []os.FileMode{0644, 0600, 0755, 0444, 0700}

func verifDigest(b []byte) string {
	if len(b) <= 48 {
		return fmt.Sprintf("%q", b)
	}
	h := fnv.New64a()
	h.Write(b)
	return fmt.Sprintf("len%d:%016x", len(b), h.Sum64())
}

func verifFileDesc(perm os.FileMode, data []byte) string {
	return fmt.Sprintf("file:%04o:%s", perm.Perm(), verifDigest(data))
}

// ---------------------------------------------------------------------------
// fault injecting FileState

type verifState struct {
	inner        osutil.FileState
	calls        int
	failCall     int // State() fails at this call (1-based), 0 never
	readFailCall int // the reader handed out by this call fails ..., 0 never
	readFailAt   int // ... after this many bytes
	chunk        int // >0: reads return at most this many bytes
	pipeMode     bool

	firedState bool
	firedRead  bool
	firedShort bool
	opens      int
	closes     int
}

type verifReader struct {
	r      io.ReadCloser
	st     *verifState
	left   int // -1: never fails
	closed bool
}

func (r *verifReader) Read(p []byte) (int, error) {
	if r.left == 0 {
		r.st.firedRead = true
		return 0, verifErrInjected
	}
	if r.st.chunk > 0 && len(p) > r.st.chunk {
		p = p[:r.st.chunk]
		r.st.firedShort = true
	}
	if r.left > 0 && len(p) > r.left {
		p = p[:r.left]
	}
	n, err := r.r.Read(p)
	if r.left > 0 {
		r.left -= n
	}
	return n, err
}

func (r *verifReader) Close() error {
	if !r.closed {
		r.closed = true
		r.st.closes++
	}
	return r.r.Close()
}

func (s *verifState) State() (io.ReadCloser, int64, os.FileMode, error) {
	s.calls++
	if s.failCall == s.calls {
		s.firedState = true
		return nil, 0, 0, verifErrInjected
	}
	r, size, mode, err := s.inner.State()
	if err != nil {
		return nil, 0, 0, err
	}
	if s.pipeMode {
		mode = os.ModeNamedPipe | 0644
	}
	s.opens++
	vr := &verifReader{r: r, st: s, left: -1}
	if s.readFailCall == s.calls {
		vr.left = s.readFailAt
	}
	return vr, size, mode, nil
}

// ---------------------------------------------------------------------------
// desired state of one name

const (
	verifWantNone = iota
	verifWantMemory
	verifWantRef
	verifWantRefMode
	verifWantSymlink
)

// verifFaultSpec is the drawn fault of one desired name; states are built
// from it (a fresh one for every execution of the round).
type verifFaultSpec struct {
	failCall     int
	readFailCall int
	readFailAt   int
	chunk        int
	badKind      int // 1 missing reference, 2 reference to a directory, 3 memory state with directory mode, 4 named pipe mode
}

type verifWant struct {
	kind    int
	data    []byte
	mode    os.FileMode
	target  string
	bad     string // non-empty: the state can never be satisfied (real error out of snapd's own FileState code)
	fault   string // description of the injected fault, for the log
	fs      verifFaultSpec
	srcPath string
}

func (w *verifWant) regular() bool {
	return w != nil && w.kind != verifWantNone && w.kind != verifWantSymlink && w.bad == ""
}

func (w *verifWant) desc() string {
	if w.kind == verifWantSymlink {
		return "link:" + strings.Replace(w.target, verifCurRoot, "<root>", 1)
	}
	return verifFileDesc(w.mode, w.data)
}

func (w *verifWant) String() string {
	k := []string{"none", "memory", "ref", "ref+mode", "symlink"}[w.kind]
	s := k + " " + w.desc()
	if w.bad != "" {
		s += " BAD(" + w.bad + ")"
	}
	if w.fault != "" {
		s += " FAULT(" + w.fault + ")"
	}
	return s
}

// ---------------------------------------------------------------------------
// snapshots

type verifEnt struct {
	kind   byte // 'd' directory, 'f' regular, 'l' symlink, 'o' other
	data   []byte
	perm   os.FileMode
	target string
}

type verifSnap struct {
	direct   map[string]string   // relpath -> lstat descriptor (what the oracle looks at)
	resolved map[string]string   // symlinks only: descriptor of what they resolve to
	fullDir  map[string]bool     // directories with at least one entry
	size     map[string]int64    // regular files
	ents     map[string]verifEnt // every path below the root, with content: enough to restore it
}

// verifCurRoot is the scratch root of the current run; it is cut out of every
// descriptor because its name differs between executions.
var verifCurRoot string

func verifResolve(p string) string {
	fi, err := os.Stat(p)
	if err != nil {
		return "dangling"
	}
	if fi.IsDir() {
		return "dir"
	}
	if fi.Mode().IsRegular() {
		b, err := os.ReadFile(p)
		if err != nil {
			return "unreadable"
		}
		return verifFileDesc(fi.Mode(), b)
	}
	return "other"
}

// verifSnapshot: flat mode records every entry of root (directories with a
// recursive descriptor); tree mode records every non-directory below root by
// relative path plus the directories whose name matches the patterns.
func verifSnapshot(root string, tree bool, managedBase func(string) bool) *verifSnap {
	s := &verifSnap{direct: map[string]string{}, resolved: map[string]string{}, fullDir: map[string]bool{}, size: map[string]int64{}, ents: map[string]verifEnt{}}
	var walk func(rel string, depth int) string
	walk = func(rel string, depth int) string {
		ents, _ := os.ReadDir(filepath.Join(root, rel))
		parts := make([]string, 0, len(ents))
		for _, e := range ents {
			r := filepath.Join(rel, e.Name())
			p := filepath.Join(root, r)
			fi, err := os.Lstat(p)
			if err != nil {
				continue
			}
			var d string
			switch {
			case fi.IsDir():
				s.ents[r] = verifEnt{kind: 'd'}
				d = walk(r, depth+1)
				if d != "dir[]" {
					s.fullDir[r] = true
				}
				if tree {
					if managedBase(e.Name()) {
						s.direct[r] = "dir"
					}
				} else if depth == 0 {
					s.direct[r] = d
				}
				parts = append(parts, e.Name()+"="+d)
				continue
			case fi.Mode()&os.ModeSymlink != 0:
				t, _ := os.Readlink(p)
				s.ents[r] = verifEnt{kind: 'l', target: t}
				d = "link:" + strings.Replace(t, verifCurRoot, "<root>", 1)
				if tree || depth == 0 {
					s.resolved[r] = verifResolve(p)
				}
			case fi.Mode().IsRegular():
				b, err := os.ReadFile(p)
				if err != nil {
					d = "unreadable"
				} else {
					d = verifFileDesc(fi.Mode(), b)
				}
				s.ents[r] = verifEnt{kind: 'f', data: b, perm: fi.Mode().Perm()}
				if tree || depth == 0 {
					s.size[r] = fi.Size()
				}
			default:
				s.ents[r] = verifEnt{kind: 'o'}
				d = "other:" + fi.Mode().Type().String()
			}
			if tree || depth == 0 {
				s.direct[r] = d
			}
			parts = append(parts, e.Name()+"="+d)
		}
		return "dir[" + strings.Join(parts, ",") + "]"
	}
	walk(".", 0)
	return s
}

// verifDescribeTree is the descriptor of a whole directory (used for the
// places that must never change).
func verifDescribeTree(path string) string {
	ents, _ := os.ReadDir(path)
	parts := []string{}
	for _, e := range ents {
		p := filepath.Join(path, e.Name())
		fi, err := os.Lstat(p)
		if err != nil {
			continue
		}
		switch {
		case fi.IsDir():
			parts = append(parts, e.Name()+"="+verifDescribeTree(p))
		case fi.Mode().IsRegular():
			b, _ := os.ReadFile(p)
			parts = append(parts, e.Name()+"="+verifFileDesc(fi.Mode(), b))
		default:
			parts = append(parts, e.Name()+"=other")
		}
	}
	return "dir[" + strings.Join(parts, ",") + "]"
}

// verifStatSig is a cheap signature of a directory tree that must not change:
// names, types, modes, sizes, inode numbers and modification times. It is
// only compared, never logged.
func verifStatSig(path string) string {
	var sb strings.Builder
	var walk func(p string)
	walk = func(p string) {
		ents, _ := os.ReadDir(p)
		for _, e := range ents {
			q := filepath.Join(p, e.Name())
			fi, err := os.Lstat(q)
			if err != nil {
				continue
			}
			var ino uint64
			if st, ok := fi.Sys().(*syscall.Stat_t); ok {
				ino = st.Ino
			}
			fmt.Fprintf(&sb, "%s|%v|%d|%d|%d;", e.Name(), fi.Mode(), fi.Size(), ino, fi.ModTime().UnixNano())
			if fi.IsDir() {
				sb.WriteString("(")
				walk(q)
				sb.WriteString(")")
			}
		}
	}
	walk(path)
	return sb.String()
}

// restore puts the directory back into the state of the snapshot.
func (w *verifWorld) restore(s *verifSnap) {
	if err := os.RemoveAll(w.dir); err != nil {
		w.c.Fatalf("restore: %v", err)
	}
	if err := os.MkdirAll(w.dir, 0755); err != nil {
		w.c.Fatalf("restore: %v", err)
	}
	paths := make([]string, 0, len(s.ents))
	for p := range s.ents {
		paths = append(paths, p)
	}
	sort.Strings(paths)
	for _, rel := range paths {
		e := s.ents[rel]
		p := filepath.Join(w.dir, rel)
		var err error
		switch e.kind {
		case 'd':
			err = os.Mkdir(p, 0755)
		case 'f':
			if err = os.WriteFile(p, e.data, 0600); err == nil {
				err = os.Chmod(p, e.perm)
			}
		case 'l':
			err = os.Symlink(e.target, p)
		}
		if err != nil {
			w.c.Fatalf("restore %s: %v", rel, err)
		}
	}
}

func verifSortedKeys(m map[string]string) []string {
	ks := make([]string, 0, len(m))
	for k := range m {
		ks = append(ks, k)
	}
	sort.Strings(ks)
	return ks
}

func (s *verifSnap) String() string {
	parts := []string{}
	for _, k := range verifSortedKeys(s.direct) {
		d := s.direct[k]
		if r, ok := s.resolved[k]; ok {
			d += "->" + r
		}
		parts = append(parts, verifShort(k)+"="+d)
	}
	return "{" + strings.Join(parts, " ") + "}"
}

// ---------------------------------------------------------------------------
// the world of one run

type verifWorld struct {
	c         *verifsim.Ctx
	root      string
	dir       string // the synchronized directory
	outside   string // symlink targets, must never change
	src       string // FileReference sources, must never change
	tree      bool
	globs     []string
	faultsOn  bool
	obstacles bool            // directories / immutable files may sit on names matching the patterns
	immutPlan map[string]bool // relpaths that carry the immutable flag during the calls of this round
	immutSet  []string        // paths that carry it right now
	srcSeq    int
	dirGone   bool
}

// maxRounds: 1-3 synchronizations per run in the quick tier, 1-5 in thorough.
func (w *verifWorld) maxRounds() int {
	if w.c.Tier == "thorough" {
		return 5
	}
	return 3
}

func (w *verifWorld) managed(rel string) bool {
	return verifMatchAny(w.globs, filepath.Base(rel))
}

func (w *verifWorld) clearImmutable() {
	for i := len(w.immutSet) - 1; i >= 0; i-- {
		verifSetImmutable(w.immutSet[i], false)
	}
	w.immutSet = nil
}

func (w *verifWorld) setImmutable(p string) {
	if err := verifSetImmutable(p, true); err != nil {
		w.c.Fatalf("cannot set the immutable flag on %s: %v", p, err)
	}
	w.immutSet = append(w.immutSet, p)
}

func (w *verifWorld) mustWrite(p string, data []byte, mode os.FileMode) {
	if err := os.MkdirAll(filepath.Dir(p), 0755); err != nil {
		w.c.Fatalf("mkdir for %s: %v", p, err)
	}
	if err := os.WriteFile(p, data, 0600); err != nil {
		w.c.Fatalf("write %s: %v", p, err)
	}
	if err := os.Chmod(p, mode); err != nil {
		w.c.Fatalf("chmod %s: %v", p, err)
	}
}

// outsideFile makes sure outside/<tag> exists with the given content and
// returns its path.
func (w *verifWorld) outsideFile(tag string, data []byte, mode os.FileMode) string {
	p := filepath.Join(w.outside, tag)
	w.mustWrite(p, data, mode)
	return p
}

const (
	verifInitAbsent = iota
	verifInitFile
	verifInitDirEmpty
	verifInitDirFull
	verifInitLink
	verifInitImmutable
)

var verifInitKindTab = []int{verifInitAbsent, verifInitAbsent, verifInitAbsent, verifInitAbsent, verifInitAbsent, verifInitFile, verifInitFile, verifInitFile, verifInitFile,
	verifInitFile, verifInitFile, verifInitLink, verifInitLink, verifInitDirEmpty, verifInitDirFull, verifInitImmutable}

// place (re)creates dir/<rel> according to tape draws. want may be nil.
func (w *verifWorld) place(rel string, want *verifWant, label string) {
	c := w.c
	p := filepath.Join(w.dir, rel)
	os.RemoveAll(p)
	delete(w.immutPlan, rel)
	kind := verifInitKindTab[c.Draw(label+"-kind:"+verifShort(rel), len(verifInitKindTab))]
	managed := w.managed(rel)
	if (!w.obstacles || !verifImmutableOK) && kind == verifInitImmutable {
		kind = verifInitFile
	}
	if !w.obstacles && managed && (kind == verifInitDirEmpty || kind == verifInitDirFull) {
		kind = verifInitFile
	}
	if w.tree && kind == verifInitDirEmpty {
		// empty directories matching the patterns are left out of the tree
		// variant: whether EnsureTreeState re-creates and removes them
		// again depends on its map iteration order
		kind = verifInitDirFull
	}
	if w.tree && !managed && (kind == verifInitDirEmpty || kind == verifInitDirFull) {
		kind = verifInitFile
	}
	if len(filepath.Base(rel)) > 200 && kind != verifInitAbsent && kind != verifInitFile {
		kind = verifInitFile
	}
	switch kind {
	case verifInitAbsent:
		c.Logf("%s %s: absent", label, verifShort(rel))
	case verifInitFile, verifInitImmutable:
		var data []byte
		mode := os.FileMode(0644)
		if c.Draw(label+"-content", 4) == 0 && want.regular() {
			data = want.data
		} else {
			data = verifContent(filepath.Base(rel), verifContentWeights[c.Draw(label+"-variant", len(verifContentWeights))])
		}
		if c.Draw(label+"-mode", 3) == 0 && want.regular() {
			mode = want.mode
		} else {
			mode = verifModes[c.Draw(label+"-modeval", len(verifModes))]
		}
		w.mustWrite(p, data, mode)
		if kind == verifInitImmutable {
			w.immutPlan[rel] = true
		}
		c.Logf("%s %s: %s immutable=%v", label, verifShort(rel), verifFileDesc(mode, data), kind == verifInitImmutable)
	case verifInitDirEmpty:
		if err := os.MkdirAll(p, 0755); err != nil {
			c.Fatalf("mkdir %s: %v", p, err)
		}
		c.Logf("%s %s: empty directory", label, verifShort(rel))
	case verifInitDirFull:
		w.mustWrite(filepath.Join(p, "inner"), []byte("inner file of "+verifShort(rel)), 0644)
		c.Logf("%s %s: non-empty directory", label, verifShort(rel))
	case verifInitLink:
		var target string
		tag := strings.ReplaceAll(rel, "/", "_")
		switch c.Draw(label+"-link", 4) {
		case 0:
			// resolves to a regular file equal to the desired state (or to
			// some other file if nothing regular is desired)
			if want.regular() {
				target = w.outsideFile("same-"+tag, want.data, want.mode)
			} else {
				target = w.outsideFile("some-"+tag, verifContent(tag, 1), 0644)
			}
		case 1:
			target = filepath.Join(w.outside, "victim.txt")
		case 2:
			target = filepath.Join(w.outside, "no-such-file")
		case 3:
			if w.obstacles {
				target = filepath.Join(w.outside, "adir")
			} else {
				target = filepath.Join(w.outside, "victim.txt")
			}
		}
		if want != nil && want.kind == verifWantSymlink {
			switch c.Draw(label+"-link-same", 3) {
			case 0:
				target = want.target
			case 1:
				target = verifLinkTargets[c.Draw(label+"-link-other", len(verifLinkTargets))]
			}
		}
		if err := os.MkdirAll(filepath.Dir(p), 0755); err != nil {
			c.Fatalf("mkdir: %v", err)
		}
		if err := os.Symlink(target, p); err != nil {
			c.Fatalf("symlink %s: %v", p, err)
		}
		c.Logf("%s %s: symlink -> %s", label, verifShort(rel), strings.TrimPrefix(target, w.root))
	}
}

// two of the link targets have the same length
var verifLinkTargets = []string{"../outside/victim.txt", "../outside/victim.txx", "/nonexistent/target", "snap.foo.elsewhere"}

var verifWantKindTab = []int{verifWantNone, verifWantNone, verifWantNone, verifWantMemory, verifWantMemory, verifWantMemory, verifWantRef, verifWantRefMode, verifWantSymlink, verifWantMemory}

// drawWant draws the desired state of one managed name (0 = not desired).
func (w *verifWorld) drawWant(rel string) *verifWant {
	c := w.c
	want := &verifWant{kind: verifWantKindTab[c.Draw("want-kind:"+verifShort(rel), len(verifWantKindTab))]}
	if want.kind == verifWantNone {
		return want
	}
	if want.kind == verifWantSymlink {
		want.target = verifLinkTargets[c.Draw("want-target", len(verifLinkTargets))]
		return want
	}
	want.data = verifContent(filepath.Base(rel), verifContentWeights[c.Draw("want-variant", len(verifContentWeights))])
	want.mode = verifModes[c.Draw("want-mode", len(verifModes))]
	return want
}

// arm draws the fault of one desired name (once per round).
func (w *verifWorld) arm(rel string, want *verifWant) {
	c := w.c
	want.bad, want.fault = "", ""
	want.fs = verifFaultSpec{}
	switch want.kind {
	case verifWantRef:
		w.srcSeq++
		want.srcPath = filepath.Join(w.src, fmt.Sprintf("ref%d", w.srcSeq))
		w.mustWrite(want.srcPath, want.data, want.mode)
	case verifWantRefMode:
		w.srcSeq++
		want.srcPath = filepath.Join(w.src, fmt.Sprintf("ref%d", w.srcSeq))
		w.mustWrite(want.srcPath, want.data, 0600)
	}
	if !w.faultsOn {
		return
	}
	fs := &want.fs
	f := c.Draw("fault:"+verifShort(rel), 24)
	switch {
	case f <= 16:
	case f <= 18:
		fs.failCall = 1 + c.Draw("fail-call", 3)
		want.fault = fmt.Sprintf("State() fails at call %d", fs.failCall)
	case f <= 20:
		fs.readFailCall = 3 - c.Draw("read-fail-call", 3)
		fs.readFailAt = c.Draw("read-fail-at", len(want.data)+len(want.target)+1)
		want.fault = fmt.Sprintf("reader of call %d fails after %d bytes", fs.readFailCall, fs.readFailAt)
	case f <= 22:
		if len(want.data) > 1000 {
			fs.chunk = []int{4096, 16383, 5000, 16385}[c.Draw("chunk", 4)]
		} else {
			fs.chunk = 1 + c.Draw("chunk", 7)
		}
		want.fault = fmt.Sprintf("short reads of %d bytes", fs.chunk)
	default:
		fs.badKind = 1 + c.Draw("bad-kind", 4)
		want.bad = []string{"", "reference to a missing file", "reference to a directory", "memory state with directory mode", "state reporting a named pipe mode"}[fs.badKind]
	}
}

// newState builds the FileState handed to snapd for one execution.
func (w *verifWorld) newState(want *verifWant) *verifState {
	fs := want.fs
	st := &verifState{failCall: fs.failCall, readFailCall: fs.readFailCall, readFailAt: fs.readFailAt, chunk: fs.chunk}
	switch want.kind {
	case verifWantMemory:
		st.inner = &osutil.MemoryFileState{Content: want.data, Mode: want.mode}
	case verifWantRef:
		st.inner = osutil.FileReference{Path: want.srcPath}
	case verifWantRefMode:
		st.inner = osutil.FileReferencePlusMode{FileReference: osutil.FileReference{Path: want.srcPath}, Mode: want.mode}
	case verifWantSymlink:
		st.inner = osutil.SymlinkFileState{Target: want.target}
	}
	switch fs.badKind {
	case 1:
		st.inner = osutil.FileReference{Path: filepath.Join(w.src, "no-such-source")}
	case 2:
		st.inner = osutil.FileReference{Path: w.src}
	case 3:
		st.inner = &osutil.MemoryFileState{Content: want.data, Mode: os.ModeDir | 0755}
	case 4:
		st.pipeMode = true
	}
	return st
}

// verifRound is one execution of one round.
type verifRound struct {
	wants       map[string]*verifWant // only desired ones
	states      map[string]*verifState
	immutDir    bool
	immutPaths  map[string]bool
	contentDirs []string // tree variant: keys of the content map
	before      *verifSnap
	after       *verifSnap
	outBefore   string
	outAfter    string
	changed     []string
	removed     []string
	err         error
}

// verifVerdict collects what the oracle says about one execution, so that it
// can be applied (or dropped) afterwards.
type verifVerdict struct {
	viol   [][2]string
	counts []string
	notes  []string
}

func (v *verifVerdict) violate(class, format string, args ...interface{}) {
	v.viol = append(v.viol, [2]string{class, fmt.Sprintf(format, args...)})
}
func (v *verifVerdict) count(name string) { v.counts = append(v.counts, name) }
func (v *verifVerdict) note(format string, args ...interface{}) {
	v.notes = append(v.notes, fmt.Sprintf(format, args...))
}

func (w *verifWorld) apply(v *verifVerdict) {
	for _, n := range v.notes {
		w.note("%s", n)
	}
	for _, n := range v.counts {
		w.c.Count(n)
	}
	for _, x := range v.viol {
		w.c.Violate(x[0], "%s", x[1])
	}
}

// ---------------------------------------------------------------------------
// the oracle

// exact tells whether the entry rel in snap is the desired one. A symlink
// that resolves to a regular file with exactly the desired bytes and
// permission bits is accepted for a desired regular file: the statement does
// not speak about symlinks in the initial directory, and a reader of the
// name sees the desired content.
func verifExact(s *verifSnap, rel string, want *verifWant) (ok bool, lenient bool) {
	if want.bad != "" {
		return false, false
	}
	d, present := s.direct[rel]
	if !present {
		return false, false
	}
	if d == want.desc() {
		return true, false
	}
	if want.kind != verifWantSymlink && strings.HasPrefix(d, "link:") && s.resolved[rel] == want.desc() {
		return true, true
	}
	return false, false
}

func verifMismatchClass(d string, want *verifWant) string {
	wd := want.desc()
	switch {
	case want.bad != "":
		return "C23/success-despite-unsatisfiable-state"
	case strings.HasPrefix(d, "file:") && strings.HasPrefix(wd, "file:"):
		if d[len("file:0000"):] == wd[len("file:0000"):] {
			return "C23/wrong-mode"
		}
		return "C23/wrong-content"
	case strings.HasPrefix(d, "link:") && strings.HasPrefix(wd, "link:"):
		return "C23/wrong-content"
	}
	return "C23/wrong-type"
}

func verifSet(l []string) (map[string]bool, bool) {
	m := map[string]bool{}
	dup := false
	for _, x := range l {
		if m[x] {
			dup = true
		}
		m[x] = true
	}
	return m, dup
}

func (w *verifWorld) judge(r *verifRound, round int) *verifVerdict {
	v := &verifVerdict{}
	before, after := r.before, r.after

	// undeletable: entries whose removal cannot succeed in this round
	undeletable := func(rel string) bool {
		if r.immutDir || r.immutPaths[rel] {
			return true
		}
		if w.tree {
			// a directory matching the patterns is always non-empty here
			return before.direct[rel] == "dir"
		}
		return before.fullDir[rel]
	}

	// 1. unrelated entries
	for _, rel := range verifSortedKeys(before.direct) {
		if w.managed(rel) {
			continue
		}
		if a, ok := after.direct[rel]; !ok {
			v.violate("C23/unrelated-changed", "round %d: entry %s not matching %v disappeared (was %s)", round, verifShort(rel), w.globs, before.direct[rel])
		} else if a != before.direct[rel] {
			v.violate("C23/unrelated-changed", "round %d: entry %s not matching %v changed from %s to %s", round, verifShort(rel), w.globs, before.direct[rel], a)
		}
	}
	for _, rel := range verifSortedKeys(after.direct) {
		if _, ok := before.direct[rel]; !ok && !w.managed(rel) {
			v.violate("C23/stray-entry", "round %d: entry %s not matching %v appeared: %s", round, verifShort(rel), w.globs, after.direct[rel])
		}
	}
	if r.outBefore != r.outAfter {
		v.note("outside now: %s %s", verifDescribeTree(w.outside), verifDescribeTree(w.src))
		v.violate("C23/outside-changed", "round %d: files outside the synchronized directory (symlink targets, reference sources) were modified", round)
	}

	// facts about faults
	anyFired := false
	obstacle := ""
	undeletableStale := ""
	readFired := map[string]bool{}
	for _, rel := range verifSortedWants(r.wants) {
		want := r.wants[rel]
		st := r.states[rel]
		if st.firedState || st.firedRead {
			anyFired = true
		}
		if st.firedRead {
			readFired[rel] = true
		}
		if want.bad != "" && obstacle == "" {
			obstacle = verifShort(rel) + ": " + want.bad
		}
		if len(filepath.Base(rel)) > 240 && obstacle == "" {
			obstacle = verifShort(rel) + ": temporary name exceeds NAME_MAX"
		}
		d := before.direct[rel]
		if strings.HasPrefix(d, "dir") && obstacle == "" {
			obstacle = verifShort(rel) + ": directory in the way"
		}
		if strings.HasPrefix(d, "link:") && before.resolved[rel] == "dir" && want.kind != verifWantSymlink && obstacle == "" {
			obstacle = verifShort(rel) + ": symlink to a directory in the way"
		}
	}
	if r.immutDir && obstacle == "" {
		obstacle = "directory is immutable"
	}
	if w.dirGone && len(r.wants) > 0 && obstacle == "" {
		obstacle = "directory does not exist"
	}
	for _, p := range verifSortedBool(r.immutPaths) {
		if obstacle == "" && w.managed(p) {
			obstacle = verifShort(p) + ": immutable"
		}
	}
	if w.tree {
		// a regular file squatting on a directory of the content map
		for _, rel := range r.contentDirs {
			for d := rel; d != "."; d = filepath.Dir(d) {
				if strings.HasPrefix(before.direct[d], "file:") || strings.HasPrefix(before.direct[d], "link:") {
					if obstacle == "" {
						obstacle = d + ": not a directory"
					}
				}
			}
		}
	}
	for _, rel := range verifSortedKeys(before.direct) {
		if w.managed(rel) && r.wants[rel] == nil && undeletable(rel) && undeletableStale == "" {
			undeletableStale = verifShort(rel)
		}
	}

	// state predicates
	var survivors []string // managed entries left that could have been removed
	allExact := true       // every managed entry left is desired and exact, or undeletable; every desired one is exact
	for _, rel := range verifSortedKeys(after.direct) {
		if !w.managed(rel) {
			continue
		}
		if !undeletable(rel) {
			survivors = append(survivors, verifShort(rel))
		}
		want := r.wants[rel]
		if want == nil {
			if !undeletable(rel) {
				allExact = false
			}
			continue
		}
		if ok, _ := verifExact(after, rel, want); !ok && !undeletable(rel) {
			allExact = false
		}
	}
	for _, rel := range verifSortedWants(r.wants) {
		if ok, _ := verifExact(after, rel, r.wants[rel]); !ok {
			allExact = false
		}
	}

	if r.err == nil {
		v.count("outcome:success")
		// 2. success: exactly the desired files
		for _, rel := range verifSortedKeys(after.direct) {
			if !w.managed(rel) {
				continue
			}
			want := r.wants[rel]
			if want == nil {
				v.violate("C23/stale-managed-entry", "round %d: call succeeded but %s (matching %v, not desired) is still there: %s", round, verifShort(rel), w.globs, after.direct[rel])
				continue
			}
			ok, lenient := verifExact(after, rel, want)
			if !ok {
				v.violate(verifMismatchClass(after.direct[rel], want), "round %d: call succeeded but %s is %s, desired %s", round, verifShort(rel), after.direct[rel], want.desc())
			}
			if lenient {
				v.count("probe:symlink-left-in-place")
			}
		}
		for _, rel := range verifSortedWants(r.wants) {
			if _, ok := after.direct[rel]; !ok {
				if r.wants[rel].bad != "" {
					v.violate("C23/success-despite-unsatisfiable-state", "round %d: call succeeded although the state of %s is a %s", round, verifShort(rel), r.wants[rel].bad)
				} else {
					v.violate("C23/desired-missing", "round %d: call succeeded but desired %s is missing", round, verifShort(rel))
				}
			}
		}
		// reported lists: exactly what differs on disk
		chg, dup := verifSet(r.changed)
		if dup {
			v.violate("C23/changed-list", "round %d: duplicates in changed list %v", round, verifShortAll(r.changed))
		}
		for _, rel := range verifSortedWants(r.wants) {
			differs := before.direct[rel] != after.direct[rel]
			switch {
			case differs && !chg[rel]:
				v.violate("C23/changed-list", "round %d: %s went from %q to %q but is not in changed list %v", round, verifShort(rel), before.direct[rel], after.direct[rel], verifShortAll(r.changed))
			case !differs && chg[rel] && !readFired[rel]:
				v.violate("C23/changed-list", "round %d: %s is unchanged (%s) but reported in changed list %v", round, verifShort(rel), after.direct[rel], verifShortAll(r.changed))
			}
			delete(chg, rel)
		}
		for _, rel := range verifSortedBool(chg) {
			v.violate("C23/changed-list", "round %d: changed list names %s which is not a desired file", round, verifShort(rel))
		}
		rem, dup := verifSet(r.removed)
		if dup {
			v.violate("C23/removed-list", "round %d: duplicates in removed list %v", round, verifShortAll(r.removed))
		}
		for _, rel := range verifSortedKeys(before.direct) {
			if !w.managed(rel) {
				continue
			}
			_, still := after.direct[rel]
			switch {
			case !still && !rem[rel]:
				v.violate("C23/removed-list", "round %d: %s was removed but is not in removed list %v", round, verifShort(rel), verifShortAll(r.removed))
			case still && rem[rel]:
				v.violate("C23/removed-list", "round %d: %s is reported removed but still exists", round, verifShort(rel))
			}
			delete(rem, rel)
		}
		for _, rel := range verifSortedBool(rem) {
			v.violate("C23/removed-list", "round %d: removed list names %s which did not exist before", round, verifShort(rel))
		}
		// probes
		if len(r.wants) > 0 && len(r.changed) == 0 && len(r.removed) == 0 {
			v.count("probe:nothing-to-do")
		}
		for _, rel := range verifSortedWants(r.wants) {
			b, a := before.direct[rel], after.direct[rel]
			if strings.HasPrefix(b, "file:") && strings.HasPrefix(a, "file:") && b != a && b[:9] == a[:9] && before.size[rel] == after.size[rel] && after.size[rel] > 0 {
				v.count("probe:same-size-same-mode-rewritten")
			}
			if b == a && len(r.wants[rel].data) > 16384 {
				v.count("probe:multi-chunk-equal")
			}
			if strings.HasPrefix(b, "link:") && strings.HasPrefix(a, "file:") {
				v.count("probe:symlink-replaced")
			}
		}
		for _, rel := range r.removed {
			if strings.HasSuffix(rel, "~") {
				v.count("probe:stale-temp-file-removed")
			}
		}
		return v
	}

	// 3. failure
	v.count("outcome:error")
	excuse := anyFired || obstacle != "" || undeletableStale != ""
	failClosed := len(survivors) == 0
	switch {
	case failClosed:
		if !excuse {
			v.violate("C23/spurious-error", "round %d: call failed with %q although nothing was in the way and no fault fired", round, verifErrText(r.err))
		}
		v.count("probe:fail-closed")
		dirsHit := map[string]bool{}
		for rel := range before.direct {
			if w.managed(rel) && !undeletable(rel) {
				dirsHit[filepath.Dir(rel)] = true
			}
		}
		if len(dirsHit) > 0 {
			v.count("probe:erase-removed-existing")
		}
		if len(dirsHit) > 1 {
			v.count("probe:tree-erase-across-directories")
		}
	case allExact && undeletableStale != "":
		// only a removal failed: the desired files are all in place, and
		// nothing stale that could be removed is left
		v.count("probe:removal-only-failure")
	default:
		switch {
		case anyFired || obstacle != "":
			v.note("removable survivors: %v; error: %s", survivors, verifErrText(r.err))
			v.violate("C23/fail-open:managed-entry-survives-write-failure", "round %d: a write failed (%s) but removable entries matching %v remain (the unhashed lines of the trace say which)", round, verifCause(anyFired, obstacle), w.globs)
		case undeletableStale != "":
			v.note("error: %s; left: %s", verifErrText(r.err), after)
			v.violate("C23/removal-failure:neither-synchronized-nor-erased", "round %d: removal of %s failed; entries matching %v are neither all desired nor all gone", round, undeletableStale, w.globs)
		default:
			v.violate("C23/spurious-error", "round %d: call failed with %q although nothing was in the way and no fault fired; left %s", round, verifErrText(r.err), after)
		}
	}
	return v
}

// note adds a line to the human readable trace only (not to the hashed event
// log): details that depend on snapd's map iteration order.
func (w *verifWorld) note(format string, args ...interface{}) {
	if w.c.Verbose {
		w.c.Trace = append(w.c.Trace, "    (unhashed) "+fmt.Sprintf(format, args...))
	}
}

// verifCause names the reason of a write failure without depending on which
// of several armed faults snapd's map iteration reached first.
func verifCause(fired bool, obstacle string) string {
	if obstacle != "" {
		return obstacle
	}
	return "injected fault fired"
}

// verifErrText strips the scratch path (it differs between executions).
func verifErrText(err error) string {
	s := err.Error()
	for {
		i := strings.Index(s, verifCurRoot)
		if i < 0 {
			break
		}
		j := i
		for j < len(s) && s[j] != ' ' && s[j] != ':' && s[j] != '"' {
			j++
		}
		s = s[:i] + "<scratch>" + s[j:]
	}
	if len(s) > 160 {
		s = s[:160] + "..."
	}
	return s
}

func verifShortAll(l []string) []string {
	out := make([]string, len(l))
	for i, x := range l {
		out[i] = verifShort(x)
	}
	return out
}

func verifSortedWants(m map[string]*verifWant) []string {
	ks := make([]string, 0, len(m))
	for k := range m {
		ks = append(ks, k)
	}
	sort.Strings(ks)
	return ks
}

func verifSortedBool(m map[string]bool) []string {
	ks := make([]string, 0, len(m))
	for k := range m {
		ks = append(ks, k)
	}
	sort.Strings(ks)
	return ks
}

// ---------------------------------------------------------------------------
// name pools

var verifFlatNames = []string{
	"snap.foo.app", "snap.foo.svc", "snap.foo.hook.configure", "snap-update-ns.foo", "snap.foo",
	"snap.foo.app.Qx7PlmZk31aB~", // what a crashed AtomicWrite leaves behind
	"snap.foo_inst.app", "snap.foobar.app", "snap.bar.app", "other.txt", ".snap.foo.app.swp",
}

var verifGlobSets = [][]string{
	{"snap.foo.*"},
	{"snap.foo.*", "snap-update-ns.foo"},
	{"snap.foo.*", "snap.foo"},
	{"snap.foo.???", "snap.foo.hook.*", "snap-update-ns.foo"},
	{"*"},
}

var verifTreeDirs = []string{".", "hicolor", "hicolor/48x48/apps", "hicolor/scalable/apps", "other-theme"}
var verifTreeNames = []string{"snap.foo.icon.png", "snap.foo.app.svg", "snap.bar.icon.png", "index.theme"}
var verifTreeGlobSets = [][]string{
	{"snap.foo.*"},
	{"snap.foo.*.png", "snap.foo.*.svg"},
}

// verifOrderVariant gives the insertion order used for the k-th execution of
// a round: rotations of the base order, every other one reversed. With the
// Go runtime used here a map of up to 8 entries iterates in a rotation of its
// insertion order, most often the identity, so this makes the executions of
// a round start snapd's loop at different files. Nothing but the chance of
// seeing an order dependent failure relies on that.
func verifOrderVariant(base []string, k int) []string {
	n := len(base)
	out := make([]string, n)
	for i := range base {
		out[i] = base[(i+k/2)%n]
	}
	if k%2 == 1 {
		for i, j := 0, n-1; i < j; i, j = i+1, j-1 {
			out[i], out[j] = out[j], out[i]
		}
	}
	return out
}

// verifExecutions is how often a failing round is executed at most (from the
// same restored initial state) while no execution violates the property:
// the position of the failing file in snapd's loop over the content map is
// decided by Go's map iteration order, which the tape cannot control.
const verifExecutions = 5

// verifExecutionsVerbose is used when the run is re-executed for a replay file
// or by --replay (cost does not matter there, reproducing does).
const verifExecutionsVerbose = 32

// verifKnownViolating remembers (per process) the scenarios, identified by
// the tape consumed up to the call, in which some execution violated the
// property. When the same scenario is executed again (the core re-executes
// a violating tape to minimise and to confirm it) the round is repeated up to
// verifExecutionsKnown times, so that an order dependent violation that was
// seen once is seen again. No verdict comes from the cache: it only decides
// how often the real code is executed.
var verifKnownViolating = map[uint64]bool{}

const verifExecutionsKnown = 64

func verifTapeKey(c *verifsim.Ctx, round int) uint64 {
	h := fnv.New64a()
	var b [4]byte
	for _, v := range c.Tape.Used {
		b[0], b[1], b[2], b[3] = byte(v), byte(v>>8), byte(v>>16), byte(v>>24)
		h.Write(b[:])
	}
	b[0] = byte(round)
	h.Write(b[:1])
	return h.Sum64()
}

// ---------------------------------------------------------------------------
// the run

func verifRunC23(c *verifsim.Ctx) {
	verifInit()
	rand.Seed(int64(c.Draw("tmp-name-seed", 1<<16)))

	root, err := os.MkdirTemp(verifScratchBase, verifScratchPattern("run"))
	if err != nil {
		c.Fatalf("mkdtemp: %v", err)
	}
	verifCurRoot = root
	w := &verifWorld{c: c, root: root, dir: filepath.Join(root, "dir"), outside: filepath.Join(root, "outside"), src: filepath.Join(root, "src"), immutPlan: map[string]bool{}}
	defer func() {
		w.clearImmutable()
		if err := os.RemoveAll(root); err != nil {
			panic(verifsim.HarnessError{Msg: "cannot clean scratch: " + err.Error()})
		}
	}()
	for _, d := range []string{w.dir, w.outside, w.src} {
		if err := os.MkdirAll(d, 0755); err != nil {
			c.Fatalf("mkdir: %v", err)
		}
	}
	w.mustWrite(filepath.Join(w.outside, "victim.txt"), []byte("victim: must never change\n"), 0644)
	w.mustWrite(filepath.Join(w.outside, "adir", "file-in-adir"), []byte("x"), 0644)

	variant := []int{0, 0, 0, 0, 0, 1, 1, 2}[c.Draw("variant", 8)]
	w.faultsOn = c.Draw("faults", 4) != 0
	w.obstacles = w.faultsOn && c.Draw("obstacles", 2) == 1
	// snapd skips fsync in binaries named like go test binaries; the driver's
	// binary is not, so both settings are reachable: draw it
	realSync := c.Draw("fsync", 2) == 0
	defer osutil.SetUnsafeIO(!realSync)()
	c.Logf("variant=%s faults=%v obstacles=%v immutable-supported=%v fsync=%v", []string{"dir", "tree", "file"}[variant], w.faultsOn, w.obstacles, verifImmutableOK, realSync)
	switch variant {
	case 0:
		verifRunDir(w)
	case 1:
		w.tree = true
		verifRunTree(w)
	case 2:
		verifRunFile(w)
	}
}

// execute performs the call of one round once. call gets the fresh states.
func (w *verifWorld) execute(tmpl *verifRound, reuse *verifSnap, k int, call func(r *verifRound, k int)) *verifRound {
	r := &verifRound{wants: tmpl.wants, immutDir: tmpl.immutDir, immutPaths: tmpl.immutPaths, contentDirs: tmpl.contentDirs, states: map[string]*verifState{}}
	for _, rel := range verifSortedWants(r.wants) {
		r.states[rel] = w.newState(r.wants[rel])
	}
	snap := func() *verifSnap {
		return verifSnapshot(w.dir, w.tree, func(b string) bool { return verifMatchAny(w.globs, b) })
	}
	if reuse != nil {
		r.before = reuse
	} else {
		r.before = snap()
	}
	r.outBefore = verifStatSig(w.outside) + verifStatSig(w.src)
	for _, rel := range verifSortedBool(r.immutPaths) {
		w.setImmutable(filepath.Join(w.dir, rel))
	}
	if r.immutDir {
		w.setImmutable(w.dir)
	}
	call(r, k)
	w.clearImmutable()
	r.after = snap()
	r.outAfter = verifStatSig(w.outside) + verifStatSig(w.src)
	return r
}

// runRound executes one round, repeats it while it fails without a violation
// (see verifExecutions), logs and applies the verdict.
func (w *verifWorld) runRound(round int, tmpl *verifRound, entries int, call func(r *verifRound, k int)) {
	c := w.c
	tmpl.immutPaths = map[string]bool{}
	for rel := range w.immutPlan {
		tmpl.immutPaths[rel] = true
	}
	key := verifTapeKey(c, round)
	r := w.execute(tmpl, nil, 0, call)
	c.Logf("round %d: before=%s immutable-dir=%v", round, r.before, r.immutDir)
	for _, rel := range verifSortedWants(r.wants) {
		c.Logf("  want %s: %s", verifShort(rel), r.wants[rel])
	}
	v := w.judge(r, round)
	first := r
	if r.err != nil && len(v.viol) == 0 && !w.dirGone && entries >= 2 {
		max := verifExecutions
		if c.Verbose {
			max = verifExecutionsVerbose
		}
		if verifKnownViolating[key] {
			max = verifExecutionsKnown
		}
		for k := 1; k < max; k++ {
			w.restore(first.before)
			var reuse *verifSnap
			if k > 1 {
				reuse = first.before // (the first restore of a round is verified)
			}
			r2 := w.execute(tmpl, reuse, k, call)
			c.Count("executions:repeated")
			if r2.before.String() != first.before.String() {
				c.Fatalf("restore does not reproduce the initial state: %s vs %s", r2.before, first.before)
			}
			v2 := w.judge(r2, round)
			if (r2.err == nil) != (first.err == nil) || r2.after.String() != first.after.String() {
				// allowed by the statement as long as every outcome is, but
				// worth knowing (and it would make the event log depend on
				// the map order)
				c.Count("obs:outcome-depends-on-map-order")
				w.note("execution %d differs: err=%v after=%s", k, r2.err != nil, r2.after)
			}
			if len(v2.viol) > 0 {
				r, v = r2, v2
				break
			}
		}
	}
	// counters of what fired, from the first execution
	for _, rel := range verifSortedWants(first.wants) {
		st := first.states[rel]
		if st.firedState {
			c.Count("fault:state-error")
		}
		if st.firedRead {
			c.Count("fault:reader-error")
		}
		if st.firedShort {
			c.Count("fault:short-read")
		}
		if st.firedState || st.firedRead {
			c.Nontrivial()
		}
		if st.opens > st.closes {
			c.Add("obs:readers-not-closed", int64(st.opens-st.closes))
		}
	}
	if first.err != nil {
		c.Nontrivial()
		// environment obstacles are counted when the call failed in their presence
		for _, rel := range verifSortedWants(first.wants) {
			want := first.wants[rel]
			d := first.before.direct[rel]
			same, _ := verifExact(first.before, rel, want)
			switch {
			case want.bad != "":
				c.Count("fault:unsatisfiable-state")
			case len(filepath.Base(rel)) > 240 && !same:
				c.Count("fault:name-too-long")
			case strings.HasPrefix(d, "dir"):
				c.Count("fault:directory-in-the-way")
			case strings.HasPrefix(d, "link:") && first.before.resolved[rel] == "dir" && want.kind != verifWantSymlink:
				c.Count("fault:symlink-to-directory-in-the-way")
			}
		}
		if first.immutDir {
			c.Count("fault:immutable-directory")
		}
		for _, rel := range verifSortedBool(first.immutPaths) {
			if w.managed(rel) {
				c.Count("fault:immutable-file")
			}
		}
		for _, rel := range verifSortedKeys(first.before.direct) {
			if w.managed(rel) && first.wants[rel] == nil && strings.HasPrefix(first.before.direct[rel], "dir") {
				if _, still := first.after.direct[rel]; still {
					c.Count("fault:undeletable-directory")
				}
			}
		}
		if w.dirGone {
			c.Count("fault:missing-directory")
		}
	}
	if len(first.changed) > 0 && len(first.removed) > 0 {
		c.Nontrivial()
	}
	if w.tree && first.err == nil {
		// observation only (directories are outside the statement, and the
		// effect depends on snapd's map iteration order, so it stays out of
		// the event log): an empty directory that is not in the content map
		// and from which nothing was removed disappears
		for rel, e := range first.before.ents {
			if e.kind != 'd' || first.before.fullDir[rel] || w.managed(rel) {
				continue
			}
			if _, still := first.after.ents[rel]; still {
				continue
			}
			inContent := false
			for _, d := range first.contentDirs {
				if d == rel || strings.HasPrefix(d, rel+"/") {
					inContent = true
				}
			}
			if !inContent {
				c.Count("obs:unrelated-empty-directory-removed")
			}
		}
	}
	// the hashed event log
	switch {
	case r.err == nil:
		ch := append([]string{}, r.changed...)
		rm := append([]string{}, r.removed...)
		sort.Strings(ch)
		sort.Strings(rm)
		c.Logf("round %d: ok changed=%v removed=%v after=%s", round, verifShortAll(ch), verifShortAll(rm), r.after)
	case len(v.viol) == 0:
		// neither the error text nor the lists are hashed on failure: with
		// several obstacles they depend on snapd's map iteration order
		c.Logf("round %d: error after=%s", round, r.after)
		w.note("error=%q changed=%v removed=%v", verifErrText(r.err), verifShortAll(r.changed), verifShortAll(r.removed))
	default:
		// which entries survive a mishandled failure depends on the map
		// order too: only the verdict is hashed
		c.Logf("round %d: error, violating execution", round)
		w.note("error=%q changed=%v removed=%v after=%s", verifErrText(r.err), verifShortAll(r.changed), verifShortAll(r.removed), r.after)
	}
	if len(v.viol) > 0 && len(verifKnownViolating) < 1<<16 {
		verifKnownViolating[key] = true
	}
	w.apply(v)
	// immutability is per round
	w.immutPlan = map[string]bool{}
}

// verifRunDir: EnsureDirState / EnsureDirStateGlobs on a flat directory.
func verifRunDir(w *verifWorld) {
	c := w.c
	w.globs = verifGlobSets[c.Draw("globs", len(verifGlobSets))]
	names := append([]string{}, verifFlatNames...)
	if c.Draw("long-name", 6) == 5 {
		names = append(names, verifLongName)
	}
	useSingle := len(w.globs) == 1 && c.Draw("single-glob-api", 2) == 0
	c.Logf("globs=%v api=%s", w.globs, map[bool]string{true: "EnsureDirState", false: "EnsureDirStateGlobs"}[useSingle])
	if w.obstacles && c.Draw("dir-missing", 40) == 39 {
		os.Remove(w.dir)
		w.dirGone = true
		c.Logf("the directory does not exist")
	}

	rounds := 1 + c.Draw("rounds", w.maxRounds())
	var wants map[string]*verifWant
	for round := 0; round < rounds && len(c.Violations) == 0; round++ {
		// desired map: redraw, or keep the previous one (idempotence)
		if round == 0 || c.Draw("redraw-wants", 3) != 0 {
			wants = map[string]*verifWant{}
			for _, n := range names {
				if !w.managed(n) {
					continue
				}
				if want := w.drawWant(n); want.kind != verifWantNone {
					wants[n] = want
				}
			}
		}
		// the directory: initial population, later drift
		if !w.dirGone {
			for _, n := range names {
				if round == 0 {
					w.place(n, wants[n], "init")
				} else if c.Draw("drift:"+verifShort(n), 5) == 4 {
					w.place(n, wants[n], "drift")
				}
			}
		}
		order := verifSortedWants(wants)
		for _, n := range order {
			w.arm(n, wants[n])
		}
		// insertion order of the content map (with Go's small maps the
		// iteration order is a rotation of it; nothing relies on that)
		if len(order) >= 2 {
			perm := c.Perm("insert-order", len(order))
			o2 := make([]string, len(order))
			for i, j := range perm {
				o2[i] = order[j]
			}
			order = o2
		}
		tmpl := &verifRound{wants: wants}
		if w.obstacles && verifImmutableOK && !w.dirGone && c.Draw("immutable-dir", 24) == 23 {
			tmpl.immutDir = true
		}
		w.runRound(round, tmpl, len(order), func(r *verifRound, k int) {
			content := map[string]osutil.FileState{}
			for _, n := range verifOrderVariant(order, k) {
				content[n] = r.states[n]
			}
			if useSingle {
				r.changed, r.removed, r.err = osutil.EnsureDirState(w.dir, w.globs[0], content)
			} else {
				r.changed, r.removed, r.err = osutil.EnsureDirStateGlobs(w.dir, w.globs, content)
			}
			c.Count("calls:dir")
		})
	}
}

// verifRunTree: EnsureTreeState on a directory tree.
func verifRunTree(w *verifWorld) {
	c := w.c
	w.globs = verifTreeGlobSets[c.Draw("globs", len(verifTreeGlobSets))]
	c.Logf("globs=%v api=EnsureTreeState", w.globs)
	rounds := 1 + c.Draw("rounds", w.maxRounds())
	var wants map[string]*verifWant
	var contentDirs map[string]bool
	squat := false
	for round := 0; round < rounds && len(c.Violations) == 0; round++ {
		if round == 0 {
			// a regular file where the content map may want a directory
			if w.obstacles && c.Draw("file-squats-dir", 6) == 5 {
				squat = true
				w.mustWrite(filepath.Join(w.dir, "other-theme"), []byte("i am a file"), 0644)
				c.Logf("init other-theme: regular file")
			}
		}
		if round == 0 || c.Draw("redraw-wants", 3) != 0 {
			wants = map[string]*verifWant{}
			contentDirs = map[string]bool{}
			for _, d := range verifTreeDirs {
				if c.Draw("in-content:"+d, 2) == 0 {
					continue
				}
				contentDirs[d] = true
				for _, n := range verifTreeNames {
					rel := filepath.Join(d, n)
					if !w.managed(rel) {
						continue
					}
					if want := w.drawWant(rel); want.kind != verifWantNone {
						wants[rel] = want
					}
				}
			}
		}
		for _, d := range verifTreeDirs {
			if squat && d == "other-theme" {
				continue
			}
			if round == 0 {
				if d != "." && c.Draw("dir-exists:"+d, 3) == 0 {
					continue
				}
				if err := os.MkdirAll(filepath.Join(w.dir, d), 0755); err != nil {
					c.Fatalf("mkdir: %v", err)
				}
				for _, n := range verifTreeNames {
					w.place(filepath.Join(d, n), wants[filepath.Join(d, n)], "init")
				}
			} else {
				// (not conditional on the directory still being there: whether
				// EnsureTreeState removed an emptied directory depends on its
				// map iteration order)
				for _, n := range verifTreeNames {
					if c.Draw("drift:"+filepath.Join(d, n), 6) == 5 {
						w.place(filepath.Join(d, n), wants[filepath.Join(d, n)], "drift")
					}
				}
			}
		}
		for _, rel := range verifSortedWants(wants) {
			w.arm(rel, wants[rel])
		}
		tmpl := &verifRound{wants: wants, contentDirs: verifSortedBool(contentDirs)}
		c.Logf("round %d: content-dirs=%v", round, tmpl.contentDirs)
		w.runRound(round, tmpl, 2, func(r *verifRound, k int) {
			content := map[string]map[string]osutil.FileState{}
			for _, d := range verifOrderVariant(r.contentDirs, k) {
				content[d] = map[string]osutil.FileState{}
			}
			for _, rel := range verifOrderVariant(verifSortedWants(r.wants), k) {
				content[filepath.Dir(rel)][filepath.Base(rel)] = r.states[rel]
			}
			r.changed, r.removed, r.err = osutil.EnsureTreeState(w.dir, w.globs, content)
			c.Count("calls:tree")
			if r.err != nil && squat && contentDirs["other-theme"] {
				c.Count("fault:file-squats-directory")
			}
		})
	}
}

// verifRunFile: EnsureFileState on a single path.
func verifRunFile(w *verifWorld) {
	c := w.c
	name := []string{"snap.foo.app", "70-snap.foo.rules", verifLongName}[[]int{0, 0, 0, 1, 1, 2}[c.Draw("file-name", 6)]]
	w.globs = []string{name}
	others := []string{"snap.foo.svc", "other.txt"}
	rounds := 1 + c.Draw("rounds", w.maxRounds())
	var want *verifWant
	for round := 0; round < rounds && len(c.Violations) == 0; round++ {
		if round == 0 || c.Draw("redraw-wants", 3) != 0 {
			want = w.drawWant(name)
			if want.kind == verifWantNone {
				want.kind = verifWantMemory
				want.data = verifContent(name, 0)
				want.mode = 0644
			}
		}
		for _, n := range append([]string{name}, others...) {
			wn := want
			if n != name {
				wn = nil
			}
			if round == 0 {
				w.place(n, wn, "init")
			} else if c.Draw("drift:"+verifShort(n), 4) == 3 {
				w.place(n, wn, "drift")
			}
		}
		w.arm(name, want)
		immut := w.immutPlan
		w.immutPlan = map[string]bool{}
		immutDir := w.obstacles && verifImmutableOK && c.Draw("immutable-dir", 24) == 23
		st := w.newState(want)
		before := verifSnapshot(w.dir, false, nil)
		outBefore := verifStatSig(w.outside) + verifStatSig(w.src)
		c.Logf("round %d: EnsureFileState(%s) before=%s immutable-dir=%v", round, verifShort(name), before, immutDir)
		c.Logf("  want %s", want)
		for _, rel := range verifSortedBool(immut) {
			w.setImmutable(filepath.Join(w.dir, rel))
		}
		if immutDir {
			w.setImmutable(w.dir)
		}

		err := osutil.EnsureFileState(filepath.Join(w.dir, name), st)
		c.Count("calls:file")

		w.clearImmutable()
		after := verifSnapshot(w.dir, false, nil)
		outAfter := verifStatSig(w.outside) + verifStatSig(w.src)
		if st.firedState {
			c.Count("fault:state-error")
		}
		if st.firedRead {
			c.Count("fault:reader-error")
		}
		if st.firedShort {
			c.Count("fault:short-read")
		}
		if st.opens > st.closes {
			c.Add("obs:readers-not-closed", int64(st.opens-st.closes))
		}
		outcome := "ok"
		if err == osutil.ErrSameState {
			outcome = "same"
		} else if err != nil {
			outcome = "error"
			c.Nontrivial()
		}
		c.Logf("round %d: %s after=%s", round, outcome, after)

		// oracle
		for _, rel := range verifSortedKeys(before.direct) {
			if rel != name && after.direct[rel] != before.direct[rel] {
				c.Violate("C23/unrelated-changed", "round %d: EnsureFileState(%s) changed %s from %s to %q", round, verifShort(name), verifShort(rel), before.direct[rel], after.direct[rel])
			}
		}
		for _, rel := range verifSortedKeys(after.direct) {
			if _, ok := before.direct[rel]; !ok && rel != name {
				c.Violate("C23/stray-entry", "round %d: EnsureFileState(%s) left %s behind: %s", round, verifShort(name), verifShort(rel), after.direct[rel])
			}
		}
		if outBefore != outAfter {
			w.note("outside now: %s %s", verifDescribeTree(w.outside), verifDescribeTree(w.src))
			c.Violate("C23/outside-changed", "round %d: files outside the directory (symlink targets, reference sources) were modified", round)
		}
		wasExact, _ := verifExact(before, name, want)
		isExact, lenient := verifExact(after, name, want)
		switch outcome {
		case "ok":
			if !isExact {
				d, present := after.direct[name]
				if !present {
					c.Violate("C23/desired-missing", "round %d: EnsureFileState succeeded but %s is missing", round, verifShort(name))
				} else {
					c.Violate(verifMismatchClass(d, want), "round %d: EnsureFileState succeeded but %s is %s, desired %s", round, verifShort(name), d, want.desc())
				}
			}
			if wasExact && before.direct[name] == after.direct[name] && !st.firedRead {
				c.Violate("C23/changed-list", "round %d: EnsureFileState reported a change of %s although it already was %s", round, verifShort(name), before.direct[name])
			}
			if before.direct[name] != after.direct[name] {
				c.Nontrivial()
			}
			c.Count("outcome:success")
		case "same":
			if !wasExact {
				c.Violate("C23/same-state-misreported", "round %d: EnsureFileState reported no change but %s was %q, desired %s", round, verifShort(name), before.direct[name], want.desc())
			}
			if before.direct[name] != after.direct[name] {
				c.Violate("C23/same-state-misreported", "round %d: EnsureFileState reported no change but %s went from %q to %q", round, verifShort(name), before.direct[name], after.direct[name])
			}
			if lenient {
				c.Count("probe:symlink-left-in-place")
			}
			c.Count("probe:nothing-to-do")
			c.Count("outcome:success")
		case "error":
			c.Count("outcome:error")
			// an atomic write that fails leaves the previous entry alone
			if before.direct[name] != after.direct[name] {
				c.Violate("C23/partial-write", "round %d: EnsureFileState failed (%s) but %s went from %q to %q", round, verifErrText(err), verifShort(name), before.direct[name], after.direct[name])
			}
			d := before.direct[name]
			excuse := st.firedState || st.firedRead || want.bad != "" || immutDir || immut[name] || strings.HasPrefix(d, "dir") ||
				(strings.HasPrefix(d, "link:") && before.resolved[name] == "dir" && want.kind != verifWantSymlink) || len(name) > 240
			if !excuse {
				c.Violate("C23/spurious-error", "round %d: EnsureFileState failed with %q although nothing was in the way and no fault fired", round, verifErrText(err))
			}
			switch {
			case want.bad != "":
				c.Count("fault:unsatisfiable-state")
			case len(name) > 240:
				c.Count("fault:name-too-long")
			case strings.HasPrefix(d, "dir"):
				c.Count("fault:directory-in-the-way")
			case strings.HasPrefix(d, "link:") && before.resolved[name] == "dir":
				c.Count("fault:symlink-to-directory-in-the-way")
			case immutDir:
				c.Count("fault:immutable-directory")
			case immut[name]:
				c.Count("fault:immutable-file")
			}
		}
	}
}
