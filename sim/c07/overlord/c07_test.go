package overlord_test

// Engine A': a full overlord.New() (all managers register their real
// blocking predicates on the one shared TaskRunner); every handler of every
// kind is replaced by a parked simulated handler. Decides C07.

import (
	"errors"
	"fmt"
	"os"
	"path/filepath"
	"sort"
	"strconv"
	"sync"
	"testing"
	"testing/synctest"
	"time"

	"gopkg.in/tomb.v2"

	"github.com/snapcore/snapd/dirs"
	"github.com/snapcore/snapd/internal/verifsim"
	"github.com/snapcore/snapd/osutil"
	"github.com/snapcore/snapd/overlord"
	"github.com/snapcore/snapd/overlord/hookstate"
	"github.com/snapcore/snapd/overlord/snapstate"
	"github.com/snapcore/snapd/overlord/state"
)

type verifC07Parked struct {
	id, kind, snap, which, label string
	ch                           chan error
	seen                         bool
}

// the interface-manipulating kinds, from the property statement
var verifIfaceKinds = map[string]bool{"connect": true, "disconnect": true, "setup-profiles": true, "remove-profiles": true, "discard-conns": true,
	"auto-connect": true, "auto-disconnect": true, "hotplug-add-slot": true, "hotplug-connect": true, "hotplug-update-slot": true,
	"hotplug-remove-slot": true, "hotplug-disconnect": true, "transition-ubuntu-core": true}

func verifNumLessO(a, b string) bool {
	x, _ := strconv.Atoi(a)
	y, _ := strconv.Atoi(b)
	return x < y
}

func verifRunC07(c *verifsim.Ctx) {
	t0 := time.Now()
	tmp, err := os.MkdirTemp("", "verifc07")
	if err != nil {
		c.Fatalf("%v", err)
	}
	defer os.RemoveAll(tmp)
	dirs.SetRootDir(tmp)
	defer dirs.SetRootDir("")
	defer osutil.MockMountInfo("")()
	os.MkdirAll(filepath.Join(tmp, "var/lib/snapd"), 0755)
	dirs.SnapStateFile = filepath.Join(tmp, "var/lib/snapd/state.json")
	snapstate.CanAutoRefresh = nil

	permute := false
	state.VerifOrderTasks = func(ts []*state.Task) {
		sort.Slice(ts, func(i, j int) bool { return verifNumLessO(ts[i].ID(), ts[j].ID()) })
		if permute && len(ts) > 1 {
			switch c.Draw("tasks-order", 4) {
			case 1:
				for i, j := 0, len(ts)-1; i < j; i, j = i+1, j-1 {
					ts[i], ts[j] = ts[j], ts[i]
				}
			case 2:
				k := c.Draw("tasks-rot", len(ts))
				rot := append(append([]*state.Task{}, ts[k:]...), ts[:k]...)
				copy(ts, rot)
			case 3:
				p := c.Perm("tasks-perm", len(ts))
				cp := append([]*state.Task{}, ts...)
				for i, j := range p {
					ts[i] = cp[j]
				}
			}
		}
	}
	state.VerifOrderChanges = func(cs []*state.Change) {
		sort.Slice(cs, func(i, j int) bool { return verifNumLessO(cs[i].ID(), cs[j].ID()) })
	}
	defer func() { state.VerifOrderTasks = nil; state.VerifOrderChanges = nil }()

	o, err := overlord.New(nil)
	if err != nil {
		c.Fatalf("overlord.New: %v", err)
	}
	o.InterfaceManager().DisableUDevMonitor()
	o.VerifArmEnsureTimer()
	st := o.State()
	r := o.TaskRunner()
	var mu sync.Mutex
	var parked []*verifC07Parked
	labels := map[string]string{}

	mk := func(kind, which string) state.HandlerFunc {
		return func(t *state.Task, tb *tomb.Tomb) error {
			st.Lock()
			p := &verifC07Parked{id: t.ID(), kind: t.Kind(), which: which, ch: make(chan error)}
			var hs hookstate.HookSetup
			if t.Kind() == "run-hook" && t.Get("hook-setup", &hs) == nil {
				p.snap = hs.Snap
			}
			st.Unlock()
			mu.Lock()
			p.label = labels[p.id]
			parked = append(parked, p)
			mu.Unlock()
			return <-p.ch
		}
	}
	r.VerifWrapHandlers(func(kind, which string, h state.HandlerFunc) state.HandlerFunc { return mk(kind, which) })
	nkinds := len(r.KnownTaskKinds())

	defer func() {
		// leave nothing behind in the bubble
		mu.Lock()
		ps := parked
		parked = nil
		mu.Unlock()
		for _, p := range ps {
			p.ch <- errors.New("verif: torn down")
		}
		synctest.Wait()
		o.Stop()
		o.VerifStopEnsureTimer()
		synctest.Wait()
	}()

	pool := []string{"run-hook", "run-hook", "run-hook", "run-hook", "connect", "disconnect", "setup-profiles", "remove-profiles", "auto-connect", "auto-disconnect",
		"discard-conns", "hotplug-connect", "hotplug-add-slot", "transition-ubuntu-core", "prerequisites", "prerequisites", "prerequisites",
		"update-gadget-assets", "update-gadget-assets", "link-snap", "mount-snap", "download-snap", "nop", "unlink-snap"}
	pFail := []int{0, 1, 3}[c.Draw("cfg.pfail", 3)]
	retries := c.Draw("cfg.retries", 2) == 1
	st.Lock()
	nch := 2 + c.Draw("nchanges", 5)
	var chgs []*state.Change
	ntasks := 0
	for i := 0; i < nch; i++ {
		chg := st.NewChange("c"+strconv.Itoa(i), "c")
		nt := 1 + c.Draw("ntasks", 6)
		var prev *state.Task
		for j := 0; j < nt; j++ {
			k := pool[c.Draw("kind", len(pool))]
			t := st.NewTask(k, k)
			lab := fmt.Sprintf("c%d.t%d:%s", i, j, k)
			if k == "run-hook" {
				sn := "snap" + strconv.Itoa(c.Draw("hook-snap", 3))
				hs := &hookstate.HookSetup{Snap: sn, Hook: []string{"configure", "install", "pre-refresh"}[c.Draw("hook-name", 3)]}
				// hooks of a snap's components are hooks of that snap too
				if comp := c.Draw("hook-component", 3); comp > 0 {
					hs.Component = "comp" + strconv.Itoa(comp)
					c.Count("probe:component-hook")
				}
				t.Set("hook-setup", hs)
				lab += "(" + sn + "+" + hs.Component + ":" + hs.Hook + ")"
			}
			labels[t.ID()] = lab
			if prev != nil && c.Draw("edge", 2) == 1 {
				t.WaitFor(prev)
			}
			chg.AddTask(t)
			prev = t
			ntasks++
		}
		chgs = append(chgs, chg)
	}
	st.Unlock()
	c.Logf("%d kinds registered, %d changes, %d tasks", nkinds, nch, ntasks)

	checkExclusion := func() {
		mu.Lock()
		defer mu.Unlock()
		sort.Slice(parked, func(i, j int) bool {
			if parked[i].label != parked[j].label {
				return parked[i].label < parked[j].label
			}
			return parked[i].which < parked[j].which
		})
		var exec []*verifC07Parked
		for _, p := range parked {
			if !p.seen {
				p.seen = true
				c.Logf("start-%s %s", p.which, p.label)
			}
			if p.which != "cleanup" {
				exec = append(exec, p)
			}
		}
		if len(exec) > 1 {
			c.Nontrivial()
			c.Count("probe:handlers-overlapped")
		}
		c.Add("exclusion-evaluations", 1)
		for i := 0; i < len(exec); i++ {
			for j := i + 1; j < len(exec); j++ {
				p, q := exec[i], exec[j]
				switch {
				case p.kind == "run-hook" && q.kind == "run-hook" && p.snap == q.snap:
					c.Violate("C07/two-hooks-of-one-snap", "hooks of %s run at once: %s and %s", p.snap, p.label, q.label)
				case verifIfaceKinds[p.kind] && verifIfaceKinds[q.kind]:
					c.Violate("C07/two-interface-tasks", "interface tasks run at once: %s and %s", p.label, q.label)
				case p.kind == "prerequisites" && q.kind == "prerequisites":
					c.Violate("C07/two-prerequisites", "prerequisites tasks run at once: %s and %s", p.label, q.label)
				case p.kind == "update-gadget-assets" || q.kind == "update-gadget-assets":
					c.Violate("C07/gadget-update-not-alone", "update-gadget-assets runs alongside another task: %s and %s", p.label, q.label)
				}
			}
		}
		for _, p := range exec {
			switch {
			case p.kind == "run-hook":
				c.Count("probe:hook-ran")
			case verifIfaceKinds[p.kind]:
				c.Count("probe:iface-task-ran")
			case p.kind == "prerequisites":
				c.Count("probe:prerequisites-ran")
			case p.kind == "update-gadget-assets":
				c.Count("probe:gadget-update-ran")
			}
			if p.which == "undo" {
				c.Count("probe:undo-direction")
			}
		}
	}

	snapshot := func() string {
		st.Lock()
		defer st.Unlock()
		s := ""
		for _, chg := range chgs {
			s += chg.ID() + ":"
			for _, t := range chg.Tasks() {
				s += fmt.Sprintf(" %s=%v", labels[t.ID()], t.Status())
			}
			s += "; "
		}
		return s
	}

	stall := 0
	last := ""
	retried := map[string]int{}
	for step := 0; ; step++ {
		if step > 3000 {
			c.Violate("C07/livelock", "changes did not finish within 3000 simulator events")
			return
		}
		checkExclusion()
		if len(c.Violations) > 0 {
			return
		}
		st.Lock()
		all := true
		for _, chg := range chgs {
			if !chg.IsReady() {
				all = false
			}
		}
		st.Unlock()
		mu.Lock()
		np := len(parked)
		mu.Unlock()
		if all && np == 0 {
			break
		}
		now := time.Now()
		next := o.VerifEnsureNext()
		due := !next.After(now)
		nacts := np
		if due {
			nacts++
		}
		if nacts == 0 {
			d := next.Sub(now)
			time.Sleep(d)
			synctest.Wait()
			c.Logf("clock +%v", d)
			s := snapshot()
			if s == last {
				stall++
			} else {
				stall = 0
				last = s
			}
			if stall >= 4 {
				c.Violate("C07/stall", "blocked tasks never run: no progress over %d periodic ensure passes with nothing executing: %s", stall, s)
				return
			}
			continue
		}
		k := c.Draw("act", nacts)
		if due && k == 0 {
			c.Logf("ensure")
			o.VerifEnsureReset()
			permute = true
			r.Ensure()
			permute = false
			synctest.Wait()
			continue
		}
		if due {
			k--
		}
		mu.Lock()
		p := parked[k]
		parked = append(parked[:k], parked[k+1:]...)
		mu.Unlock()
		var res error
		if p.which != "cleanup" && pFail > 0 && c.Chance("fail", pFail, 12) {
			res = errors.New("boom")
			c.Count("fault:handler-error")
		} else if p.which != "cleanup" && retries && retried[p.label] < 2 && c.Chance("retry", 1, 8) {
			retried[p.label]++
			// (hooks, auto-connect, prerequisites really answer like this): the task
			// stays Doing/Undoing and is run again later, exclusion still applies then
			res = &state.Retry{After: []time.Duration{0, time.Second, 2 * time.Minute}[c.Draw("retry-after", 3)]}
			c.Count("probe:handler-asked-to-be-retried")
		}
		c.Logf("end-%s %s -> %v", p.which, p.label, res)
		stall = 0 // a handler ran: that is progress even when it asks to be retried
		p.ch <- res
		synctest.Wait()
	}
	c.SimTime = time.Since(t0)
}

var verifEngineC07 = &verifsim.Engine{
	Name:   "A': overlord.New() with every manager's real blocking predicates, simulated handlers",
	Bubble: true,
	Run:    verifRunC07,
	Real: []string{"overlord.New: all managers' construction incl. their TaskRunner.AddBlocked predicates (hookstate, ifacestate, snapstate, devicestate)", "overlord/state TaskRunner.Ensure (blocked/someBlocked logic)",
		"overlord state backend (real checkpoints to a scratch state file, real ensureBefore arithmetic)"},
	Stubs: []string{"every do/undo/cleanup handler of all registered kinds (parked, scripted result)", "Overlord.Loop (the simulator runs the runner's Ensure when ensureNext is due; managers' own Ensure is not called)"},
}

func TestVerifSim(t *testing.T) {
	verifsim.Main(t, map[string]*verifsim.Engine{"C07": verifEngineC07, "C04": verifEngineC04Stop})
}
