package overlord_test

// Second engine for C04: snapd is stopped in an orderly way (Overlord.Stop)
// while task handlers are in progress, and a new snapd process
// (overlord.New on the same state directory) starts while the old one is
// still winding down. The state lock file is the only thing between the two.
// The tape decides when the stop is requested, when each handler under way
// finishes, when the new process is started and when its lock polls happen.

import (
	"errors"
	"fmt"
	"os"
	"path/filepath"
	"sort"
	"strings"
	"sync"
	"testing/synctest"
	"time"

	"gopkg.in/tomb.v2"

	"github.com/snapcore/snapd/dirs"
	"github.com/snapcore/snapd/internal/verifsim"
	"github.com/snapcore/snapd/osutil"
	"github.com/snapcore/snapd/overlord"
	"github.com/snapcore/snapd/overlord/snapstate"
	"github.com/snapcore/snapd/overlord/state"
)

type verifC04Parked struct {
	id   string
	proc int
	ch   chan error
}

func verifRunC04Stop(c *verifsim.Ctx) {
	t0 := time.Now()
	tmp, err := os.MkdirTemp("", "verifc04stop")
	if err != nil {
		c.Fatalf("%v", err)
	}
	defer os.RemoveAll(tmp)
	dirs.SetRootDir(tmp)
	defer dirs.SetRootDir("")
	defer osutil.MockMountInfo("")()
	os.MkdirAll(filepath.Join(tmp, "var/lib/snapd"), 0755)
	dirs.SnapStateFile = filepath.Join(tmp, "var/lib/snapd/state.json")
	snapstate.CanAutoRefresh = nil
	poll := []time.Duration{time.Millisecond, 10 * time.Millisecond, 100 * time.Millisecond}[c.Draw("lock-poll", 3)]
	defer overlord.MockStateLockTimeout(time.Hour, poll)()

	state.VerifOrderTasks = func(ts []*state.Task) {
		sort.Slice(ts, func(i, j int) bool { return verifNumLessO(ts[i].ID(), ts[j].ID()) })
	}
	state.VerifOrderChanges = func(cs []*state.Change) {
		sort.Slice(cs, func(i, j int) bool { return verifNumLessO(cs[i].ID(), cs[j].ID()) })
	}
	defer func() { state.VerifOrderTasks = nil; state.VerifOrderChanges = nil }()

	var mu sync.Mutex
	var parked []*verifC04Parked
	starts := map[string][]int{} // task -> processes that started its handler, in order
	handler := func(proc int) state.HandlerFunc {
		return func(t *state.Task, tb *tomb.Tomb) error {
			p := &verifC04Parked{id: t.ID(), proc: proc, ch: make(chan error)}
			mu.Lock()
			parked = append(parked, p)
			starts[p.id] = append(starts[p.id], proc)
			mu.Unlock()
			// a step that cannot be interrupted half-way: it ends when the
			// simulator says so, also after the runner was asked to stop
			return <-p.ch
		}
	}
	nparked := func(proc int) int {
		mu.Lock()
		defer mu.Unlock()
		n := 0
		for _, p := range parked {
			if p.proc == proc {
				n++
			}
		}
		return n
	}
	release := func(proc, k int, res error) string {
		// the k-th handler under way in task order (not in the order the
		// handler goroutines happened to arrive)
		mu.Lock()
		var mine []*verifC04Parked
		for _, q := range parked {
			if q.proc == proc {
				mine = append(mine, q)
			}
		}
		sort.Slice(mine, func(i, j int) bool { return verifNumLessO(mine[i].id, mine[j].id) })
		p := mine[k]
		for i, q := range parked {
			if q == p {
				parked = append(parked[:i], parked[i+1:]...)
				break
			}
		}
		mu.Unlock()
		p.ch <- res
		synctest.Wait()
		return p.id
	}

	o1, err := overlord.New(nil)
	if err != nil {
		c.Fatalf("overlord.New: %v", err)
	}
	o1.InterfaceManager().DisableUDevMonitor()
	o1.VerifArmEnsureTimer()
	var o2 *overlord.Overlord
	stop1 := make(chan struct{})
	stopRequested := false
	defer func() {
		// leave nothing behind in the bubble
		for {
			mu.Lock()
			ps := parked
			parked = nil
			mu.Unlock()
			if len(ps) == 0 {
				break
			}
			for _, p := range ps {
				p.ch <- errors.New("verif: torn down")
			}
			synctest.Wait()
		}
		if !stopRequested {
			o1.Stop()
		} else {
			<-stop1
		}
		o1.VerifStopEnsureTimer()
		if o2 != nil {
			o2.Stop()
			o2.VerifStopEnsureTimer()
		}
		synctest.Wait()
	}()
	st1 := o1.State()
	r1 := o1.TaskRunner()
	r1.AddHandler("verif-step", handler(1), nil)

	// the change: a few steps, in a chain, side by side, or a diamond
	n := 1 + c.Draw("tasks", 4)
	shape := c.Draw("shape", 3)
	st1.Lock()
	chg := st1.NewChange("verif", "...")
	var ids []string
	var ts []*state.Task
	for i := 0; i < n; i++ {
		t := st1.NewTask("verif-step", fmt.Sprintf("step %d", i))
		switch shape {
		case 0:
			if i > 0 {
				t.WaitFor(ts[i-1])
			}
		case 2:
			if i > 0 {
				t.WaitFor(ts[0])
			}
		}
		chg.AddTask(t)
		ts = append(ts, t)
		ids = append(ids, t.ID())
	}
	chgID := chg.ID()
	st1.Unlock()
	c.Logf("change of %d tasks, shape %d, lock poll %v", n, shape, poll)

	statuses := func(st *state.State) map[string]state.Status {
		st.Lock()
		defer st.Unlock()
		m := map[string]state.Status{}
		for _, t := range st.Tasks() {
			m[t.ID()] = t.Status()
		}
		return m
	}
	show := func(m map[string]state.Status) string {
		var ks []string
		for k := range m {
			ks = append(ks, k)
		}
		sort.Slice(ks, func(i, j int) bool { return verifNumLessO(ks[i], ks[j]) })
		var out []string
		for _, k := range ks {
			out = append(out, k+":"+m[k].String())
		}
		return strings.Join(out, " ")
	}

	// phase 1: the old snapd works; at some point it is asked to stop
	for step := 0; step < 40 && !stopRequested; step++ {
		r1.Ensure()
		synctest.Wait()
		np := nparked(1)
		st1.Lock()
		ready := chg.IsReady()
		st1.Unlock()
		if ready {
			break
		}
		// 0: ask to stop; 1..np: a handler finishes
		k := 0
		if np > 0 {
			k = c.Draw("before-stop", np+1)
		}
		if k == 0 {
			stopRequested = true
			c.Logf("stop requested with %d handlers under way", np)
			if np > 0 {
				c.Count("probe:stop-with-handlers-under-way")
			}
			go func() {
				o1.Stop()
				close(stop1)
			}()
			synctest.Wait()
			break
		}
		id := release(1, k-1, nil)
		c.Logf("old: handler of %s finished", id)
	}
	if !stopRequested {
		// the change finished before any stop: an orderly stop of an idle snapd
		stopRequested = true
		c.Logf("stop requested, idle")
		go func() {
			o1.Stop()
			close(stop1)
		}()
		synctest.Wait()
	}

	// phase 2: the old snapd winds down, the new one is started at some point
	type loaded struct {
		o   *overlord.Overlord
		err error
		at  map[string]state.Status
		old int // handlers of the old process still under way when the new one had its state
	}
	newDone := make(chan loaded, 1)
	newStarted := false
	var got *loaded
	stopped := false
	for step := 0; step < 400 && (got == nil || !stopped); step++ {
		select {
		case <-stop1:
			if !stopped {
				c.Logf("old: Stop returned")
			}
			stopped = true
		default:
		}
		if got == nil {
			select {
			case l := <-newDone:
				got = &l
				c.Logf("new: has the state (old handlers under way: %d): %s", l.old, show(l.at))
			default:
			}
		}
		if got != nil && stopped {
			break
		}
		np := nparked(1)
		var acts []string
		if !newStarted {
			acts = append(acts, "start-new")
		} else if got == nil {
			acts = append(acts, "clock")
		}
		for i := 0; i < np; i++ {
			acts = append(acts, "finish")
		}
		if len(acts) == 0 {
			// nothing the simulator can do: the old process must be finishing by itself
			synctest.Wait()
			time.Sleep(time.Millisecond)
			synctest.Wait()
			continue
		}
		k := c.Draw("wind-down", len(acts))
		switch acts[k] {
		case "start-new":
			newStarted = true
			c.Logf("new: starting")
			go func() {
				o, err := overlord.New(nil)
				l := loaded{o: o, err: err}
				if err == nil {
					o.InterfaceManager().DisableUDevMonitor()
					o.VerifArmEnsureTimer()
					l.at = statuses(o.State())
					l.old = nparked(1)
				}
				newDone <- l
			}()
			synctest.Wait()
		case "clock":
			time.Sleep(2 * poll)
			synctest.Wait()
			c.Logf("clock +%v", 2*poll)
		case "finish":
			idx := k
			if acts[0] != "finish" {
				idx--
			}
			var res error
			if c.Chance("cancelled", 1, 4) {
				// the step gave up because of the stop: it is to be run again
				res = errors.New("cancelled")
				c.Count("fault:handler-cancelled-by-stop")
			}
			id := release(1, idx, res)
			c.Logf("old: handler of %s finished winding down -> %v", id, res)
			c.Count("probe:handler-finished-after-stop-request")
		}
	}
	if got == nil || !stopped {
		c.Violate("C04/restart-stalled", "after a stop request the old snapd did not stop or the new one did not get the state (stopped=%v, new has state=%v)", stopped, got != nil)
		return
	}
	if got.err != nil {
		c.Fatalf("second overlord.New: %v", got.err)
	}
	o2 = got.o
	c.Nontrivial()

	// what the old snapd recorded by the time it was gone
	final1 := statuses(st1)
	c.Logf("old: final %s", show(final1))
	if got.old != 0 {
		c.Violate("C04/new-process-while-old-handlers-run", "the restarted snapd took over the state while %d task handlers of the stopping snapd were still under way", got.old)
		return
	}
	for _, id := range ids {
		if got.at[id] != final1[id] {
			c.Violate("C04/restart-from-stale-state", "task %s: the stopping snapd recorded %s, the restarted snapd started from %s", id, final1[id], got.at[id])
			return
		}
	}
	if len(got.at) != len(final1) {
		c.Violate("C04/task-lost-or-duplicated", "tasks before the restart: %s; after: %s", show(final1), show(got.at))
		return
	}

	// phase 3: the new snapd carries on
	st2 := o2.State()
	r2 := o2.TaskRunner()
	r2.AddHandler("verif-step", handler(2), nil)
	for step := 0; step < 60; step++ {
		r2.Ensure()
		synctest.Wait()
		st2.Lock()
		chg2 := st2.Change(chgID)
		ready := chg2 != nil && chg2.IsReady()
		st2.Unlock()
		if chg2 == nil {
			c.Violate("C04/task-lost-or-duplicated", "change %s is gone after the restart", chgID)
			return
		}
		if ready {
			break
		}
		np := nparked(2)
		if np == 0 {
			time.Sleep(time.Second)
			synctest.Wait()
			continue
		}
		id := release(2, c.Draw("after-restart", np), nil)
		c.Logf("new: handler of %s finished", id)
	}
	final2 := statuses(st2)
	c.Logf("new: final %s", show(final2))
	mu.Lock()
	defer mu.Unlock()
	for _, id := range ids {
		if final2[id] != state.DoneStatus {
			c.Violate("C04/outcome-differs", "task %s ends %s after the restart, Done without it", id, final2[id])
			return
		}
		if final1[id] == state.DoneStatus {
			for _, p := range starts[id] {
				if p == 2 {
					c.Violate("C04/finished-task-run-again", "task %s was recorded Done by the stopping snapd and was run again by the restarted one", id)
					return
				}
			}
		}
	}
	c.SimTime = time.Since(t0)
}

var verifEngineC04Stop = &verifsim.Engine{
	Name:   "A'': orderly stop of a working overlord overlapped by the start of the next one on the same state directory",
	Bubble: true,
	Run:    verifRunC04Stop,
	Real: []string{"overlord.New (state lock file: initStateFileLock, lockWithTimeout; loadState from the state file)", "Overlord.Stop, StateEngine.Stop, TaskRunner.Stop and the runner's status bookkeeping after a handler returns",
		"overlord state backend (real checkpoints to a scratch state file)"},
	Stubs: []string{"task handlers (parked; the tape decides when each ends, also after the stop request)", "Overlord.Loop (the simulator calls TaskRunner.Ensure)", "the second process is a second Overlord in the same OS process (flock on its own file description)"},
}
