package overlord

import "time"

// Simulator accessors (internal test file added through the overlay).

// VerifArmEnsureTimer lets EnsureBefore be used without running Loop: the
// timer exists but nobody listens to it; the simulator reads ensureNext.
func (o *Overlord) VerifArmEnsureTimer() {
	o.ensureLock.Lock()
	defer o.ensureLock.Unlock()
	o.ensureTimer = time.NewTimer(1000000 * time.Hour)
	o.ensureNext = time.Now()
}

func (o *Overlord) VerifStopEnsureTimer() {
	o.ensureLock.Lock()
	defer o.ensureLock.Unlock()
	if o.ensureTimer != nil {
		o.ensureTimer.Stop()
	}
}

// VerifEnsureNext is when the loop would run the next ensure pass.
func (o *Overlord) VerifEnsureNext() time.Time {
	o.ensureLock.Lock()
	defer o.ensureLock.Unlock()
	return o.ensureNext
}

// VerifEnsureReset is what Loop does right before every ensure pass.
func (o *Overlord) VerifEnsureReset() { o.ensureTimerReset() }
