#!/bin/bash
# Builds the check driver and warms the Go build cache for every engine. Offline.
set -e
cd /verif/cmd/check
export GOFLAGS=-mod=mod GOPROXY=off GOSUMDB=off GOTOOLCHAIN=local
mkdir -p /verif/bin /verif/evidence /verif/replays
go1.26.8 build -o /verif/bin/check .
cd /verif
./bin/check --warm
