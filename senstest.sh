#!/bin/bash
# usage: senstest.sh <diff> <prop> : applies a sensitivity diff in /tmp/wt-seed and runs the quick check on it
d=$(realpath $1); p=$2
WT=/tmp/wt-seed
git -C $WT checkout -q --detach $(git -C /repo rev-parse HEAD) && git -C $WT checkout -q -- . && git -C $WT clean -fdq
git -C $WT apply "$d" || { echo "$(basename $d): patch does not apply"; exit 2; }
out=$(cd /verif && VERIF_REPO=$WT VERIF_OUTDIR=/var/tmp/seedout VERIF_WORKERS=${WORKERS:-8} VERIF_BUDGET_S=${BUDGET:-20} ./bin/check $p quick 2>&1); rc=$?
echo "$(basename $d) [$p] exit=$rc $(echo "$out" | grep -E "^violation" | sed -E 's/^violation class=([^ ]+).*/\1/' | sort | uniq -c | tr '\n' ' ')"
git -C $WT checkout -q -- . && git -C $WT clean -fdq
